"""Small helpers shared by rule files."""

from __future__ import annotations

import ast

from .model import AnchorError, Undecided, call_name, dotted_name, unparse, walk_no_nested


def find_calls(fn_node, name, include_nested=False):
    it = ast.walk(fn_node) if include_nested else walk_no_nested(fn_node)
    return [n for n in it if isinstance(n, ast.Call) and call_name(n) == name]


def parents_map(root):
    pm = {}
    for n in ast.walk(root):
        for c in ast.iter_child_nodes(n):
            pm[c] = n
    return pm


def enclosing_stmt(root, node, pm=None):
    pm = pm or parents_map(root)
    cur = node
    while cur in pm and not isinstance(cur, ast.stmt):
        cur = pm[cur]
    return cur if isinstance(cur, ast.stmt) else None


def top_level_stmt(fn_node, node, pm=None):
    """The statement of ``fn_node.body`` that (transitively) contains ``node``."""
    pm = pm or parents_map(fn_node)
    cur = node
    while cur in pm and pm[cur] is not fn_node:
        cur = pm[cur]
    return cur if cur in fn_node.body else None


def ancestors(node, pm):
    out = []
    cur = node
    while cur in pm:
        cur = pm[cur]
        out.append(cur)
    return out


def get_arg(call, params, name):
    """Expression bound to parameter ``name`` (params = list of parameter names *without* self)."""
    for kw in call.keywords:
        if kw.arg == name:
            return kw.value
    if name in params:
        i = params.index(name)
        if i < len(call.args) and not any(isinstance(a, ast.Starred) for a in call.args[: i + 1]):
            return call.args[i]
    return None


def require(cond, msg, node=None):
    if not cond:
        raise Undecided(msg, node)


def anchor(cond, msg):
    if not cond:
        raise AnchorError(msg)


def self_attr_loads(node, attr, selfname="self"):
    return [
        n
        for n in ast.walk(node)
        if isinstance(n, ast.Attribute)
        and n.attr == attr
        and isinstance(n.value, ast.Name)
        and n.value.id == selfname
        and isinstance(n.ctx, ast.Load)
    ]


def attr_names_read(node):
    return {n.attr for n in ast.walk(node) if isinstance(n, ast.Attribute) and isinstance(n.ctx, ast.Load)}


def kw(call, name):
    for k in call.keywords:
        if k.arg == name:
            return k.value
    return None


def strip_docstring(body):
    if body and isinstance(body[0], ast.Expr) and isinstance(body[0].value, ast.Constant) and isinstance(body[0].value.value, str):
        return body[1:]
    return body


def is_const(node, value):
    return isinstance(node, ast.Constant) and node.value == value and type(node.value) is type(value)


def last_attr(node):
    """Final attribute/name component of an expression, or None."""
    if isinstance(node, ast.Attribute):
        return node.attr
    if isinstance(node, ast.Name):
        return node.id
    return None


__all__ = [n for n in dir() if not n.startswith("_")]
_ = (dotted_name, unparse)
