"""Remote-handle typing.

``ray.get`` returns ``Any``; the value is typed by the provenance of the handle: the dictionary the
handle is read from is followed to the ``ray.put(x)`` sites that fill it and gets the class of ``x``
(all put sites must agree); dataclass submission fields annotated with an agent class type their
handles directly.
"""

from __future__ import annotations

import ast

from .model import Undecided, call_name, dotted_name, unparse, walk_no_nested
from .resolve import TRef


def store_types(p, t):
    """{store field name on the engine -> ClassInfo} derived from ray.put sites in
    Scenario.stepForward and the parameter->field assignments of TaskingEngine.setHandles."""
    step = p.func("Scenario.stepForward")
    puts = {}
    for n in walk_no_nested(step.node):
        if isinstance(n, ast.Assign) and isinstance(n.targets[0], ast.Subscript) and isinstance(n.value, ast.Call) and dotted_name(n.value.func) == "ray.put":
            store = n.targets[0].value
            if isinstance(store, ast.Attribute) and isinstance(store.value, ast.Name) and store.value.id == "self":
                ty = t.expr_type(n.value.args[0], step)
                if ty is None or ty.cls is None:
                    raise Undecided(f"cannot type the object put into {unparse(store)}", n)
                prev = puts.get(store.attr)
                if prev is not None and prev is not ty.cls:
                    raise Undecided(f"ray.put sites of {store.attr} disagree on the class", n)
                puts[store.attr] = ty.cls
    if not puts:
        raise Undecided("no `self._X_store[k] = ray.put(v)` site found in stepForward", step.node)
    sh = p.func("TaskingEngine.setHandles")
    calls = [c for c in walk_no_nested(step.node) if isinstance(c, ast.Call) and call_name(c) == "setHandles"]
    if len(calls) != 1:
        raise Undecided("setHandles is not called exactly once in stepForward", step.node)
    params = sh.params[1:]
    field_of_param = {}
    for n in walk_no_nested(sh.node):
        if isinstance(n, ast.Assign) and isinstance(n.targets[0], ast.Attribute) and isinstance(n.value, ast.Name) and n.value.id in params:
            field_of_param[n.value.id] = n.targets[0].attr
    out = {}
    for i, a in enumerate(calls[0].args):
        if isinstance(a, ast.Attribute) and a.attr in puts and i < len(params):
            fld = field_of_param.get(params[i])
            if fld:
                out[fld] = puts[a.attr]
    return out, puts


def install(p, t):
    """Register the store types as attribute-type overrides on TaskingEngine."""
    eng = p.cls("TaskingEngine")
    stores, puts = store_types(p, t)
    for fld, cls in stores.items():
        t.overrides[(eng.qualname, fld)] = TRef(None, TRef(cls), "dict")
    return stores


def remote_values(p, t, fi):
    """[(local name or None, value expr node of ray.get call, TRef)] for every ray.get in ``fi``."""
    out = []
    for n in walk_no_nested(fi.node):
        if isinstance(n, ast.Call) and dotted_name(n.func) == "ray.get" and n.args:
            arg = n.args[0]
            ty = t.expr_type(arg, fi)
            if ty is None and isinstance(arg, ast.Call) and call_name(arg) == "list" and arg.args:
                ty = t.expr_type(arg, fi)
            out.append((n, ty))
    return out
