"""Callee and receiver-type resolution from the repo's own annotations.

``TypeEnv`` answers "which repo class (if any) does this expression evaluate to" using:
parameter annotations, ``self``, attribute types recovered from ``__init__`` assignments /
class-level annotations / property return annotations, constructor calls, return annotations of
resolved callees, dict/list element types from ``dict[K, V]`` / ``list[V]`` annotations, and
caller-supplied overrides (remote-handle typing).
"""

from __future__ import annotations

import ast

from .model import ClassInfo, FunctionInfo, Project, dotted_name, walk_no_nested


class TRef:
    """A resolved type: a repo class, or a container of one."""

    __slots__ = ("cls", "elem", "kind")

    def __init__(self, cls=None, elem=None, kind="obj"):
        self.cls = cls  # ClassInfo | None
        self.elem = elem  # TRef | None  (for containers: value/element type)
        self.kind = kind  # obj | dict | list | type

    def __repr__(self):
        if self.kind == "obj":
            return f"T[{self.cls.name if self.cls else '?'}]"
        return f"T[{self.kind} of {self.elem}]"


_CONTAINER_NAMES = {
    "dict": "dict",
    "Dict": "dict",
    "defaultdict": "dict",
    "Mapping": "dict",
    "OrderedDict": "dict",
    "list": "list",
    "List": "list",
    "Sequence": "list",
    "Iterable": "list",
    "tuple": "list",
    "set": "list",
    "Set": "list",
    "deque": "list",
    "Iterator": "list",
    "Collection": "list",
}


class TypeEnv:
    def __init__(self, project: Project):
        self.p = project
        self._attr_cache = {}
        self.overrides = {}  # (class qualname, attr) -> TRef

    # ------------------------------------------------------------ annotations
    def from_annotation(self, ann, mod) -> TRef | None:
        if ann is None:
            return None
        if isinstance(ann, ast.Constant) and isinstance(ann.value, str):
            try:
                ann = ast.parse(ann.value, mode="eval").body
            except SyntaxError:
                return None
        if isinstance(ann, ast.BinOp) and isinstance(ann.op, ast.BitOr):
            left = self.from_annotation(ann.left, mod)
            right = self.from_annotation(ann.right, mod)
            return left or right
        if isinstance(ann, ast.Subscript):
            head = dotted_name(ann.value)
            short = head.split(".")[-1] if head else None
            if short in ("Optional", "Annotated", "ClassVar", "Final"):
                sl = ann.slice
                if isinstance(sl, ast.Tuple):
                    sl = sl.elts[0]
                return self.from_annotation(sl, mod)
            if short == "Union":
                sl = ann.slice
                elts = sl.elts if isinstance(sl, ast.Tuple) else [sl]
                for e in elts:
                    t = self.from_annotation(e, mod)
                    if t:
                        return t
                return None
            if short in ("type", "Type"):
                t = self.from_annotation(ann.slice, mod)
                return TRef(t.cls, None, "type") if t and t.cls else None
            if short in _CONTAINER_NAMES:
                kind = _CONTAINER_NAMES[short]
                sl = ann.slice
                if isinstance(sl, ast.Tuple):
                    el = sl.elts[-1] if kind == "dict" else sl.elts[0]
                else:
                    el = sl
                return TRef(None, self.from_annotation(el, mod), kind)
            return None
        name = dotted_name(ann)
        if name is None:
            return None
        q = self.p.resolve_dotted(mod, name)
        ci = self.p.classes.get(q)
        if ci is not None:
            return TRef(ci)
        return None

    # ------------------------------------------------------------ attribute types
    def attr_type(self, ci: ClassInfo, attr: str) -> TRef | None:
        key = (ci.qualname, attr)
        if key in self.overrides:
            return self.overrides[key]
        if key in self._attr_cache:
            return self._attr_cache[key]
        self._attr_cache[key] = None  # recursion guard
        res = self._super_init_type(ci, attr)
        for c in self.p.mro(ci) if res is None else []:
            if (c.qualname, attr) in self.overrides:
                res = self.overrides[(c.qualname, attr)]
                break
            # property return annotation
            m = c.methods.get(attr)
            if m is not None and m.kind == "property":
                res = self.from_annotation(m.node.returns, c.module)
                if res is None:
                    res = self._property_body_type(m)
                break
            if attr in c.class_annots:
                res = self.from_annotation(c.class_annots[attr], c.module)
                if res:
                    break
            # assignments self.attr = ...
            found = False
            for fi in c.methods.values():
                if not fi.node.args.args:
                    continue
                selfname = fi.node.args.args[0].arg
                for n in walk_no_nested(fi.node):
                    tgt = None
                    val = None
                    ann = None
                    if isinstance(n, ast.Assign):
                        for t in n.targets:
                            if _is_attr(t, selfname, attr):
                                tgt, val = t, n.value
                    elif isinstance(n, ast.AnnAssign) and _is_attr(n.target, selfname, attr):
                        tgt, val, ann = n.target, n.value, n.annotation
                    if tgt is None:
                        continue
                    found = True
                    t = self.from_annotation(ann, c.module) if ann is not None else None
                    if t is None and val is not None:
                        t = self.expr_type(val, fi)
                    if t is not None:
                        res = t
                        break
                if res:
                    break
            if res or found:
                break
        self._attr_cache[key] = res
        return res

    def _super_init_type(self, ci: ClassInfo, attr: str):
        """``self.attr = param`` in a base ``__init__`` reached through ``super().__init__(x)``
        from a subclass whose ``x`` is an annotated parameter: the subclass' annotation wins."""
        mro = self.p.mro(ci)
        for i, c in enumerate(mro):
            init = c.methods.get("__init__")
            if init is None:
                continue
            for n in walk_no_nested(init.node):
                if not (
                    isinstance(n, ast.Call)
                    and isinstance(n.func, ast.Attribute)
                    and n.func.attr == "__init__"
                    and isinstance(n.func.value, ast.Call)
                    and isinstance(n.func.value.func, ast.Name)
                    and n.func.value.func.id == "super"
                ):
                    continue
                base_init = self.p.lookup_method(ci, "__init__", after=c)
                if base_init is None:
                    continue
                bparams = base_init.params[1:]
                bsel = base_init.params[0] if base_init.params else "self"
                for bn in walk_no_nested(base_init.node):
                    if isinstance(bn, ast.Assign) and any(_is_attr(t, bsel, attr) for t in bn.targets):
                        if isinstance(bn.value, ast.Name) and bn.value.id in bparams:
                            idx = bparams.index(bn.value.id)
                            arg = None
                            if idx < len(n.args):
                                arg = n.args[idx]
                            for kw in n.keywords:
                                if kw.arg == bn.value.id:
                                    arg = kw.value
                            if arg is not None:
                                t = self.expr_type(arg, init)
                                if t is not None:
                                    return t
            break  # only the most-derived __init__ decides
        return None

    def _property_body_type(self, m: FunctionInfo):
        rets = [n for n in walk_no_nested(m.node) if isinstance(n, ast.Return) and n.value is not None]
        if len(rets) == 1:
            return self.expr_type(rets[0].value, m)
        return None

    # ------------------------------------------------------------ expression types
    def local_types(self, fi: FunctionInfo):
        """Flow-insensitive local variable types of a function (first typed binding wins)."""
        cache = getattr(fi, "_local_types", None)
        if cache is not None:
            return cache
        env = {}
        fi._local_types = env
        a = fi.node.args
        allargs = a.posonlyargs + a.args + a.kwonlyargs
        for i, x in enumerate(allargs):
            if i == 0 and fi.cls is not None and fi.kind in ("method", "property", "setter"):
                env[x.arg] = TRef(fi.cls)
                continue
            if i == 0 and fi.cls is not None and fi.kind == "classmethod":
                env[x.arg] = TRef(fi.cls, None, "type")
                continue
            t = self.from_annotation(x.annotation, fi.module)
            if t:
                env[x.arg] = t
        if fi.parent is not None:
            for k, v in self.local_types(fi.parent).items():
                env.setdefault(k, v)
        for _ in range(2):
            for n in walk_no_nested(fi.node):
                if isinstance(n, ast.Assign) and len(n.targets) == 1:
                    self._bind(n.targets[0], n.value, fi, env)
                elif isinstance(n, ast.AnnAssign) and isinstance(n.target, ast.Name):
                    t = self.from_annotation(n.annotation, fi.module)
                    if t is None and n.value is not None:
                        t = self.expr_type(n.value, fi, env)
                    if t and n.target.id not in env:
                        env[n.target.id] = t
                elif isinstance(n, ast.NamedExpr) and isinstance(n.target, ast.Name):
                    t = self.expr_type(n.value, fi, env)
                    if t and n.target.id not in env:
                        env[n.target.id] = t
                elif isinstance(n, (ast.For, ast.comprehension)):
                    self._bind_iter(n.target, n.iter, fi, env)
                elif isinstance(n, ast.With):
                    for it in n.items:
                        if it.optional_vars is not None and isinstance(it.optional_vars, ast.Name):
                            t = self.expr_type(it.context_expr, fi, env)
                            if t and it.optional_vars.id not in env:
                                env[it.optional_vars.id] = t
        return env

    def _bind(self, target, value, fi, env):
        if isinstance(target, ast.Name):
            if target.id in env:
                return
            t = self.expr_type(value, fi, env)
            if t:
                env[target.id] = t

    def _bind_iter(self, target, it, fi, env):
        # for x in <list/dict.values()>; for k, v in <dict>.items()
        if isinstance(it, ast.Call) and isinstance(it.func, ast.Attribute) and it.func.attr in ("values", "items", "keys"):
            base = self.expr_type(it.func.value, fi, env)
            if base and base.kind == "dict" and base.elem:
                if it.func.attr == "values" and isinstance(target, ast.Name):
                    env.setdefault(target.id, base.elem)
                elif it.func.attr == "items" and isinstance(target, ast.Tuple) and len(target.elts) == 2:
                    if isinstance(target.elts[1], ast.Name):
                        env.setdefault(target.elts[1].id, base.elem)
            return
        base = self.expr_type(it, fi, env)
        if base and base.kind == "list" and base.elem and isinstance(target, ast.Name):
            env.setdefault(target.id, base.elem)

    def expr_type(self, e, fi: FunctionInfo, env=None) -> TRef | None:
        if env is None:
            env = self.local_types(fi)
        if isinstance(e, ast.Name):
            if e.id in env:
                return env[e.id]
            q = self.p.resolve_dotted(fi.module, e.id)
            if q in self.p.classes:
                return TRef(self.p.classes[q], None, "type")
            return None
        if isinstance(e, ast.Attribute):
            base = self.expr_type(e.value, fi, env)
            if base is None:
                q = dotted_name(e)
                if q:
                    r = self.p.resolve_dotted(fi.module, q)
                    if r in self.p.classes:
                        return TRef(self.p.classes[r], None, "type")
                return None
            if base.kind in ("obj",) and base.cls is not None:
                return self.attr_type(base.cls, e.attr)
            if base.kind == "type" and base.cls is not None:
                return None
            return None
        if isinstance(e, ast.Subscript):
            base = self.expr_type(e.value, fi, env)
            if base and base.kind in ("dict", "list"):
                return base.elem
            return None
        if isinstance(e, ast.Call):
            # dict.get / pop on typed dict
            if isinstance(e.func, ast.Attribute) and e.func.attr in ("get", "pop", "setdefault"):
                base = self.expr_type(e.func.value, fi, env)
                if base and base.kind == "dict":
                    return base.elem
            if isinstance(e.func, ast.Name) and e.func.id in ("deepcopy", "copy") and e.args:
                return self.expr_type(e.args[0], fi, env)
            if isinstance(e.func, ast.Name) and e.func.id in ("list", "sorted", "tuple", "set") and e.args:
                t = self.expr_type(e.args[0], fi, env)
                if t and t.kind == "list":
                    return t
                if (
                    isinstance(e.args[0], ast.Call)
                    and isinstance(e.args[0].func, ast.Attribute)
                    and e.args[0].func.attr == "values"
                ):
                    b = self.expr_type(e.args[0].func.value, fi, env)
                    if b and b.kind == "dict":
                        return TRef(None, b.elem, "list")
                return None
            targets = self.callees(e, fi, env)
            for t in targets:
                if isinstance(t, ClassInfo):
                    return TRef(t)
                if isinstance(t, FunctionInfo):
                    if t.kind == "classmethod" and t.node.returns is not None:
                        rt = self.from_annotation(t.node.returns, t.module)
                        if rt:
                            return rt
                    rt = self.from_annotation(t.node.returns, t.module)
                    if rt:
                        return rt
            return None
        if isinstance(e, ast.IfExp):
            return self.expr_type(e.body, fi, env) or self.expr_type(e.orelse, fi, env)
        if isinstance(e, ast.NamedExpr):
            return self.expr_type(e.value, fi, env)
        if isinstance(e, ast.Await):
            return self.expr_type(e.value, fi, env)
        if isinstance(e, (ast.List, ast.Tuple, ast.Set)) and e.elts:
            t = self.expr_type(e.elts[0], fi, env)
            return TRef(None, t, "list") if t else None
        if isinstance(e, ast.ListComp):
            return None
        return None

    # ------------------------------------------------------------ callee resolution
    def callees(self, call: ast.Call, fi: FunctionInfo, env=None, fanout=False):
        """Resolved targets of a call: FunctionInfo (functions, methods), ClassInfo (constructor),
        or a dotted string for external callables.  Empty list = unresolved.

        With ``fanout`` a method call on a receiver of class C also yields overriding definitions
        in subclasses of C (class-hierarchy analysis)."""
        f = call.func
        p = self.p
        if isinstance(f, ast.Name):
            # nested function?
            q = f"{fi.qualname}.<locals>.{f.id}"
            if q in p.functions:
                return [p.functions[q]]
            if fi.parent is not None:
                q = f"{fi.parent.qualname}.<locals>.{f.id}"
                if q in p.functions:
                    return [p.functions[q]]
            r = p.resolve_dotted(fi.module, f.id)
            if r in p.functions:
                return [p.functions[r]]
            if r in p.classes:
                return [p.classes[r]]
            if r != f.id or "." in r:
                return [r]
            if env is None:
                env = self.local_types(fi)
            t = env.get(f.id)
            if t and t.kind == "type" and t.cls:
                return [t.cls]
            return [f"builtins.{f.id}"] if f.id in _BUILTINS else []
        if isinstance(f, ast.Attribute):
            # super().m(...)
            if (
                isinstance(f.value, ast.Call)
                and isinstance(f.value.func, ast.Name)
                and f.value.func.id == "super"
                and fi.cls is not None
            ):
                m = p.lookup_method(fi.cls, f.attr, after=fi.cls)
                return [m] if m else [f"super.{f.attr}"]
            # module.func or Class.method
            dn = dotted_name(f)
            if dn:
                head = dn.split(".")[0]
                local = env if env is not None else self.local_types(fi)
                if head not in local:
                    r = p.resolve_dotted(fi.module, dn)
                    if r in p.functions:
                        return [p.functions[r]]
                    if r in p.classes:
                        return [p.classes[r]]
                    # Class.method via class object
                    cq, _, meth = r.rpartition(".")
                    if cq in p.classes:
                        m = p.lookup_method(p.classes[cq], meth)
                        if m:
                            return [m]
                    if r != dn and not r.startswith(p.PKG):
                        return [r]
                    if head in fi.module.imports and not fi.module.imports[head].startswith(p.PKG):
                        return [r]
            base = self.expr_type(f.value, fi, env)
            if base is not None and base.cls is not None and base.kind in ("obj", "type"):
                m = p.lookup_method(base.cls, f.attr)
                out = []
                if m:
                    out.append(m)
                if fanout:
                    for sub in p.subclasses(base.cls):
                        sm = sub.methods.get(f.attr)
                        if sm and sm not in out:
                            out.append(sm)
                if out:
                    return out
                # callable attribute holding a class / function?
                at = self.attr_type(base.cls, f.attr)
                if at and at.kind == "type" and at.cls:
                    return [at.cls]
                return []
            if base is not None and base.kind in ("dict", "list"):
                return [f"builtins.{base.kind}.{f.attr}"]
            return []
        return []

    def resolve_stats(self):
        """Measure the resolution rate over every call expression of the package."""
        total = resolved = external = 0
        for fi in self.p.all_functions(include_nested=True):
            for n in walk_no_nested(fi.node):
                if isinstance(n, ast.Call):
                    total += 1
                    t = self.callees(n, fi)
                    if t:
                        resolved += 1
                        if all(isinstance(x, str) for x in t):
                            external += 1
        return {"call_sites": total, "resolved": resolved, "resolved_external": external, "unresolved": total - resolved}


_BUILTINS = {
    "len", "range", "int", "float", "str", "list", "dict", "set", "tuple", "isinstance", "abs",
    "round", "sum", "min", "max", "zip", "enumerate", "sorted", "print", "hash", "getattr",
    "setattr", "hasattr", "super", "type", "bool", "any", "all", "iter", "next", "repr", "open",
    "divmod", "map", "filter", "reversed", "id", "callable", "vars", "ValueError", "TypeError",
    "RuntimeError", "KeyError", "NotImplementedError", "AttributeError", "Exception", "frozenset",
    "IndexError", "StopIteration", "OSError", "FileNotFoundError", "ImportError",
}


def _is_attr(node, selfname, attr):
    return (
        isinstance(node, ast.Attribute)
        and node.attr == attr
        and isinstance(node.value, ast.Name)
        and node.value.id == selfname
    )


def call_graph(project: Project, tenv: TypeEnv, fanout=True):
    """caller qualname -> set of callee qualnames (repo-internal functions; constructors map to
    ``__init__``; property reads are *not* included)."""
    g = {}
    for fi in project.all_functions(include_nested=True):
        outs = set()
        for n in walk_no_nested(fi.node):
            if isinstance(n, ast.Call):
                for t in tenv.callees(n, fi, fanout=fanout):
                    if isinstance(t, FunctionInfo):
                        outs.add(t.qualname)
                    elif isinstance(t, ClassInfo):
                        init = project.lookup_method(t, "__init__")
                        if init:
                            outs.add(init.qualname)
        g[fi.qualname] = outs
    return g


def call_sites_of(project: Project, tenv: TypeEnv, targets, fanout=True):
    """All (caller FunctionInfo, call node) whose resolved callee is in ``targets`` (qualnames)."""
    targets = set(targets)
    short = {t.rsplit(".", 1)[-1] for t in targets}
    out = []
    for fi in project.all_functions(include_nested=True):
        for n in walk_no_nested(fi.node):
            if isinstance(n, ast.Call):
                nm = n.func.attr if isinstance(n.func, ast.Attribute) else getattr(n.func, "id", None)
                if nm not in short:
                    continue
                for t in tenv.callees(n, fi, fanout=fanout):
                    if isinstance(t, FunctionInfo) and t.qualname in targets:
                        out.append((fi, n))
                        break
    return out


def name_call_sites(project: Project, method_name: str):
    """Every call ``<anything>.method_name(...)`` or ``method_name(...)`` in the package, resolved or
    not: a conservative over-approximation used by who-may-call rules."""
    out = []
    for fi in project.all_functions(include_nested=True):
        for n in walk_no_nested(fi.node):
            if isinstance(n, ast.Call):
                nm = n.func.attr if isinstance(n.func, ast.Attribute) else getattr(n.func, "id", None)
                if nm == method_name:
                    out.append((fi, n))
    return out
