"""Freshness provenance: is the object an expression evaluates to created by this very call?

Stateful objects (a detector with its history, a database engine with its connection) belong to whoever
asked for them.  A factory that hands back an object it kept from an earlier call - out of a module-level or
class-level container, a memoising decorator, a default argument - makes two owners share one state.

``Fresh(project).classify(fi, expr)`` returns ``(verdict, why, node)`` with verdict one of

* ``fresh``   - on every path the value is the result of a call evaluated in this invocation (a constructor, a
                third-party factory, a repo callee all of whose returns are fresh) or ``None``;
* ``shared``  - on some path the value is read from a place that outlives the call: a module-level name, a
                class-level attribute (also through ``self`` / ``cls`` / ``type(self)`` / the class name, with or
                without name mangling), a container rooted there (subscript, ``.get``, ``.setdefault``,
                ``.pop``), a callee under ``functools.cache`` / ``lru_cache`` / ``cached_property``, a mutable
                default argument;
* ``param``   - the caller's own object (a parameter);
* ``unknown`` - none of the above can be shown.

Syntax only: nothing is imported or run.
"""

from __future__ import annotations

import ast

from rsa.model import call_name, unparse, walk_no_nested

_CACHE_DECORATORS = {"cache", "lru_cache", "cached_property", "memoize", "cachedmethod", "cached"}
_READS = {"get", "setdefault", "pop", "popitem", "__getitem__", "copy"}


def _root(e):
    while isinstance(e, (ast.Attribute, ast.Subscript)):
        e = e.value
    return e


class Fresh:
    def __init__(self, p, max_depth=5):
        self.p = p
        self.max_depth = max_depth

    # ---------------------------------------------------------------- persistent places
    def module_level_names(self, mod):
        out = set()
        for st in mod.tree.body:
            if isinstance(st, ast.Assign):
                for t in st.targets:
                    for n in ast.walk(t):
                        if isinstance(n, ast.Name):
                            out.add(n.id)
            elif isinstance(st, ast.AnnAssign) and isinstance(st.target, ast.Name) and st.value is not None:
                out.add(st.target.id)
        return out

    def class_level_names(self, ci):
        """name -> owning class, for every attribute bound in a class body of the hierarchy (mangled spelling too)"""
        out = {}
        for c in self.p.mro(ci):
            for st in c.node.body:
                tg = []
                if isinstance(st, ast.Assign):
                    tg = [t for t in st.targets if isinstance(t, ast.Name)]
                elif isinstance(st, ast.AnnAssign) and isinstance(st.target, ast.Name) and st.value is not None:
                    tg = [st.target]
                for t in tg:
                    out.setdefault(t.id, c)
                    if t.id.startswith("__") and not t.id.endswith("__"):
                        out.setdefault(f"_{c.name.lstrip('_')}{t.id}", c)
        return out

    def _class_rooted(self, fi, e):
        """is `e` (an Attribute) a read of a class-level attribute of fi's hierarchy?"""
        if fi.cls is None or not isinstance(e, ast.Attribute):
            return None
        names = self.class_level_names(fi.cls)
        if e.attr not in names:
            return None
        v = e.value
        recv_ok = (
            (isinstance(v, ast.Name) and (v.id in ("self", "cls") or v.id in {c.name for c in self.p.mro(fi.cls)}))
            or (isinstance(v, ast.Call) and call_name(v) == "type")
            or (isinstance(v, ast.Attribute) and v.attr == "__class__")
        )
        if not recv_ok:
            return None
        # an instance attribute of the same name assigned in a method shadows the class-level one
        if isinstance(v, ast.Name) and v.id == "self":
            for c in self.p.mro(fi.cls):
                for m in c.methods.values():
                    for n in ast.walk(m.node):
                        if isinstance(n, (ast.Assign, ast.AnnAssign, ast.AugAssign)):
                            for t in n.targets if isinstance(n, ast.Assign) else [n.target]:
                                if isinstance(t, ast.Attribute) and t.attr == e.attr and isinstance(t.value, ast.Name) and t.value.id == "self":
                                    return None
        return names[e.attr]

    # ---------------------------------------------------------------- callees
    def _decorated_cache(self, fi):
        for d in fi.node.decorator_list:
            x = d.func if isinstance(d, ast.Call) else d
            nm = x.attr if isinstance(x, ast.Attribute) else getattr(x, "id", None)
            if nm in _CACHE_DECORATORS:
                return nm
        return None

    def _registry_classes(self, fi, recv):
        """classes a local names when it is bound to `REGISTRY[key]` / `REGISTRY.get(key)` of a module-level dict literal"""
        if not isinstance(recv, ast.Name):
            return None
        defs = [n for n in walk_no_nested(fi.node) if isinstance(n, ast.Assign) and len(n.targets) == 1 and isinstance(n.targets[0], ast.Name) and n.targets[0].id == recv.id]
        if len(defs) != 1:
            return None
        v = defs[0].value
        reg = None
        if isinstance(v, ast.Subscript) and isinstance(v.value, ast.Name):
            reg = v.value.id
        elif isinstance(v, ast.Call) and isinstance(v.func, ast.Attribute) and v.func.attr == "get" and isinstance(v.func.value, ast.Name):
            reg = v.func.value.id
        if reg is None:
            return None
        for st in fi.module.tree.body:
            tgt, val = None, None
            if isinstance(st, ast.Assign) and len(st.targets) == 1:
                tgt, val = st.targets[0], st.value
            elif isinstance(st, ast.AnnAssign):
                tgt, val = st.target, st.value
            if isinstance(tgt, ast.Name) and tgt.id == reg and isinstance(val, ast.Dict):
                out = []
                for x in val.values:
                    if not isinstance(x, ast.Name):
                        return None
                    try:
                        out.append(self.p.cls(x.id))
                    except Exception:
                        return None
                return out
        return None

    def callees(self, fi, call):
        """repo functions a call may reach, or None when it is not a repo call we can resolve"""
        f = call.func
        if isinstance(f, ast.Name):
            m = fi.module.functions.get(f.id) if hasattr(fi.module, "functions") else None
            if m is not None:
                return [m]
            try:
                g = self.p.func(f.id)
                return [g] if g.cls is None else None
            except Exception:
                return None
        if isinstance(f, ast.Attribute):
            v = f.value
            if fi.cls is not None and isinstance(v, ast.Name) and v.id in ("self", "cls"):
                out = []
                for c in [fi.cls] + self.p.subclasses(fi.cls):
                    m = self.p.lookup_method(c, f.attr)
                    if m is not None and m not in out:
                        out.append(m)
                return out or None
            if fi.cls is not None and isinstance(v, ast.Call) and call_name(v) == "super":
                m = self.p.lookup_method(fi.cls, f.attr, after=fi.cls)
                return [m] if m is not None else None
            regs = self._registry_classes(fi, v)
            if regs:
                out = []
                for c in regs:
                    m = self.p.lookup_method(c, f.attr)
                    if m is None:
                        return None
                    if m not in out:
                        out.append(m)
                return out
        return None

    # ---------------------------------------------------------------- classification
    def classify(self, fi, e, depth=0, seen=None):
        seen = seen or set()
        if e is None or (isinstance(e, ast.Constant) and e.value is None):
            return ("fresh", "None", e)
        if isinstance(e, ast.IfExp):
            return self._join([self.classify(fi, e.body, depth, seen), self.classify(fi, e.orelse, depth, seen)])
        if isinstance(e, ast.BoolOp):
            return self._join([self.classify(fi, v, depth, seen) for v in e.values])
        if isinstance(e, ast.NamedExpr):
            return self.classify(fi, e.value, depth, seen)
        if isinstance(e, ast.Call):
            f = e.func
            if isinstance(f, ast.Attribute) and f.attr in _READS:
                r = self.classify(fi, f.value, depth, seen)
                if r[0] == "shared":
                    return ("shared", f"`{unparse(e)[:70]}` reads {r[1]}", e)
            cs = self.callees(fi, e)
            if cs is None:
                return ("fresh", f"result of the call `{unparse(e)[:60]}` made in this invocation", e)
            if depth >= self.max_depth:
                return ("unknown", f"call depth exceeded at `{unparse(e)[:60]}`", e)
            parts = []
            for c in cs:
                dec = self._decorated_cache(c)
                if dec:
                    parts.append(("shared", f"{c.qualname} is memoised by @{dec}: equal arguments get the object of the first call", e))
                    continue
                if c.qualname in seen:
                    continue
                rets = [n for n in walk_no_nested(c.node) if isinstance(n, ast.Return)]
                if not rets:
                    parts.append(("fresh", "None", e))
                for rt in rets:
                    parts.append(self.classify(c, rt.value, depth + 1, seen | {c.qualname}))
            return self._join(parts) if parts else ("unknown", f"recursive call `{unparse(e)[:60]}`", e)
        if isinstance(e, ast.Name):
            a = fi.node.args
            params = {x.arg: x for x in a.posonlyargs + a.args + a.kwonlyargs}
            defs = []
            for n in walk_no_nested(fi.node):
                if isinstance(n, ast.Assign):
                    for t in n.targets:
                        if isinstance(t, ast.Name) and t.id == e.id:
                            defs.append(n.value)
                        elif isinstance(t, (ast.Tuple, ast.List)) and any(isinstance(x, ast.Name) and x.id == e.id for x in ast.walk(t)):
                            defs.append(None)
                elif isinstance(n, ast.AnnAssign) and isinstance(n.target, ast.Name) and n.target.id == e.id and n.value is not None:
                    defs.append(n.value)
                elif isinstance(n, ast.NamedExpr) and n.target.id == e.id:
                    defs.append(n.value)
                elif isinstance(n, (ast.For, ast.comprehension)) and any(isinstance(x, ast.Name) and x.id == e.id for x in ast.walk(n.target)):
                    r = self.classify(fi, n.iter, depth, seen)
                    defs.append(("elem", r))
                elif isinstance(n, ast.withitem) and n.optional_vars is not None and any(isinstance(x, ast.Name) and x.id == e.id for x in ast.walk(n.optional_vars)):
                    defs.append(None)
            if e.id in params and not defs:
                return ("param", f"the caller's `{e.id}`", e)
            if defs:
                if (fi.qualname, e.id) in seen:
                    return ("fresh", "-", e)
                parts = []
                for d in defs:
                    if d is None:
                        parts.append(("unknown", f"`{e.id}` is bound by unpacking / a context manager", e))
                    elif isinstance(d, tuple):
                        parts.append(d[1] if d[1][0] in ("shared", "unknown") else ("unknown", f"`{e.id}` is an element of `{d[1][1]}`", e))
                    else:
                        parts.append(self.classify(fi, d, depth, seen | {(fi.qualname, e.id)}))
                if e.id in params:
                    parts.append(("param", f"the caller's `{e.id}`", e))
                return self._join(parts)
            if e.id in self.module_level_names(fi.module):
                return ("shared", f"the module-level `{e.id}` of {fi.module.name}, which outlives the call", e)
            return ("unknown", f"`{e.id}` is not bound in {fi.qualname}", e)
        if isinstance(e, (ast.Attribute, ast.Subscript)):
            x = e
            while isinstance(x, (ast.Attribute, ast.Subscript)):
                owner = self._class_rooted(fi, x) if isinstance(x, ast.Attribute) else None
                if owner is not None:
                    return ("shared", f"the class-level attribute `{x.attr}` of {owner.name}, one object for every instance and every call", e)
                x = x.value
            r = self.classify(fi, x, depth, seen) if isinstance(x, (ast.Name, ast.Call)) else ("unknown", unparse(x)[:40], x)
            if r[0] == "shared":
                return ("shared", f"`{unparse(e)[:60]}` is rooted in {r[1]}", e)
            if isinstance(x, ast.Name) and x.id == "self":
                return ("unknown", f"`{unparse(e)[:60]}` is instance state", e)
            return ("unknown", f"`{unparse(e)[:60]}` (part of {r[1]})", e)
        return ("unknown", f"`{unparse(e)[:60]}`", e)

    @staticmethod
    def _join(parts):
        for want in ("shared", "unknown", "param"):
            for x in parts:
                if x[0] == want:
                    return x
        return parts[0] if parts else ("unknown", "-", None)
