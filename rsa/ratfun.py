"""Rational-function normal form of pure arithmetic expressions over opaque atoms.

An expression built from + - * / ** (integer exponents), numeric literals and *atoms* (names, attributes, subscripts
and calls whose arguments are themselves normalised) is represented as a pair of multivariate polynomials
(numerator, denominator) with exact rational coefficients; two expressions denote the same real function of their
atoms - whatever the atoms mean - exactly when ``n1 * d2 == n2 * d1`` as polynomials (cross multiplication in the
field of fractions of an integral domain).  `sqrt(x) ** 2` and `norm(v) ** 2` are NOT rewritten: atoms are
uninterpreted, so equality here is sufficient for equality of values and is insensitive to how a quotient is
associated, distributed or factored.  Nothing is evaluated and no path is followed: this is a normal form of one
expression, like constant folding.

Also: `derivative(poly, rules)` - formal time derivative of a polynomial by the product rule with a table
atom -> derivative polynomial (used to check that velocity rows are the derivative of position rows).
"""

from __future__ import annotations

import ast
from fractions import Fraction

from rsa.terms import NotEvaluable, const_value

ONE = {(): Fraction(1)}

# argument lists of opaque calls are hash-consed: a nested call carries a small number instead of the (arbitrarily deep)
# normal form of its arguments, so comparing and sorting monomials stays cheap.  Equal argument normal forms get equal
# numbers within one process, which is all that equality of normal forms needs.
_INTERN: dict = {}


def _intern(x):
    return _INTERN.setdefault(x, len(_INTERN))


_EVEN_CALLS = {"norm", "abs", "fabs", "absolute", "cos", "cosh"}
_ODD_CALLS = {"sin", "tan", "arcsin", "arctan", "sinh", "tanh", "arcsinh", "arctanh", "sign", "cbrt"}


def p_add(a, b, sign=1):
    out = dict(a)
    for m, v in b.items():
        out[m] = out.get(m, 0) + sign * v
    return {m: v for m, v in out.items() if v != 0}


def p_mul(a, b, max_terms=20000):
    out = {}
    for m1, c1 in a.items():
        for m2, c2 in b.items():
            m = tuple(sorted(m1 + m2))
            out[m] = out.get(m, 0) + c1 * c2
    if len(out) > max_terms:
        raise NotEvaluable("polynomial too large")
    return {m: c for m, c in out.items() if c != 0}


def p_scale(a, c):
    return {m: v * c for m, v in a.items() if v * c != 0}


def p_key(poly):
    return tuple(sorted((m, (c.numerator, c.denominator)) for m, c in poly.items()))


def rat_key(r):
    """Structural key of a rational function, normalised so that the denominator's first monomial (in sorted order)
    has coefficient 1 - `x / 2` and `x * 0.5` get the same key (used for the arguments of opaque calls)."""
    num, den = r
    if den:
        lead = den[sorted(den)[0]]
        if lead != 1:
            num, den = p_scale(num, 1 / lead), p_scale(den, 1 / lead)
    return (p_key(num), p_key(den))


# calls whose value is fully determined by their (normalised) arguments: kept as atoms keyed by those arguments
_ALIASES = {"vdot": "dot", "np_sqrt": "sqrt", "linalg.norm": "norm"}


def ratfun(e, table=None, subst=None):
    """(num, den) polynomials of expression ``e``.  ``table`` maps constant names to Fractions; ``subst`` maps the
    unparsed text of an atom (e.g. ``state[0]``) to a replacement expression AST (normalised in turn)."""
    table = table or {}
    subst = subst or {}

    def atom_key(n):
        if isinstance(n, ast.Call):
            nm = ast.unparse(n.func)
            nm = nm.split(".")[-1] if nm.split(".")[0] in ("np", "numpy", "math") else nm
            nm = _ALIASES.get(nm, nm)
            return ("call", nm, _intern((tuple(rat_key(go(a)) for a in n.args), tuple((k.arg, rat_key(go(k.value))) for k in n.keywords))))
        if isinstance(n, ast.Subscript) and isinstance(n.slice, ast.Slice):
            return ("slice", _intern((rat_key(go(n.value)) if not isinstance(n.value, (ast.Name, ast.Attribute)) else ast.unparse(n.value), ast.unparse(n.slice))))
        if isinstance(n, ast.BinOp) and isinstance(n.op, ast.Pow):
            return ("pow", _intern((rat_key(go(n.left)), rat_key(go(n.right)))))
        if isinstance(n, (ast.List, ast.Tuple)) and not any(isinstance(x, ast.Starred) for x in n.elts):
            # a literal vector / row: element-wise normal forms (so `[1 - p**2, 2*p*q]` may be respelled inside)
            return ("seq", _intern(tuple(rat_key(go(x)) for x in n.elts)))
        return ("atom", ast.unparse(n))

    def go(n):
        txt = None
        if isinstance(n, (ast.Name, ast.Attribute, ast.Subscript)):
            txt = ast.unparse(n)
            if txt in subst:
                rep = subst[txt]
                return go(rep) if isinstance(rep, ast.AST) else rep
        c = const_value(n, table)
        if c is not None:
            return ({(): c} if c != 0 else {}, ONE)
        if isinstance(n, ast.UnaryOp) and isinstance(n.op, (ast.USub, ast.UAdd)):
            a, b = go(n.operand)
            return (p_scale(a, -1), b) if isinstance(n.op, ast.USub) else (a, b)
        if isinstance(n, ast.BinOp):
            if isinstance(n.op, (ast.Add, ast.Sub)):
                (a, b), (c2, d) = go(n.left), go(n.right)
                s = 1 if isinstance(n.op, ast.Add) else -1
                if p_key(b) == p_key(d):
                    return (p_add(a, c2, s), b)
                return (p_add(p_mul(a, d), p_mul(c2, b), s), p_mul(b, d))
            if isinstance(n.op, ast.Mult):
                (a, b), (c2, d) = go(n.left), go(n.right)
                return (p_mul(a, c2), p_mul(b, d))
            if isinstance(n.op, ast.Div):
                (a, b), (c2, d) = go(n.left), go(n.right)
                if not c2:
                    raise NotEvaluable("division by a literal zero")
                return (p_mul(a, d), p_mul(b, c2))
            if isinstance(n.op, ast.Pow):
                k = const_value(n.right, table)
                if k is not None and k.denominator == 1 and -8 <= k <= 8:
                    a, b = go(n.left)
                    if k < 0:
                        a, b, k = b, a, -k
                    na, nb = ONE, ONE
                    for _ in range(int(k)):
                        na, nb = p_mul(na, a), p_mul(nb, b)
                    return (na, nb)
        if isinstance(n, ast.Call) and not n.keywords and len(n.args) == 1:
            nm = ast.unparse(n.func).split(".")[-1]
            if nm in ("float", "asarray", "array") and not isinstance(n.args[0], (ast.List, ast.Tuple)):
                return go(n.args[0])
            nm = _ALIASES.get(nm, nm)
            if nm in _EVEN_CALLS or nm in _ODD_CALLS:
                # f(-x) = f(x) resp. -f(x): the argument is taken with the sign that gives the smaller normal form
                arg = go(n.args[0])
                neg = (p_scale(arg[0], -1), arg[1])
                k1, k2 = rat_key(arg), rat_key(neg)
                # orientation: the first monomial of the numerator (in sorted order) gets a positive coefficient
                lead = arg[0][sorted(arg[0])[0]] if arg[0] else 1
                dl = arg[1][sorted(arg[1])[0]] if arg[1] else 1
                flip = (lead < 0) != (dl < 0)
                atom = ("call", nm, _intern(((k2 if flip else k1,), ())))
                coeff = Fraction(-1) if (flip and nm in _ODD_CALLS) else Fraction(1)
                return ({(atom,): coeff}, ONE)
        return ({(atom_key(n),): Fraction(1)}, ONE)

    return go(e)


def rat_equal(r1, r2):
    return p_key(p_mul(r1[0], r2[1])) == p_key(p_mul(r2[0], r1[1]))


def rat_is_zero(r):
    return not r[0]


def rat_div(r1, r2):
    return (p_mul(r1[0], r2[1]), p_mul(r1[1], r2[0]))


def rat_neg(r):
    return (p_scale(r[0], -1), r[1])


def parse(src):
    return ast.parse(src, mode="eval").body


def same_value(e1, e2, table=None, subst1=None, subst2=None):
    return rat_equal(ratfun(e1, table, subst1), ratfun(e2, table, subst2))


def _content(poly):
    """(monomial content, primitive part): the largest monomial dividing every term."""
    from collections import Counter

    if not poly:
        return (), {}
    common = None
    for m in poly:
        c = Counter(m)
        common = c if common is None else (common & c)
    cm = tuple(sorted(common.elements()))
    out = {}
    for m, v in poly.items():
        c = Counter(m) - common
        out[tuple(sorted(c.elements()))] = v
    return cm, out


def scale_between(r1, r2):
    """If r1 == s * r2 for a *monomial* quotient s (constant times atoms over atoms), return (constant, numerator
    atoms, denominator atoms) with common atoms cancelled; None when the two are not related by such a scale."""
    from collections import Counter

    left, right = p_mul(r1[0], r2[1]), p_mul(r1[1], r2[0])  # r1 / r2 = left / right
    if not left or not right:
        return None
    ml, pl = _content(left)
    mr, pr = _content(right)
    if set(pl) != set(pr):
        return None
    ratio = None
    for m in pl:
        q = pl[m] / pr[m]
        if ratio is None:
            ratio = q
        elif q != ratio:
            return None
    cl, cr = Counter(ml), Counter(mr)
    return ratio, tuple(sorted((cl - cr).elements())), tuple(sorted((cr - cl).elements()))


def positive_scale(r1, r2, positive_calls=("sqrt", "norm", "abs", "fabs", "cosh", "exp")):
    """True when r1 == s * r2 with s manifestly positive (positive constant times a quotient of values of
    non-negative functions: sqrt, norm ...), False when s is manifestly negative, None when r1 is not a monomial
    multiple of r2 or the sign of the scale is unknown."""
    sc = scale_between(r1, r2)
    if sc is None:
        return None
    c, num, den = sc
    if not all(a[0] == "call" and a[1] in positive_calls for a in num + den):
        return None
    return c > 0


def p_derivative(poly, rules):
    """Formal derivative of a polynomial by the product rule; ``rules`` maps an atom key to the polynomial of its
    derivative; atoms without a rule are constants."""
    out = {}
    for m, c in poly.items():
        for i, a in enumerate(m):
            if a not in rules:
                continue
            rest = tuple(m[:i] + m[i + 1 :])
            out = p_add(out, p_mul({rest: c}, rules[a]))
    return out


def eval_steps(steps, table=None, env=None):
    """Evaluate the bindings of one path (`terms.path_steps`) in the rational-function domain: one normal form per
    local, each computed once (a later binding refers to the stored value, not to re-normalised text).  Returns
    (env: name -> ratfun, conds: [(test expr, polarity, env snapshot)])."""
    env = dict(env or {})
    conds = []
    for st in steps:
        if st[0] == "bind":
            env[st[1]] = ratfun(st[2], table, env)
        else:
            conds.append((st[1], st[2], dict(env)))
    return env, conds
