"""Memo / cache soundness: values that persist between calls.

Two analyses, both purely syntactic over the function's own body (plus the class hierarchy for (B)):

(A) `param_memos(p, fi)` - a function stores, in a location that outlives the call (a class attribute, a module
    global, an attribute of `self`), a value that depends on its parameters, and reads that location again.  Every
    such read must be selected by the *whole* value of each parameter the stored value depends on: a keyed store
    whose read key equals its write key and is injective in those parameters, or a guard that compares each
    parameter itself (`==` / `is`) with what was stored.  A comparison through a lossy projection of the parameter
    (`.seconds`, `.date()`, `int()`, `round()`, `//`, `%`, `isclose`) or no comparison at all hands back a value
    computed for *another* argument.

(B) `lazy_cache(ci_prop)` / `cache_coherence(p, ci, prop)` - a property of the form
    `if self.F is None: self.F = E; return self.F` caches a function of the self-fields E reads; every method of the
    class hierarchy that assigns one of those fields outside `__init__` must also reset `self.F` (directly or through
    a setter / method that does).

Nothing is executed; dependence is the transitive closure of "is read by the right-hand side of" over the
function's local assignments (flow-insensitive, hence an over-approximation of the parameters a value depends on).
"""

from __future__ import annotations

import ast

from rsa.model import call_name, unparse, walk_no_nested
from rsa.terms import canon

LOSSY_CALLS = {"int", "round", "floor", "ceil", "trunc", "around", "rint", "date", "time", "replace", "isclose", "allclose", "fpe_equals", "len", "abs", "hash", "type", "id"}
INJECTIVE_CALLS = {"str", "repr", "float", "tuple", "isoformat", "tobytes", "tolist", "JulianDate", "ScenarioTime"}


def _params(fi):
    ps = list(fi.params)
    a = fi.node.args
    names = [x.arg for x in a.posonlyargs + a.args + a.kwonlyargs]
    first = names[0] if names else None
    selfname = first if (fi.cls is not None and first in ("self", "cls")) else None
    return [x for x in names if x != selfname], selfname


def _local_flow(fi):
    """name -> set of names read by any assignment to it (flow-insensitive)."""
    flow = {}
    for n in walk_no_nested(fi.node):
        tgts, val = [], None
        if isinstance(n, ast.Assign):
            tgts, val = n.targets, n.value
        elif isinstance(n, (ast.AnnAssign, ast.AugAssign)) and n.value is not None:
            tgts, val = [n.target], n.value
        elif isinstance(n, ast.NamedExpr):
            tgts, val = [n.target], n.value
        elif isinstance(n, (ast.For, ast.comprehension)):
            tgts, val = [n.target], n.iter
        for t in tgts:
            for x in ast.walk(t):
                if isinstance(x, ast.Name) and isinstance(x.ctx, ast.Store) and val is not None:
                    flow.setdefault(x.id, set()).update(y.id for y in ast.walk(val) if isinstance(y, ast.Name))
    return flow


def param_deps(fi, expr, flow=None):
    """Parameters (other than self / cls) that `expr` may depend on."""
    flow = _local_flow(fi) if flow is None else flow
    params, _s = _params(fi)
    seen, work = set(), [y.id for y in ast.walk(expr) if isinstance(y, ast.Name)]
    while work:
        x = work.pop()
        if x in seen:
            continue
        seen.add(x)
        work.extend(flow.get(x, ()))
    return [q for q in params if q in seen]


def _location(fi, node, p, selfname):
    """Persistent location written / read by an attribute or name node: ('self'|'class'|'global', text) or None."""
    if isinstance(node, ast.Subscript):
        return _location(fi, node.value, p, selfname)
    if isinstance(node, ast.Attribute) and isinstance(node.value, ast.Name):
        base = node.value.id
        if selfname is not None and base == selfname:
            return ("self" if selfname == "self" else "class", node.attr)
        r = p.resolve_dotted(fi.module, base)
        if r in p.classes:
            return ("class", f"{p.classes[r].name}.{node.attr}")
    if isinstance(node, ast.Name):
        glob = {g for n in walk_no_nested(fi.node) if isinstance(n, ast.Global) for g in n.names}
        if node.id in glob:
            return ("global", node.id)
        mod_level = getattr(fi.module, "_mod_level_names", None)
        if mod_level is None:
            mod_level = set()
            for st in fi.module.tree.body:
                tg = st.targets if isinstance(st, ast.Assign) else ([st.target] if isinstance(st, ast.AnnAssign) else [])
                for t in tg:
                    if isinstance(t, ast.Name):
                        mod_level.add(t.id)
            fi.module._mod_level_names = mod_level
        local_stores = {x.id for n in walk_no_nested(fi.node) for x in ast.walk(n) if isinstance(x, ast.Name) and isinstance(x.ctx, ast.Store)}
        if node.id in mod_level and node.id not in local_stores and node.id not in fi.params:
            return ("global", node.id)
    return None


class Memo:
    def __init__(self, fi, loc, write, key, value, deps):
        self.fi, self.loc, self.write, self.key, self.value, self.deps = fi, loc, write, key, value, deps
        self.reads = []  # (node, key or None)

    def __repr__(self):
        return f"<Memo {self.loc} in {self.fi.qualname} deps={self.deps}>"


def param_memos(p, fi):
    """Memos of parameter-dependent values in `fi` (analysis A)."""
    params, selfname = _params(fi)
    if not params:
        return []
    flow = _local_flow(fi)
    memos = {}
    for n in walk_no_nested(fi.node):
        tgts, val = [], None
        if isinstance(n, ast.Assign):
            tgts, val = n.targets, n.value
        elif isinstance(n, ast.AnnAssign) and n.value is not None:
            tgts, val = [n.target], n.value
        for tg in tgts:
            elts = tg.elts if isinstance(tg, ast.Tuple) else [tg]
            for e in elts:
                loc = _location(fi, e, p, selfname)
                if loc is None or isinstance(e, ast.Name) and loc[0] != "global":
                    continue
                if isinstance(e, ast.Name) and not any(isinstance(g, ast.Global) and e.id in g.names for g in walk_no_nested(fi.node)):
                    continue  # assignment to a bare name without `global` is a local
                key = e.slice if isinstance(e, ast.Subscript) else None
                deps = param_deps(fi, val, flow)
                if key is not None:
                    deps = sorted(set(deps) | set(param_deps(fi, key, flow)))
                if deps:
                    memos.setdefault(loc, []).append(Memo(fi, loc, n, key, val, deps))
        # L.setdefault(k, v) / L.update({k: v}) / L.__setitem__ are rare in this code base: setdefault only
        if isinstance(n, ast.Expr) and isinstance(n.value, ast.Call) and isinstance(n.value.func, ast.Attribute) and n.value.func.attr == "setdefault" and len(n.value.args) == 2:
            loc = _location(fi, n.value.func.value, p, selfname)
            if loc is not None:
                deps = sorted(set(param_deps(fi, n.value.args[1], flow)) | set(param_deps(fi, n.value.args[0], flow)))
                if deps:
                    memos.setdefault(loc, []).append(Memo(fi, loc, n, n.value.args[0], n.value.args[1], deps))
    out = []
    for loc, ms in memos.items():
        writes = {id(m.write) for m in ms}
        reads = []
        for n in walk_no_nested(fi.node):
            if isinstance(n, (ast.Attribute, ast.Name)) and isinstance(n.ctx, ast.Load) and _location(fi, n, p, selfname) == loc:
                reads.append(n)
        for m in ms:
            m.reads = reads
            m.n_writes = len(writes)
            out.append(m)
    return out


def _mentions(e, q):
    return any(isinstance(x, ast.Name) and x.id == q for x in ast.walk(e))


def injective_in(e, q):
    """True: e determines q (q itself, a tuple / string / float of it ...); False: e is a lossy projection of q; None: unknown."""
    if isinstance(e, ast.Name):
        return True if e.id == q else None
    if isinstance(e, (ast.Tuple, ast.List)):
        rs = [injective_in(x, q) for x in e.elts if _mentions(x, q)]
        if any(r is True for r in rs):
            return True
        return False if rs and all(r is False for r in rs) else None
    if isinstance(e, ast.Call):
        nm = call_name(e)
        recv = e.func.value if isinstance(e.func, ast.Attribute) else None
        if nm in INJECTIVE_CALLS:
            inner = recv if (recv is not None and _mentions(recv, q)) else (e.args[0] if e.args else None)
            return injective_in(inner, q) if inner is not None else None
        if nm in LOSSY_CALLS:
            return False
        if nm and nm[:1].isupper() and recv is None:
            # record / named-tuple constructor: determined by (and determines) its direct arguments
            rs = [injective_in(x, q) for x in list(e.args) + [k.value for k in e.keywords] if _mentions(x, q)]
            if any(r is True for r in rs):
                return True
            return False if rs and all(r is False for r in rs) else None
        return None
    if isinstance(e, ast.Attribute):
        return False if _mentions(e.value, q) else None  # a field of q (or of an expression of q) forgets the rest
    if isinstance(e, ast.BinOp):
        if isinstance(e.op, (ast.FloorDiv, ast.Mod)):
            return False
        return None
    if isinstance(e, ast.Subscript):
        return False if _mentions(e.value, q) else None
    return None


def guard_atoms(cfg, node_id):
    out = []
    for nid, lab in cfg.control_conditions(node_id):
        n = cfg.nodes[nid]
        if n.kind == "cond" and n.ast is not None:
            out.append((n.ast, lab))
    return out


def _loc_text_matches(fi, p, node, loc, selfname):
    return isinstance(node, (ast.Attribute, ast.Name)) and _location(fi, node, p, selfname) == loc


def judge_memo(p, fi, m):
    """Verdict of one memo (analysis A), path-wise: for every path of `fi` whose returned expression - after
    substituting the path's local assignments - still reads the memo location, each parameter the stored value
    depends on must be pinned by an `==` / `is` atom on that path that compares the parameter itself (or an injective
    wrapper of it) with something read from the location.  Returns list of (kind, message)."""
    from rsa.terms import NotEvaluable, path_states

    _params_, selfname = _params(fi)
    outside = [r for r in m.reads if not _is_write_side(m, r)]
    if not outside:
        return [("ok", f"{m.loc[1]} is stored by {fi.name} and not read back there")]
    try:
        rets = [(st["ret"], st["conds"]) for st in path_states(fi, max_paths=256) if st["ret"] is not None]
    except NotEvaluable as e:
        return [("undecided", f"{fi.name} keeps a parameter-dependent value in {m.loc[1]} but is not loop-free ({e}); memo not decided")]

    def reads_loc(e):
        return any(_loc_text_matches(fi, p, x, m.loc, selfname) for x in ast.walk(e))

    def reads_persistent(e):
        # the argument a result was computed for may be kept in a sibling location (`self._key` next to `self._val`)
        return any(isinstance(x, (ast.Attribute, ast.Name)) and _location(fi, x, p, selfname) is not None for x in ast.walk(e))

    res = []
    n_hit = 0
    for e, conds in rets:
        if not reads_loc(e):
            continue
        n_hit += 1
        for q in m.deps:
            pinned = lossy = None
            keyed_ok = False
            # on a path where the parameter is tested falsy / None it carries no information (default idiom
            # `if not q: q = <derived from the other parameters>`): nothing to pin
            if any((isinstance(a, ast.Name) and a.id == q and not pol) or (isinstance(a, ast.Compare) and isinstance(a.left, ast.Name) and a.left.id == q and len(a.ops) == 1 and isinstance(a.comparators[0], ast.Constant) and a.comparators[0].value is None and ((isinstance(a.ops[0], (ast.Is, ast.Eq)) and pol) or (isinstance(a.ops[0], (ast.IsNot, ast.NotEq)) and not pol))) for a, pol in conds):
                res.append(("ok", f"`{q}` is None / falsy on this path"))
                continue
            # keyed lookup in the returned expression: L[key] / L.get(key) with a key injective in q, the store key
            # (locals inlined) injective in q as well and of the same shape
            if m.key is not None:
                from rsa.terms import inline_locals

                skey = inline_locals(fi, m.key)
                for x in ast.walk(e):
                    lk = None
                    if isinstance(x, ast.Subscript) and _loc_text_matches(fi, p, x.value, m.loc, selfname):
                        lk = x.slice
                    elif isinstance(x, ast.Call) and isinstance(x.func, ast.Attribute) and x.func.attr == "get" and x.args and _loc_text_matches(fi, p, x.func.value, m.loc, selfname):
                        lk = x.args[0]
                    if lk is None:
                        continue
                    same_shape = type(lk) is type(skey) and (not isinstance(lk, ast.Call) or unparse(lk.func) == unparse(skey.func)) and (not isinstance(lk, (ast.Tuple, ast.List)) or len(lk.elts) == len(skey.elts))
                    inj_l, inj_s = injective_in(lk, q), injective_in(skey, q)
                    if same_shape and inj_l is True and inj_s is True:
                        keyed_ok = True
                    elif inj_l is False or inj_s is False:
                        lossy = lk if inj_l is False else skey
            if keyed_ok:
                res.append(("ok", f"{m.loc[1]}[{unparse(m.key)}]: lookup key equals the store key and is injective in `{q}`"))
                continue
            for a, pol in conds:
                if not _mentions(a, q):
                    continue
                if isinstance(a, ast.Compare) and len(a.ops) == 1:
                    lhs, rhs, op = a.left, a.comparators[0], a.ops[0]
                    is_eq = (isinstance(op, (ast.Eq, ast.Is)) and pol) or (isinstance(op, (ast.NotEq, ast.IsNot)) and not pol)
                    is_in = isinstance(op, ast.In) and pol and reads_loc(rhs)
                    side = lhs if _mentions(lhs, q) else rhs
                    other = rhs if side is lhs else lhs
                    inj = injective_in(side, q)
                    if (is_eq or is_in) and inj is True and not _mentions(other, q) and reads_persistent(other):
                        pinned = a
                    elif reads_persistent(a) and (inj is False or not (is_eq or is_in)):
                        lossy = a
                elif reads_persistent(a) and any(isinstance(x, ast.Call) and call_name(x) in LOSSY_CALLS for x in ast.walk(a)):
                    lossy = a
            if pinned is not None:
                res.append(("ok", f"hit on `{unparse(pinned)[:80]}`"))
            elif lossy is not None:
                res.append(("violation", f"{fi.name} keeps a result that depends on `{q}` in {m.loc[1]} and returns it again when `{unparse(lossy)[:90]}` holds: that test sees only a projection of `{q}`, so a call with a different `{q}` is answered with the stored result of another argument"))
            else:
                res.append(("violation", f"{fi.name} keeps a result that depends on `{q}` in {m.loc[1]} and returns the stored value on a path that never compares `{q}` with the argument it was computed for"))
    if n_hit == 0:
        res.append(("ok", f"{m.loc[1]} is stored by {fi.name} but no return path hands the stored value back"))
    return res


def _is_write_side(m, read):
    """The read is part of the assignment target chain itself (e.g. `cls._c[k] = v` loads `cls._c`)."""
    return any(x is read for t in getattr(m.write, "targets", [getattr(m.write, "target", None)]) if t is not None for x in ast.walk(t)) or (isinstance(m.write, ast.Expr) and any(x is read for x in ast.walk(m.write)))


def _parent_subscript_or_get(fi, read):
    """Key expression when `read` is used as `read[key]` / `read.get(key)` / `key in read`; else None."""
    for n in walk_no_nested(fi.node):
        if isinstance(n, ast.Subscript) and n.value is read and isinstance(n.ctx, ast.Load):
            return n.slice
        if isinstance(n, ast.Call) and isinstance(n.func, ast.Attribute) and n.func.value is read and n.func.attr in ("get", "pop") and n.args:
            return n.args[0]
        if isinstance(n, ast.Compare) and len(n.ops) == 1 and isinstance(n.ops[0], (ast.In, ast.NotIn)) and n.comparators[0] is read:
            return n.left
    return None


# ------------------------------------------------------------------------------------------ (B) lazy caches
def lazy_cache(prop_fi):
    """(field, value expr, assign node) when the property / method body is
    `if self.F is None: self.F = E` ... `return self.F`; None otherwise."""
    body = [s for s in prop_fi.node.body if not (isinstance(s, ast.Expr) and isinstance(s.value, ast.Constant))]
    if len(body) != 2 or not isinstance(body[0], ast.If) or not isinstance(body[1], ast.Return) or body[0].orelse:
        return None
    t = body[0].test
    fld = None
    if isinstance(t, ast.Compare) and len(t.ops) == 1 and isinstance(t.ops[0], (ast.Is, ast.Eq)) and isinstance(t.comparators[0], ast.Constant) and t.comparators[0].value is None:
        fld = t.left
    elif isinstance(t, ast.UnaryOp) and isinstance(t.op, ast.Not):
        fld = t.operand
    if not (isinstance(fld, ast.Attribute) and isinstance(fld.value, ast.Name) and fld.value.id == "self"):
        return None
    asg = [s for s in body[0].body if isinstance(s, (ast.Assign, ast.AnnAssign))]
    if len(asg) != 1 or len(body[0].body) != 1:
        return None
    tg = asg[0].targets[0] if isinstance(asg[0], ast.Assign) else asg[0].target
    if unparse(tg) != unparse(fld) or unparse(body[1].value) != unparse(fld):
        return None
    return fld.attr, asg[0].value, asg[0]


def self_field_deps(p, ci, expr, depth=0, seen=None):
    """self-fields (`_x` storage attributes) an expression over `self` reads, following properties of the hierarchy."""
    seen = set() if seen is None else seen
    out = set()
    for n in ast.walk(expr):
        if isinstance(n, ast.Attribute) and isinstance(n.value, ast.Name) and n.value.id == "self":
            a = n.attr
            m = p.lookup_method(ci, a)
            if m is not None and m.kind == "property" and depth < 5 and m.qualname not in seen:
                seen.add(m.qualname)
                lc = lazy_cache(m)
                src = lc[1] if lc is not None else None
                if src is None:
                    rets = [r.value for r in walk_no_nested(m.node) if isinstance(r, ast.Return) and r.value is not None]
                    for rv in rets:
                        out |= self_field_deps(p, ci, rv, depth + 1, seen)
                else:
                    out |= self_field_deps(p, ci, src, depth + 1, seen)
            elif m is None:
                out.add(a)
    return out


def field_writers(p, ci, field):
    """(function, assignment node) for every `self.<field> = ...` in the class, its bases and its subclasses."""
    classes = list(p.mro(ci)) + [c for c in p.subclasses(ci) if c not in p.mro(ci)]
    out = []
    for c in classes:
        fns = list(c.methods.values()) + list(c.setters.values())
        for m in fns:
            for n in walk_no_nested(m.node):
                tgts = n.targets if isinstance(n, ast.Assign) else ([n.target] if isinstance(n, (ast.AnnAssign, ast.AugAssign)) else [])
                for tg in tgts:
                    for e in tg.elts if isinstance(tg, ast.Tuple) else [tg]:
                        if isinstance(e, ast.Attribute) and isinstance(e.value, ast.Name) and e.value.id == "self" and e.attr == field:
                            out.append((m, n))
    return out


def resets_field(p, fn, field, depth=0):
    """fn assigns self.<field> (None or a fresh value), directly or through a self setter / self method it calls."""
    for n in walk_no_nested(fn.node):
        tgts = n.targets if isinstance(n, ast.Assign) else ([n.target] if isinstance(n, ast.AnnAssign) else [])
        for tg in tgts:
            if isinstance(tg, ast.Attribute) and isinstance(tg.value, ast.Name) and tg.value.id == "self":
                if tg.attr == field:
                    return True
                if fn.cls is not None and depth < 3:
                    st = p.lookup_setter(fn.cls, tg.attr)
                    if st is not None and st is not fn and resets_field(p, st, field, depth + 1):
                        return True
        if isinstance(n, ast.Call) and isinstance(n.func, ast.Attribute) and isinstance(n.func.value, ast.Name) and n.func.value.id == "self" and fn.cls is not None and depth < 3:
            m = p.lookup_method(fn.cls, n.func.attr)
            if m is not None and m is not fn and resets_field(p, m, field, depth + 1):
                return True
    return False


def cache_coherence(p, ci, prop_fi):
    """For a lazily cached property: list of (kind, construct, message).  Empty list when the property is not a cache."""
    lc = lazy_cache(prop_fi)
    if lc is None:
        return []
    field, expr, _asg = lc
    deps = self_field_deps(p, ci, expr) - {field}
    res = []
    for g in sorted(deps):
        for fn, node in field_writers(p, ci, g):
            if fn.name == "__init__":
                continue
            if resets_field(p, fn, field):
                res.append(("ok", f"{fn.qualname}:{g}", f"{fn.qualname} writes {g} and resets {field}"))
            else:
                res.append(("violation", f"{fn.qualname}:{g}", f"`{prop_fi.name}` caches `{unparse(expr)[:70]}` in self.{field}; {fn.qualname} assigns self.{g} (line {node.lineno}) without resetting self.{field}: afterwards the cached value belongs to the old {g}"))
    if not deps:
        res.append(("ok", f"{prop_fi.qualname}", f"{field} caches a value that depends on no mutable field"))
    return res


SELFTEST_SRC = '''
class K:
    _latest = None

    @classmethod
    def build(cls, when, table):
        if cls._latest is not None:
            t0, val = cls._latest
            if (when - t0).seconds == 0:
                return val
        val = compute(when, table)
        cls._latest = (when, val)
        return val
'''
