"""rsa - resonaate static analysis.

A stdlib-only (ast based) program model and a handful of analyses over it.  Nothing from the
analysed repository is ever imported or executed.
"""
