"""Which parameters does a function modify in place?  (array semantics: `x -= y`, `x[i] = v`, `x.fill(v)`,
`f(..., out=x)` change the caller's object.)

A syntactic summary per function, transitive through resolved callees to a stated depth:

* a local is an *alias* of a parameter when every binding of it is the parameter itself, a basic slice / `.T` /
  `.reshape()` / `.ravel()` / `asarray()` view of it, or another alias;
* a parameter is *mutated* when it or one of its aliases is the target of an augmented assignment, the base of a
  subscript store, the receiver of a mutating ndarray method, the `out=` of a call, the first argument of
  copyto / put / fill_diagonal / place / putmask, or is passed to a resolved callee in a mutated position.

Parameters annotated with a plain scalar type are exempt from the augmented-assignment clause (rebinding, not
mutation).  Nothing is executed.
"""

from __future__ import annotations

import ast

from rsa.model import FunctionInfo, call_name, unparse, walk_no_nested

_SCALAR_ANN = {"float", "int", "bool", "str", "JulianDate", "ScenarioTime", "complex"}
_MUT_METHODS = {"sort", "fill", "resize", "itemset", "put", "setfield", "partition", "byteswap", "setflags", "append", "extend", "insert", "pop", "remove", "clear", "update", "reverse"}
_MUT_FIRST_ARG = {"copyto", "put", "fill_diagonal", "place", "putmask", "put_along_axis"}
_VIEW_CALLS = {"asarray", "asanyarray", "ravel", "atleast_1d", "atleast_2d", "squeeze", "transpose"}
_VIEW_METHODS = {"reshape", "ravel", "view", "squeeze", "transpose", "swapaxes"}


def view_root(e):
    """Name at the root of a view expression (basic slicing, .T, reshape ...), or None when `e` makes a new object."""
    while True:
        if isinstance(e, ast.Name):
            return e.id
        if isinstance(e, ast.Subscript):
            sl = e.slice
            parts = sl.elts if isinstance(sl, ast.Tuple) else [sl]
            # integer indexing of a 1-d array gives a scalar; any slice / ellipsis / dict lookup keeps a reference
            e = e.value
            continue
        if isinstance(e, ast.Attribute) and e.attr in ("T", "real", "imag", "flat"):
            e = e.value
            continue
        if isinstance(e, ast.Call) and isinstance(e.func, ast.Attribute) and e.func.attr in _VIEW_METHODS:
            e = e.func.value
            continue
        if isinstance(e, ast.Call) and call_name(e) in _VIEW_CALLS and e.args:
            e = e.args[0]
            continue
        return None


def aliases_of(fn_node, roots):
    """local name -> root it is a view of, for locals whose every binding is a view of one and the same root."""
    binds = {}
    for n in walk_no_nested(fn_node):
        tgts = []
        if isinstance(n, ast.Assign):
            tgts = [(tg, n.value) for tg in n.targets]
        elif isinstance(n, ast.AnnAssign) and n.value is not None:
            tgts = [(n.target, n.value)]
        elif isinstance(n, ast.NamedExpr):
            tgts = [(n.target, n.value)]
        elif isinstance(n, (ast.For, ast.comprehension)):
            tgts = [(n.target, None)]
        for tg, v in tgts:
            if isinstance(tg, ast.Name):
                binds.setdefault(tg.id, []).append(v)
            elif isinstance(tg, (ast.Tuple, ast.List)):
                for el in ast.walk(tg):
                    if isinstance(el, ast.Name):
                        binds.setdefault(el.id, []).append(None)
    al = {r: r for r in roots}
    changed = True
    while changed:
        changed = False
        for name, vals in binds.items():
            if name in al or name in roots:
                continue
            rs = set()
            for v in vals:
                root = view_root(v) if v is not None else None
                rs.add(al.get(root) if root is not None else None)
            if len(rs) == 1 and None not in rs:
                al[name] = rs.pop()
                changed = True
    return al


class InPlace:
    def __init__(self, project, tenv, max_depth=3):
        self.p, self.t, self.max_depth = project, tenv, max_depth
        self._memo = {}

    def mutated_params(self, fi: FunctionInfo, depth=0):
        """{parameter name: (description, node)} for the parameters `fi` modifies in place."""
        if fi.qualname in self._memo:
            return self._memo[fi.qualname]
        self._memo[fi.qualname] = {}  # recursion guard
        params = list(fi.params)
        al = aliases_of(fi.node, params)
        out = {}
        scalar = set()
        a = fi.node.args
        for arg in a.posonlyargs + a.args + a.kwonlyargs:
            if arg.annotation is not None and unparse(arg.annotation).strip("'\"") in _SCALAR_ANN:
                scalar.add(arg.arg)

        def hit(name, what, node):
            root = al.get(name)
            if root is not None and root in params:
                out.setdefault(root, (what, node))

        for n in walk_no_nested(fi.node):
            if isinstance(n, ast.AugAssign):
                if isinstance(n.target, ast.Name):
                    if not (n.target.id in scalar):
                        hit(n.target.id, f"`{unparse(n)[:60]}` (in place for an array)", n)
                else:
                    root = view_root(n.target)
                    if root is not None:
                        hit(root, f"`{unparse(n)[:60]}`", n)
            elif isinstance(n, (ast.Assign, ast.AnnAssign)):
                for tg in n.targets if isinstance(n, ast.Assign) else [n.target]:
                    for el in tg.elts if isinstance(tg, (ast.Tuple, ast.List)) else [tg]:
                        if isinstance(el, ast.Subscript):
                            root = view_root(el)
                            if root is not None:
                                hit(root, f"`{unparse(el)[:40]} = ...`", n)
            elif isinstance(n, ast.Call):
                cn = call_name(n)
                if isinstance(n.func, ast.Attribute) and n.func.attr in _MUT_METHODS:
                    root = view_root(n.func.value)
                    if root is not None and root not in ("self", "cls"):
                        hit(root, f"`{unparse(n)[:50]}`", n)
                for k in n.keywords:
                    if k.arg == "out":
                        root = view_root(k.value)
                        if root is not None:
                            hit(root, f"`{unparse(n)[:50]}` writes its result into it", n)
                if cn in _MUT_FIRST_ARG and n.args:
                    root = view_root(n.args[0])
                    if root is not None:
                        hit(root, f"`{unparse(n)[:50]}`", n)
                if depth < self.max_depth:
                    for callee, binding in self.bound_callees(n, fi):
                        sub = self.mutated_params(callee, depth + 1)
                        for par, (what, _) in sub.items():
                            arg = binding.get(par)
                            root = view_root(arg) if arg is not None else None
                            if root is not None:
                                hit(root, f"passed as `{par}` to {callee.name}, which does {what}", n)
        self._memo[fi.qualname] = out
        return out

    def bound_callees(self, call, fi):
        """[(callee FunctionInfo, {parameter: argument expression})] for the resolved function targets of a call."""
        res = []
        try:
            targets = self.t.callees(call, fi)
        except Exception:  # noqa: BLE001 - unresolvable receiver: no target
            targets = []
        for tg in targets:
            if not isinstance(tg, FunctionInfo):
                continue
            pars = list(tg.params)
            if tg.cls is not None and pars and pars[0] in ("self", "cls") and isinstance(call.func, ast.Attribute):
                pars = pars[1:]
            elif tg.cls is not None and pars and pars[0] in ("self", "cls") and not isinstance(call.func, ast.Attribute):
                pars = pars[1:]
            if any(isinstance(a, ast.Starred) for a in call.args):
                continue
            binding = {pars[i]: a for i, a in enumerate(call.args) if i < len(pars)}
            binding.update({k.arg: k.value for k in call.keywords if k.arg})
            res.append((tg, binding))
        return res
