"""Verdict protocol, evidence files, replay files, known findings.

Per rule instance exactly one of PASS / VIOLATION / KNOWN-FINDING / UNDECIDED / ANALYSIS-ERROR.
Exit 0 iff every instance is PASS or KNOWN-FINDING; 1 if any VIOLATION; 2 otherwise.
"""

from __future__ import annotations

import hashlib
import json
import os
import sys
import time
import traceback

import ast

from .model import AnchorError, LooseEquality, Undecided

VERIF = os.path.dirname(os.path.dirname(os.path.abspath(__file__)))


class Rule:
    def __init__(self, check, rid, title, floor, decides, not_decided=""):
        self.check = check
        self.id = rid
        self.title = title
        self.floor = floor
        self.decides = decides
        self.not_decided = not_decided
        self.instances = []  # dicts
        self.paths_enumerated = 0
        self.informational = []

    # an instance on which the rule had something to check and it held
    def ok(self, construct, detail="", loc="", obligations=1):
        self.instances.append(
            dict(verdict="PASS", construct=construct, detail=detail, loc=loc, trivial=False, obligations=obligations)
        )

    # precondition absent: nothing to check at this site
    def trivial(self, construct, detail="", loc=""):
        self.instances.append(dict(verdict="PASS", construct=construct, detail=detail, loc=loc, trivial=True, obligations=0))

    def violation(self, construct, key, message, loc="", detail=None):
        """``key``: semantic fingerprint of *what* fails at the construct (never a line number)."""
        self.instances.append(
            dict(
                verdict="VIOLATION",
                construct=construct,
                key=key,
                message=message,
                loc=loc,
                detail=detail or {},
                trivial=False,
                obligations=1,
            )
        )

    def undecided(self, construct, why, loc=""):
        self.instances.append(
            dict(verdict="UNDECIDED", construct=construct, message=why, loc=loc, trivial=False, obligations=1)
        )

    def error(self, construct, why):
        self.instances.append(
            dict(verdict="ANALYSIS-ERROR", construct=construct, message=why, loc="", trivial=False, obligations=1)
        )

    def info(self, text):
        self.informational.append(text)

    def guard(self, construct, fn, *args, **kw):
        """Run an instance evaluation; map engine exceptions to verdicts."""
        try:
            return fn(*args, **kw)
        except LooseEquality as e:
            loc = ""
            if e.node is not None and hasattr(e.node, "lineno"):
                loc = f"line {int(e.node.lineno)}"
            self.violation(construct, "loose-equality:" + (ast.unparse(e.node)[:60] if e.node is not None else ""), str(e), loc)
        except Undecided as e:
            loc = ""
            if e.node is not None and hasattr(e.node, "lineno"):
                loc = f"line {int(e.node.lineno)}"
            self.undecided(construct, str(e), loc)
        except AnchorError as e:
            self.error(construct, f"vanished anchor: {e}")
        except Exception as e:  # internal error: fail closed, never a violation
            self.error(construct, f"internal error: {type(e).__name__}: {e}\n{traceback.format_exc()}")
        return None


class Check:
    def __init__(self, prop_id, tier="quick", repo="/repo", seed=0, only_rule=None):
        self.prop = prop_id
        self.tier = tier
        self.repo = repo
        self.seed = seed
        self.only_rule = only_rule
        self.rules: list[Rule] = []
        self.t0 = time.time()
        self.assumptions = []
        self.explanation = ""
        self.extra = {}

    def rule(self, rid, title, floor, decides, not_decided=""):
        r = Rule(self, rid, title, floor, decides, not_decided)
        self.rules.append(r)
        return r

    # rule functions that emit further rule ids (shared instances of another property's rules)
    EMITS = {"C11.R8": {"C11.R9", "C11.R10", "C11.R11"}, "C13.R7": {"C13.R8"}, "C14.R8": {"C14.R9", "C14.R10"}, "C15.R5": {"C15.R6"}}

    def wants(self, rid):
        return self.only_rule is None or self.only_rule == rid or self.only_rule in self.EMITS.get(rid, ())

    # ------------------------------------------------------------------ known findings
    @staticmethod
    def load_known():
        path = os.path.join(VERIF, "known_findings.json")
        if not os.path.exists(path):
            return [], []
        with open(path) as fh:
            d = json.load(fh)
        return d.get("known", []), d.get("fixed", [])

    # ------------------------------------------------------------------ finish
    def finish(self, project=None, tenv=None, write=True):
        known, _fixed = self.load_known()
        known_keys = {(k["property"], k["rule"], k["construct"], k["key"]): k for k in known}
        lines = []
        n_viol = n_known = n_undec = n_err = 0
        evaluations = nontrivial = obligations = discharged = 0
        distinct = set()
        samples = []
        per_rule = {}
        violations_out = []
        for r in self.rules:
            if not self.wants(r.id):
                continue
            cnt = dict(instances=len(r.instances), nontrivial=0, obligations=0, discharged=0, undecided=0, violations=0, known=0)
            if len(r.instances) < r.floor:
                r.error(r.id, f"instance count {len(r.instances)} below the floor {r.floor} confirmed by hand")
            for inst in r.instances:
                evaluations += 1
                cnt["obligations"] += inst.get("obligations", 1)
                if not inst["trivial"]:
                    cnt["nontrivial"] += 1
                    distinct.add((r.id, inst["construct"]))
                v = inst["verdict"]
                if v == "PASS":
                    cnt["discharged"] += inst.get("obligations", 1)
                    if not inst["trivial"] and len([s for s in samples if s["rule"] == r.id]) < 3:
                        samples.append(dict(rule=r.id, construct=inst["construct"], loc=inst["loc"], verdict="PASS", detail=str(inst["detail"])[:300]))
                elif v == "VIOLATION":
                    k = (self.prop, r.id, inst["construct"], inst["key"])
                    if k in known_keys:
                        n_known += 1
                        cnt["known"] += 1
                        lines.append(f"KNOWN-FINDING: property={self.prop} rule={r.id} construct={inst['construct']} {known_keys[k].get('what', inst['message'])}")
                        samples.append(dict(rule=r.id, construct=inst["construct"], loc=inst["loc"], verdict="KNOWN-FINDING", detail=inst["message"][:300]))
                    else:
                        n_viol += 1
                        cnt["violations"] += 1
                        replay = self._write_replay(r, inst) if write else "<none>"
                        lines.append(f"VIOLATION property={self.prop} replay={replay}")
                        lines.append(f"  rule={r.id} ({r.title}) construct={inst['construct']} at {inst['loc']}: {inst['message']}")
                        violations_out.append(dict(rule=r.id, construct=inst["construct"], key=inst["key"], loc=inst["loc"], message=inst["message"]))
                elif v == "UNDECIDED":
                    n_undec += 1
                    cnt["undecided"] += 1
                    lines.append(f"UNDECIDED property={self.prop} rule={r.id} construct={inst['construct']} {inst['loc']}: {inst['message']}")
                else:
                    n_err += 1
                    lines.append(f"ANALYSIS-ERROR property={self.prop} rule={r.id} construct={inst['construct']}: {inst['message']}")
            obligations += cnt["obligations"]
            discharged += cnt["discharged"]
            nontrivial += cnt["nontrivial"]
            cnt["paths_enumerated"] = r.paths_enumerated
            cnt["title"] = r.title
            cnt["decides"] = r.decides
            cnt["not_decided"] = r.not_decided
            cnt["floor"] = r.floor
            if r.informational:
                cnt["informational"] = r.informational[:20]
            per_rule[r.id] = cnt
        code = 0
        if n_viol:
            code = 1
        elif n_undec or n_err:
            code = 2
        wall = time.time() - self.t0
        ev = dict(
            property_id=self.prop,
            tier=self.tier,
            seed=int(self.seed),
            level="other",
            coverage=dict(
                explanation=self.explanation
                or "static decision of the structural clauses listed per rule; the behavioural property itself is not proved",
                evaluations=evaluations,
                distinct_nontrivial=len(distinct),
                rule="one evaluation per rule instance (anchored construct x obligation group); an instance is non-trivial "
                "when the rule's precondition is present at the construct; distinct = distinct (rule, construct) pairs",
                samples=samples[:40],
                obligations=obligations,
                discharged=discharged,
                undecided=n_undec,
                analysis_errors=n_err,
                known_findings=n_known,
                per_rule=per_rule,
                exhaustive=False,
            ),
            assumptions=self.assumptions,
            wall_s=round(wall, 3),
            violations=n_viol,
        )
        if project is not None:
            ev["coverage"]["modules_parsed"] = len(project.modules)
            ev["coverage"]["functions_analysed"] = len(project.functions)
            ev["coverage"]["modules_consulted"] = sorted(project.consulted)
            ev["coverage"]["source_digest"] = project.digest(project.consulted)
            ev["coverage"]["spelling_normalisation"] = dict(
                rule="function-local spellings, comparison orientation, inlined / newly extracted single-definition locals are normalised in memory toward rsa/pinned_locals.json before any rule runs (alpha-conversion; expressions taken as side-effect free); it decides nothing",
                **{k: v for k, v in getattr(project, "alpha_stats", {}).items()},
            )
        ev["coverage"].update(self.extra)
        ev["coverage"]["violation_list"] = violations_out
        if write and self.only_rule is None:
            os.makedirs(os.path.join(VERIF, "evidence"), exist_ok=True)
            with open(os.path.join(VERIF, "evidence", f"{self.prop}.json"), "w") as fh:
                json.dump(ev, fh, indent=1, sort_keys=True)
                fh.write("\n")
        for ln in lines:
            print(ln)
        status = {0: "PASS", 1: "VIOLATION", 2: "UNDECIDED/ANALYSIS-ERROR"}[code]
        print(
            f"{self.prop} [{self.tier}] {status}: rules={len(per_rule)} instances={evaluations} nontrivial={nontrivial} "
            f"obligations={obligations} discharged={discharged} known={n_known} violations={n_viol} undecided={n_undec} "
            f"errors={n_err} wall={wall:.2f}s"
        )
        sys.stdout.flush()
        return code

    def _write_replay(self, r: Rule, inst):
        os.makedirs(os.path.join(VERIF, "replay"), exist_ok=True)
        h = hashlib.sha256(f"{self.prop}|{r.id}|{inst['construct']}|{inst['key']}".encode()).hexdigest()[:12]
        path = os.path.join(VERIF, "replay", f"{self.prop}-{r.id.split('.')[-1]}-{h}.json")
        with open(path, "w") as fh:
            json.dump(
                dict(
                    property=self.prop,
                    rule=r.id,
                    rule_title=r.title,
                    decides=r.decides,
                    construct=inst["construct"],
                    key=inst["key"],
                    loc=inst["loc"],
                    message=inst["message"],
                    detail=inst.get("detail", {}),
                    repo=self.repo,
                ),
                fh,
                indent=1,
                default=str,
            )
            fh.write("\n")
        return path
