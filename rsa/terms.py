"""Pure-expression normaliser.

``canon(expr)`` maps an arithmetic AST expression to a hashable normal form that is invariant
under commutativity / associativity of + and *, distribution of unary minus, ``a - b`` vs
``a + (-b)``, ``a / b`` vs ``a * (1 / b)`` and exact folding of literal integer/float constants.
It never evaluates a function body and follows no paths.

``inline_locals`` substitutes locals that have a single definition in the function.
"""

from __future__ import annotations

import ast
import copy
from fractions import Fraction

from .model import FunctionInfo, walk_no_nested


# ------------------------------------------------------------------ local inlining
def single_defs(fn_node):
    """name -> value expr for locals assigned exactly once by a plain ``name = expr`` (or walrus),
    never augmented / deleted / used as a loop target / parameter."""
    counts = {}
    vals = {}
    a = fn_node.args
    params = {x.arg for x in a.posonlyargs + a.args + a.kwonlyargs}
    if a.vararg:
        params.add(a.vararg.arg)
    if a.kwarg:
        params.add(a.kwarg.arg)

    def bump(name, val=None):
        counts[name] = counts.get(name, 0) + 1
        vals[name] = val

    for n in walk_no_nested(fn_node):
        if isinstance(n, ast.Assign):
            for t in n.targets:
                if isinstance(t, ast.Name):
                    bump(t.id, n.value if len(n.targets) == 1 else None)
                elif (
                    isinstance(t, ast.Tuple)
                    and isinstance(n.value, ast.Tuple)
                    and len(t.elts) == len(n.value.elts)
                    and all(isinstance(x, ast.Name) for x in t.elts)
                    and len(n.targets) == 1
                ):
                    for x, v in zip(t.elts, n.value.elts):
                        bump(x.id, v)
                elif (
                    isinstance(t, ast.Tuple)
                    and isinstance(n.value, ast.Subscript)
                    and isinstance(n.value.slice, ast.Slice)
                    and n.value.slice.lower is None
                    and n.value.slice.step is None
                    and isinstance(n.value.slice.upper, ast.Constant)
                    and n.value.slice.upper.value == len(t.elts)
                    and isinstance(n.value.value, (ast.Name, ast.Attribute))
                    and all(isinstance(x, ast.Name) for x in t.elts)
                    and len(n.targets) == 1
                ):
                    # `a, b = seq[:2]`: a = seq[0], b = seq[1]
                    for i, x in enumerate(t.elts):
                        sub = ast.Subscript(value=copy.deepcopy(n.value.value), slice=ast.Constant(value=i), ctx=ast.Load())
                        bump(x.id, ast.copy_location(sub, n.value))
                elif (
                    isinstance(t, ast.Tuple)
                    and isinstance(n.value, (ast.Name, ast.Attribute))
                    and all(isinstance(x, ast.Name) for x in t.elts)
                    and len(n.targets) == 1
                ):
                    # `a, b = seq` with a side-effect-free sequence expression: a = seq[0], b = seq[1]
                    for i, x in enumerate(t.elts):
                        sub = ast.Subscript(value=copy.deepcopy(n.value), slice=ast.Constant(value=i), ctx=ast.Load())
                        bump(x.id, ast.copy_location(sub, n.value))
                else:
                    for x in ast.walk(t):
                        if isinstance(x, ast.Name) and isinstance(x.ctx, ast.Store):
                            bump(x.id)
        elif isinstance(n, ast.AnnAssign) and isinstance(n.target, ast.Name):
            bump(n.target.id, n.value)
        elif isinstance(n, ast.AugAssign) and isinstance(n.target, ast.Name):
            bump(n.target.id)
            bump(n.target.id)
        elif isinstance(n, ast.NamedExpr) and isinstance(n.target, ast.Name):
            bump(n.target.id, n.value)
        elif isinstance(n, (ast.For, ast.comprehension)):
            for x in ast.walk(n.target):
                if isinstance(x, ast.Name):
                    bump(x.id)
                    bump(x.id)
        elif isinstance(n, ast.With):
            for it in n.items:
                if it.optional_vars is not None:
                    for x in ast.walk(it.optional_vars):
                        if isinstance(x, ast.Name):
                            bump(x.id)
                            bump(x.id)
        elif isinstance(n, ast.ExceptHandler) and n.name:
            bump(n.name)
            bump(n.name)
        elif isinstance(n, ast.Delete):
            for t in n.targets:
                if isinstance(t, ast.Name):
                    bump(t.id)
                    bump(t.id)
    return {k: v for k, v in vals.items() if counts.get(k) == 1 and v is not None and k not in params}


class _Inliner(ast.NodeTransformer):
    def __init__(self, defs, depth):
        self.defs = defs
        self.depth = depth

    def visit_Name(self, node):
        if isinstance(node.ctx, ast.Load) and node.id in self.defs and self.depth > 0:
            sub = copy.deepcopy(self.defs[node.id])
            return _Inliner(self.defs, self.depth - 1).visit(sub)
        return node

    def visit_Lambda(self, node):
        return node

    def visit_NamedExpr(self, node):
        return self.visit(node.value)


def inline_locals(fn_node_or_fi, expr, depth=6):
    fn_node = fn_node_or_fi.node if isinstance(fn_node_or_fi, FunctionInfo) else fn_node_or_fi
    defs = single_defs(fn_node)
    return _Inliner(defs, depth).visit(copy.deepcopy(expr))


# ------------------------------------------------------------------ canonical forms
def _num(v):
    if isinstance(v, bool):
        return None
    if isinstance(v, int):
        return Fraction(v)
    if isinstance(v, float):
        return Fraction(v)  # exact binary value
    return None


def canon(e, consts=None):
    """Normal form (nested tuples).  ``consts``: optional name -> canon form substitutions."""
    s, t = _canon(e, consts or {})
    return _signed(s, t)


def _signed(sign, term):
    if sign == 1:
        return term
    if term[0] == "c":
        return ("c", -term[1])
    return ("neg", term)


def _canon(e, consts):
    """Returns (sign, term) with sign in {1,-1}."""
    if isinstance(e, ast.Constant):
        v = _num(e.value)
        if v is not None:
            return (1, ("c", v)) if v >= 0 else (-1, ("c", -v))
        return 1, ("k", repr(e.value))
    if isinstance(e, ast.Name):
        if e.id in consts:
            return 1, consts[e.id]
        return 1, ("n", e.id)
    if isinstance(e, ast.Attribute):
        return 1, ("a", canon(e.value, consts), e.attr)
    if isinstance(e, ast.UnaryOp):
        if isinstance(e.op, ast.USub):
            s, t = _canon(e.operand, consts)
            return -s, t
        if isinstance(e.op, ast.UAdd):
            return _canon(e.operand, consts)
        return 1, ("u", type(e.op).__name__, canon(e.operand, consts))
    if isinstance(e, ast.BinOp):
        if isinstance(e.op, (ast.Add, ast.Sub)):
            terms = []
            _flatten_sum(e, 1, terms, consts)
            return _mk_sum(terms)
        if isinstance(e.op, (ast.Mult, ast.Div)):
            nums, dens = [], []
            sign = _flatten_prod(e, nums, dens, consts, False)
            return _mk_prod(sign, nums, dens)
        if isinstance(e.op, ast.MatMult):
            return 1, ("@", canon(e.left, consts), canon(e.right, consts))
        return 1, ("b", type(e.op).__name__, canon(e.left, consts), canon(e.right, consts))
    if isinstance(e, ast.Call):
        args = tuple(canon(a, consts) for a in e.args)
        kws = tuple(sorted((k.arg or "**", canon(k.value, consts)) for k in e.keywords))
        return 1, ("call", canon(e.func, consts), args, kws)
    if isinstance(e, ast.Subscript):
        return 1, ("idx", canon(e.value, consts), canon(e.slice, consts))
    if isinstance(e, ast.Slice):
        return 1, ("slice",) + tuple(canon(x, consts) if x is not None else None for x in (e.lower, e.upper, e.step))
    if isinstance(e, (ast.Tuple, ast.List)):
        return 1, ("seq",) + tuple(canon(x, consts) for x in e.elts)
    if isinstance(e, ast.Compare):
        return 1, ("cmp", canon(e.left, consts)) + tuple((type(o).__name__, canon(c, consts)) for o, c in zip(e.ops, e.comparators))
    if isinstance(e, ast.BoolOp):
        return 1, ("bool", type(e.op).__name__) + tuple(canon(v, consts) for v in e.values)
    if isinstance(e, ast.IfExp):
        return 1, ("ifexp", canon(e.test, consts), canon(e.body, consts), canon(e.orelse, consts))
    if isinstance(e, ast.NamedExpr):
        return _canon(e.value, consts)
    if isinstance(e, ast.Starred):
        return 1, ("star", canon(e.value, consts))
    if isinstance(e, ast.JoinedStr):
        return 1, ("fstr", ast.dump(e))
    return 1, ("raw", ast.dump(e))


def _flatten_sum(e, sign, out, consts):
    if isinstance(e, ast.BinOp) and isinstance(e.op, (ast.Add, ast.Sub)):
        _flatten_sum(e.left, sign, out, consts)
        _flatten_sum(e.right, sign if isinstance(e.op, ast.Add) else -sign, out, consts)
        return
    if isinstance(e, ast.UnaryOp) and isinstance(e.op, ast.USub):
        _flatten_sum(e.operand, -sign, out, consts)
        return
    s, t = _canon(e, consts)
    if t[0] == "sum":  # nested sum after constant substitution
        for ss, tt in t[1]:
            out.append((sign * s * ss, tt))
        return
    out.append((sign * s, t))


def _mk_sum(terms):
    const = Fraction(0)
    rest = []
    for s, t in terms:
        if t[0] == "c":
            const += s * t[1]
        else:
            rest.append((s, t))
    rest.sort(key=lambda st: repr(st[1]))
    if const != 0:
        rest.append((1 if const > 0 else -1, ("c", abs(const))))
    if not rest:
        return 1, ("c", Fraction(0))
    if len(rest) == 1:
        return rest[0]
    # normalise overall sign: make the first term positive
    if rest[0][0] == -1:
        return -1, ("sum", tuple((-s, t) for s, t in rest))
    return 1, ("sum", tuple(rest))


def _flatten_prod(e, nums, dens, consts, inverted):
    sign = 1
    if isinstance(e, ast.BinOp) and isinstance(e.op, (ast.Mult, ast.Div)):
        sign *= _flatten_prod(e.left, nums, dens, consts, inverted)
        sign *= _flatten_prod(e.right, nums, dens, consts, inverted if isinstance(e.op, ast.Mult) else not inverted)
        return sign
    if isinstance(e, ast.UnaryOp) and isinstance(e.op, ast.USub):
        return -_flatten_prod(e.operand, nums, dens, consts, inverted)
    s, t = _canon(e, consts)
    if t[0] == "prod":
        (dens if inverted else nums).extend(t[1])
        (nums if inverted else dens).extend(t[2])
    else:
        (dens if inverted else nums).append(t)
    return s


def _mk_prod(sign, nums, dens):
    c = Fraction(1)
    n2, d2 = [], []
    for t in nums:
        if t[0] == "c":
            c *= t[1]
        else:
            n2.append(t)
    for t in dens:
        if t[0] == "c":
            if t[1] == 0:
                d2.append(t)
            else:
                c /= t[1]
        else:
            d2.append(t)
    # cancel common factors
    for t in list(n2):
        if t in d2:
            n2.remove(t)
            d2.remove(t)
    n2.sort(key=repr)
    d2.sort(key=repr)
    if c < 0:
        sign, c = -sign, -c
    if not n2 and not d2:
        return sign, ("c", c)
    if c != 1:
        n2.append(("c", c))
    if len(n2) == 1 and not d2:
        return sign, n2[0]
    return sign, ("prod", tuple(n2), tuple(d2))


def same(e1, e2, consts=None):
    return canon(e1, consts) == canon(e2, consts)


def negated(e1, e2, consts=None):
    """canon(e1) == canon(-e2)"""
    s1, t1 = _canon(e1, consts or {})
    s2, t2 = _canon(e2, consts or {})
    return t1 == t2 and s1 == -s2 and t1 != ("c", Fraction(0))


def const_value(e, table=None):
    """Exact rational value of a literal constant expression (ints, floats, + - * / **), using
    ``table`` (name -> Fraction) for named constants; None if not constant."""
    table = table or {}
    if isinstance(e, ast.Constant):
        return _num(e.value)
    if isinstance(e, ast.Name):
        return table.get(e.id)
    if isinstance(e, ast.UnaryOp) and isinstance(e.op, ast.USub):
        v = const_value(e.operand, table)
        return -v if v is not None else None
    if isinstance(e, ast.BinOp):
        a, b = const_value(e.left, table), const_value(e.right, table)
        if a is None or b is None:
            return None
        if isinstance(e.op, ast.Add):
            return a + b
        if isinstance(e.op, ast.Sub):
            return a - b
        if isinstance(e.op, ast.Mult):
            return a * b
        if isinstance(e.op, ast.Div):
            return a / b if b != 0 else None
        if isinstance(e.op, ast.Pow) and b.denominator == 1 and abs(b) < 64:
            return a ** int(b)
    return None


def names_in(e):
    return {n.id for n in ast.walk(e) if isinstance(n, ast.Name)}


def attr_chains_in(e):
    """All maximal dotted chains (``self.clock.time``) read in an expression."""
    from .model import dotted_name

    out = set()

    def rec(n, parent_is_attr=False):
        if isinstance(n, (ast.Attribute, ast.Name)) and not parent_is_attr:
            d = dotted_name(n)
            if d:
                out.add(d)
                return
        for c in ast.iter_child_nodes(n):
            rec(c, isinstance(n, ast.Attribute) and c is n.value)

    rec(e)
    return out


# ------------------------------------------------------------------ property / getter inlining
class _SelfSubst(ast.NodeTransformer):
    def __init__(self, selfname, repl):
        self.selfname = selfname
        self.repl = repl

    def visit_Name(self, node):
        if node.id == self.selfname and isinstance(node.ctx, ast.Load):
            return copy.deepcopy(self.repl)
        return node


def property_body(m):
    """Return expression of a single-``return`` property/getter (docstring and nothing else allowed),
    or None."""
    body = [s for s in m.node.body if not (isinstance(s, ast.Expr) and isinstance(s.value, ast.Constant))]
    if len(body) == 1 and isinstance(body[0], ast.Return) and body[0].value is not None:
        return body[0].value
    # lazily cached form `if self.F is None: self.F = E` / `return self.F`: the value is E whenever the cache is
    # coherent (rsa.memo.cache_coherence decides that separately, where a rule relies on the property)
    from rsa.memo import lazy_cache

    lc = lazy_cache(m)
    if lc is not None:
        return lc[1]
    return None


def inline_properties(expr, fi, tenv, depth=4, keep=()):
    """Substitute reads of single-return properties (through the typed receiver) by their bodies.

    ``keep``: set of (class short name, property) that must stay symbolic."""
    project = tenv.p

    class T(ast.NodeTransformer):
        def __init__(self, d):
            self.d = d

        def visit_Attribute(self, node):
            node = self.generic_visit(node)
            if self.d <= 0 or not isinstance(node.ctx, ast.Load):
                return node
            bt = tenv.expr_type(node.value, fi)
            if bt is None or bt.cls is None or bt.kind != "obj":
                return node
            m = project.lookup_method(bt.cls, node.attr)
            if m is None or m.kind != "property":
                return node
            if (m.cls.name, node.attr) in keep:
                return node
            body = property_body(m)
            if body is None or not m.params:
                return node
            sub = _SelfSubst(m.params[0], node.value).visit(copy.deepcopy(body))
            return T(self.d - 1).visit(sub)

    return T(depth).visit(copy.deepcopy(expr))


def poly_in(e, var, table=None, max_deg=40):
    """Exact polynomial {power: Fraction} of expression ``e`` in the single name ``var`` (constants, + - *, division by
    a constant, integer powers); None when ``e`` is anything else."""
    table = table or {}

    def mul(a, b):
        out = {}
        for i, x in a.items():
            for j, y in b.items():
                if i + j > max_deg:
                    return None
                out[i + j] = out.get(i + j, 0) + x * y
        return out

    def go(n):
        if isinstance(n, ast.Name) and n.id == var:
            return {1: Fraction(1)}
        c = const_value(n, table)
        if c is not None:
            return {0: c}
        if isinstance(n, ast.UnaryOp) and isinstance(n.op, (ast.USub, ast.UAdd)):
            a = go(n.operand)
            return None if a is None else ({k: -v for k, v in a.items()} if isinstance(n.op, ast.USub) else a)
        if isinstance(n, ast.BinOp):
            a = go(n.left)
            b = go(n.right)
            if a is None or b is None:
                return None
            if isinstance(n.op, (ast.Add, ast.Sub)):
                out = dict(a)
                for k, v in b.items():
                    out[k] = out.get(k, 0) + (v if isinstance(n.op, ast.Add) else -v)
                return out
            if isinstance(n.op, ast.Mult):
                return mul(a, b)
            if isinstance(n.op, ast.Div):
                if set(b) - {0} or not b.get(0):
                    return None
                return {k: v / b[0] for k, v in a.items()}
            if isinstance(n.op, ast.Pow):
                if set(b) - {0} or b.get(0, 0).denominator != 1 or not (0 <= b.get(0, 0) <= max_deg):
                    return None
                out = {0: Fraction(1)}
                for _ in range(int(b[0])):
                    out = mul(out, a)
                    if out is None:
                        return None
                return out
        return None

    res = go(e)
    if res is None:
        return None
    return {k: v for k, v in res.items() if v != 0}


class NotEvaluable(Exception):
    pass


def eval_small(e, env):
    """Evaluate a closed arithmetic / comparison expression over small exact values (ints, Fractions, bools) with
    ``env`` for names.  Supports + - * // % / **, remainder / mod / floor / abs / int, comparisons, and / or / not.
    Used to tabulate finite-domain predicates (a leap-year test over the supported years); raises NotEvaluable."""
    import math
    import operator as op

    B = {ast.Add: op.add, ast.Sub: op.sub, ast.Mult: op.mul, ast.FloorDiv: op.floordiv, ast.Mod: op.mod, ast.Pow: op.pow}
    C = {ast.Lt: op.lt, ast.LtE: op.le, ast.Gt: op.gt, ast.GtE: op.ge, ast.Eq: op.eq, ast.NotEq: op.ne}
    if isinstance(e, ast.Constant) and isinstance(e.value, (int, float, bool)):
        return Fraction(e.value) if isinstance(e.value, float) else e.value
    if isinstance(e, ast.Name):
        if e.id in env:
            return env[e.id]
        raise NotEvaluable(e.id)
    if isinstance(e, ast.UnaryOp):
        v = eval_small(e.operand, env)
        if isinstance(e.op, ast.Not):
            return not v
        if isinstance(e.op, ast.USub):
            return -v
        if isinstance(e.op, ast.UAdd):
            return v
    if isinstance(e, ast.BinOp):
        a, b = eval_small(e.left, env), eval_small(e.right, env)
        if type(e.op) in B:
            return B[type(e.op)](a, b)
        if isinstance(e.op, ast.Div):
            return Fraction(a) / Fraction(b)
        if isinstance(e.op, (ast.BitAnd, ast.BitOr)) and isinstance(a, bool) and isinstance(b, bool):
            return (a and b) if isinstance(e.op, ast.BitAnd) else (a or b)
    if isinstance(e, ast.BoolOp):
        vals = [eval_small(v, env) for v in e.values]
        return all(vals) if isinstance(e.op, ast.And) else any(vals)
    if isinstance(e, ast.Compare):
        left = eval_small(e.left, env)
        for o, c in zip(e.ops, e.comparators):
            right = eval_small(c, env)
            if type(o) not in C or not C[type(o)](left, right):
                if type(o) not in C:
                    raise NotEvaluable(ast.dump(o))
                return False
            left = right
        return True
    if isinstance(e, ast.Call):
        nm = e.func.attr if isinstance(e.func, ast.Attribute) else getattr(e.func, "id", None)
        args = [eval_small(a, env) for a in e.args]
        if nm in ("remainder", "mod", "fmod") and len(args) == 2:
            return args[0] % args[1]
        if nm == "floor" and len(args) == 1:
            return math.floor(args[0])
        if nm in ("abs", "fabs") and len(args) == 1:
            return abs(args[0])
        if nm == "int" and len(args) == 1:
            return int(args[0])
    raise NotEvaluable(ast.dump(e)[:60])


def expand_poly(e, table=None, max_terms=4000):
    """Fully expanded multivariate polynomial of ``e`` over opaque atoms with exact rational coefficients:
    {monomial: Fraction} where a monomial is a sorted tuple of atom keys.  + - * are distributed, division by a
    constant folds, integer powers expand; names, attributes, subscripts, calls (with recursively expanded
    arguments) and quotients by non-constants are atoms.  Two expressions with equal expansions are equal as real
    functions whatever the atoms mean (so `floor` may stay uninterpreted)."""
    table = table or {}

    def key_of(poly):
        return tuple(sorted((m, (c.numerator, c.denominator)) for m, c in poly.items()))

    def atom(n):
        if isinstance(n, ast.Call):
            nm = ast.unparse(n.func)
            return ("call", nm, tuple(key_of(go(a)) for a in n.args), tuple((k.arg, key_of(go(k.value))) for k in n.keywords))
        if isinstance(n, ast.BinOp) and isinstance(n.op, ast.Div):
            return ("div", key_of(go(n.left)), key_of(go(n.right)))
        if isinstance(n, ast.BinOp) and isinstance(n.op, ast.Pow):
            return ("pow", key_of(go(n.left)), key_of(go(n.right)))
        if isinstance(n, ast.Subscript):
            return ("sub", ast.unparse(n))
        return ("atom", ast.unparse(n))

    def mul(a, b):
        out = {}
        for m1, c1 in a.items():
            for m2, c2 in b.items():
                m = tuple(sorted(m1 + m2))
                out[m] = out.get(m, 0) + c1 * c2
        if len(out) > max_terms:
            raise NotEvaluable("polynomial too large")
        return {m: c for m, c in out.items() if c != 0}

    def go(n):
        c = const_value(n, table)
        if c is not None:
            return {(): c} if c != 0 else {}
        if isinstance(n, ast.UnaryOp) and isinstance(n.op, (ast.USub, ast.UAdd)):
            a = go(n.operand)
            return {m: -v for m, v in a.items()} if isinstance(n.op, ast.USub) else a
        if isinstance(n, ast.BinOp):
            if isinstance(n.op, (ast.Add, ast.Sub)):
                a, b = go(n.left), go(n.right)
                out = dict(a)
                for m, v in b.items():
                    out[m] = out.get(m, 0) + (v if isinstance(n.op, ast.Add) else -v)
                return {m: v for m, v in out.items() if v != 0}
            if isinstance(n.op, ast.Mult):
                return mul(go(n.left), go(n.right))
            if isinstance(n.op, ast.Div):
                d = const_value(n.right, table)
                if d is not None and d != 0:
                    return {m: v / d for m, v in go(n.left).items()}
            if isinstance(n.op, ast.Pow):
                k = const_value(n.right, table)
                if k is not None and k.denominator == 1 and 0 <= k <= 8:
                    out = {(): Fraction(1)}
                    base = go(n.left)
                    for _ in range(int(k)):
                        out = mul(out, base)
                    return out
        return {(atom(n),): Fraction(1)}

    return go(e)


def sym_exec(stmts, env=None):
    """Symbolic execution of straight-line assignments to plain names (and `x op= e`): returns name -> expression
    over the values the names had before the block.  Anything else raises NotEvaluable."""
    import copy

    env = dict(env or {})

    class S(ast.NodeTransformer):
        def visit_Name(self, n):
            return copy.deepcopy(env[n.id]) if isinstance(n.ctx, ast.Load) and n.id in env else n

    for st in stmts:
        if isinstance(st, ast.Expr) and isinstance(st.value, ast.Constant):
            continue
        if isinstance(st, ast.Pass):
            continue
        if isinstance(st, (ast.Assign, ast.AnnAssign)) and (st.value is not None):
            tg = st.targets[0] if isinstance(st, ast.Assign) else st.target
            if isinstance(tg, ast.Name) and (not isinstance(st, ast.Assign) or len(st.targets) == 1):
                env[tg.id] = S().visit(copy.deepcopy(st.value))
                continue
        if isinstance(st, ast.AugAssign) and isinstance(st.target, ast.Name):
            cur = env.get(st.target.id, ast.Name(id=st.target.id, ctx=ast.Load()))
            env[st.target.id] = ast.BinOp(left=copy.deepcopy(cur), op=st.op, right=S().visit(copy.deepcopy(st.value)))
            continue
        raise NotEvaluable(f"statement not modelled: {ast.unparse(st)[:60]}")
    return env


def _bind_walrus(cond, env):
    """`(x := E) < 0` as a path condition: bind x to E (already substituted) in `env`, return the condition with the
    assignment expression replaced by its value."""
    import copy

    class W(ast.NodeTransformer):
        def visit_NamedExpr(self, n):
            v = self.visit(n.value)
            if isinstance(n.target, ast.Name):
                env[n.target.id] = copy.deepcopy(v)
            return v

    return W().visit(cond)


def returned_exprs(fi, max_paths=64):
    """Every expression a loop-free function can return, as an expression over its parameters / attributes: for each
    path to a `return`, the assignments to plain names on the path are substituted (straight-line symbolic
    execution) and conditional expressions are split into their alternatives.  Returns a list of (expr, conditions)
    with conditions the list of (test expr, polarity) met on the path; raises NotEvaluable when the function has
    loops or more than ``max_paths`` paths."""
    import copy

    from rsa.cfg import cfg_of

    cfg = cfg_of(fi)
    if any(n.kind == "loop" or n.label == "while-head" for n in cfg.nodes):
        raise NotEvaluable("function has a loop")
    rets = [n.id for n in cfg.nodes if n.kind == "return"]
    out = []
    paths = cfg.paths(targets=rets, max_visits=1, limit=max_paths + 1)
    if len(paths) > max_paths:
        raise NotEvaluable("too many paths")
    for path in paths:
        env = {}
        conds = []

        class S(ast.NodeTransformer):
            def visit_Name(self, n):
                return copy.deepcopy(env[n.id]) if isinstance(n.ctx, ast.Load) and n.id in env else n

        for nid, lab in path:
            node = cfg.nodes[nid]
            st = node.ast
            if node.kind == "cond" and st is not None:
                conds.append((_bind_walrus(S().visit(copy.deepcopy(st)), env), lab))
            elif node.kind == "stmt" and isinstance(st, (ast.Assign, ast.AnnAssign)) and getattr(st, "value", None) is not None:
                tg = st.targets[0] if isinstance(st, ast.Assign) else st.target
                if isinstance(tg, ast.Name) and (not isinstance(st, ast.Assign) or len(st.targets) == 1):
                    env[tg.id] = S().visit(copy.deepcopy(st.value))
                elif isinstance(tg, ast.Tuple) and isinstance(st.value, ast.Tuple) and len(tg.elts) == len(st.value.elts) and all(isinstance(x, ast.Name) for x in tg.elts):
                    vals = [S().visit(copy.deepcopy(v)) for v in st.value.elts]
                    for x, v in zip(tg.elts, vals):
                        env[x.id] = v
                elif isinstance(tg, ast.Tuple) and isinstance(st.value, (ast.Name, ast.Attribute, ast.Subscript)) and all(isinstance(x, ast.Name) for x in tg.elts):
                    base = S().visit(copy.deepcopy(st.value))
                    for i, x in enumerate(tg.elts):
                        env[x.id] = ast.Subscript(value=copy.deepcopy(base), slice=ast.Constant(value=i), ctx=ast.Load())
            elif node.kind == "stmt" and isinstance(st, ast.AugAssign) and isinstance(st.target, ast.Name):
                cur = env.get(st.target.id, ast.Name(id=st.target.id, ctx=ast.Load()))
                env[st.target.id] = ast.BinOp(left=copy.deepcopy(cur), op=st.op, right=S().visit(copy.deepcopy(st.value)))
            elif node.kind == "return" and st is not None and st.value is not None:
                out.append((S().visit(copy.deepcopy(st.value)), list(conds)))
    # split conditional expressions (all occurrences of one test take the same branch)
    class Fold(ast.NodeTransformer):
        def visit_BinOp(self, n):
            self.generic_visit(n)
            if isinstance(n.left, ast.Constant) and isinstance(n.right, ast.Constant) and isinstance(n.left.value, int) and isinstance(n.right.value, int) and not isinstance(n.left.value, bool) and isinstance(n.op, (ast.Add, ast.Sub, ast.Mult)):
                v = {ast.Add: n.left.value + n.right.value, ast.Sub: n.left.value - n.right.value, ast.Mult: n.left.value * n.right.value}[type(n.op)]
                return ast.copy_location(ast.Constant(value=v), n)
            return n

    final = []
    for e, conds in out:
        work = [(e, conds)]
        while work:
            x, cs = work.pop()
            ife = next((n for n in ast.walk(x) if isinstance(n, ast.IfExp)), None)
            if ife is None or len(final) + len(work) > 4 * max_paths:
                final.append((Fold().visit(copy.deepcopy(x)), cs))
                continue
            ttxt = ast.unparse(ife.test)
            for pol in (True, False):

                class R2(ast.NodeTransformer):
                    def visit_IfExp(self, n):
                        n = self.generic_visit(n)
                        if isinstance(n, ast.IfExp) and ast.unparse(n.test) == ttxt:
                            return n.body if pol else n.orelse
                        return n

                work.append((R2().visit(copy.deepcopy(x)), cs + [(copy.deepcopy(ife.test), pol)]))
    return final


def path_states(fi, max_paths=64, track_attrs=True):
    """Symbolic state at every exit of a loop-free function: list of dicts with `env` (name or attribute-chain text
    -> expression over the entry values), `conds` ((test expr, polarity) met on the way, conditional expressions
    split) and `ret` (returned expression or None).  Straight-line assignments and augmented assignments to plain
    names and (with ``track_attrs``) to attribute chains such as ``self.time`` are substituted."""
    import copy

    from rsa.cfg import cfg_of

    cfg = cfg_of(fi)
    if any(n.kind == "loop" or n.label == "while-head" for n in cfg.nodes):
        raise NotEvaluable("function has a loop")
    targets = [n.id for n in cfg.nodes if n.kind == "return"] + [cfg.exit.id]
    paths = cfg.paths(targets=targets, max_visits=1, limit=max_paths + 1)
    if len(paths) > max_paths:
        raise NotEvaluable("too many paths")
    raw = []
    for path in paths:
        env = {}
        conds = []

        class S(ast.NodeTransformer):
            def visit_Name(self, n):
                return copy.deepcopy(env[n.id]) if isinstance(n.ctx, ast.Load) and n.id in env else n

            def visit_Attribute(self, n):
                if isinstance(n.ctx, ast.Load) and track_attrs:
                    k = ast.unparse(n)
                    if k in env:
                        return copy.deepcopy(env[k])
                return self.generic_visit(n)

        def key(tg):
            if isinstance(tg, ast.Name):
                return tg.id
            if track_attrs and isinstance(tg, ast.Attribute) and all(isinstance(x, (ast.Attribute, ast.Name, ast.Load, ast.Store)) for x in ast.walk(tg)):
                return ast.unparse(tg)
            return None

        ret = None
        for nid, lab in path:
            node = cfg.nodes[nid]
            st = node.ast
            if node.kind == "cond" and st is not None:
                conds.append((_bind_walrus(S().visit(copy.deepcopy(st)), env), lab))
            elif node.kind == "stmt" and isinstance(st, (ast.Assign, ast.AnnAssign)) and getattr(st, "value", None) is not None:
                tgs = st.targets if isinstance(st, ast.Assign) else [st.target]
                if len(tgs) == 1 and key(tgs[0]) is not None:
                    env[key(tgs[0])] = S().visit(copy.deepcopy(st.value))
                elif len(tgs) == 1 and isinstance(tgs[0], ast.Tuple) and all(key(x) is not None for x in tgs[0].elts):
                    if isinstance(st.value, ast.Tuple) and len(st.value.elts) == len(tgs[0].elts):
                        vals = [S().visit(copy.deepcopy(v)) for v in st.value.elts]
                        for x, v in zip(tgs[0].elts, vals):
                            env[key(x)] = v
                    elif isinstance(st.value, (ast.Name, ast.Attribute, ast.Subscript)):
                        base = S().visit(copy.deepcopy(st.value))
                        for i, x in enumerate(tgs[0].elts):
                            env[key(x)] = ast.Subscript(value=copy.deepcopy(base), slice=ast.Constant(value=i), ctx=ast.Load())
            elif node.kind == "stmt" and isinstance(st, ast.AugAssign) and key(st.target) is not None:
                k = key(st.target)
                cur = env.get(k, copy.deepcopy(st.target))
                if isinstance(cur, (ast.Name, ast.Attribute)):
                    cur = copy.deepcopy(cur)
                    for x in ast.walk(cur):
                        if hasattr(x, "ctx"):
                            x.ctx = ast.Load()
                env[k] = ast.BinOp(left=cur, op=st.op, right=S().visit(copy.deepcopy(st.value)))
            elif node.kind == "return" and st is not None:
                ret = S().visit(copy.deepcopy(st.value)) if st.value is not None else None
        raw.append(dict(env=env, conds=conds, ret=ret))
    # split conditional expressions consistently across env / ret of one state
    out = []
    for stt in raw:
        work = [stt]
        while work:
            cur = work.pop()
            exprs = list(cur["env"].values()) + ([cur["ret"]] if cur["ret"] is not None else [])
            ife = next((n for e in exprs for n in ast.walk(e) if isinstance(n, ast.IfExp)), None)
            if ife is None or len(out) + len(work) > 4 * max_paths:
                out.append(cur)
                continue
            ttxt = ast.unparse(ife.test)
            for pol in (True, False):

                class R2(ast.NodeTransformer):
                    def visit_IfExp(self, n):
                        n = self.generic_visit(n)
                        if isinstance(n, ast.IfExp) and ast.unparse(n.test) == ttxt:
                            return n.body if pol else n.orelse
                        return n

                work.append(dict(env={k: R2().visit(copy.deepcopy(v)) for k, v in cur["env"].items()}, conds=cur["conds"] + [(copy.deepcopy(ife.test), pol)], ret=R2().visit(copy.deepcopy(cur["ret"])) if cur["ret"] is not None else None))
    return out


def falsy_param_states(states, param):
    """Those path states that are consistent with ``param`` being None / falsy (the default call)."""
    keep = []
    for s in states:
        ok = True
        for tst, pol in s["conds"]:
            txt = ast.unparse(tst)
            if txt == param and pol is True:
                ok = False
            if txt == f"not {param}" and pol is False:
                ok = False
            if txt in (f"{param} is None",) and pol is False:
                ok = False
            if txt in (f"{param} is not None",) and pol is True:
                ok = False
        if ok:
            keep.append(s)
    return keep


def path_steps(fi, max_paths=64):
    """Every path of a loop-free function to a `return`, as the ordered list of its bindings and conditions, NOT
    inlined: [{"steps": [("bind", name, value expr) | ("cond", test expr, polarity)], "ret": return node}].  Tuple
    assignments are split, augmented assignments become `x = x op v`, assignment expressions inside a condition become
    a binding before it.  Rules evaluate the steps in a domain of their own (e.g. rational-function normal forms with
    one value per local), which avoids the repeated re-normalisation of the fully inlined text."""
    import copy

    from rsa.cfg import cfg_of

    cfg = cfg_of(fi)
    if any(n.kind == "loop" or n.label == "while-head" for n in cfg.nodes):
        raise NotEvaluable("function has a loop")
    rets = [n.id for n in cfg.nodes if n.kind == "return"]
    paths = cfg.paths(targets=rets, max_visits=1, limit=max_paths + 1)
    if len(paths) > max_paths:
        raise NotEvaluable("too many paths")
    out = []
    for path in paths:
        steps = []

        class W(ast.NodeTransformer):
            def visit_NamedExpr(self, n):
                v = self.visit(n.value)
                if isinstance(n.target, ast.Name):
                    steps.append(("bind", n.target.id, copy.deepcopy(v)))
                    return ast.copy_location(ast.Name(id=n.target.id, ctx=ast.Load()), n)
                return v

        ret = None
        for nid, lab in path:
            node = cfg.nodes[nid]
            st = node.ast
            if node.kind == "cond" and st is not None:
                steps.append(("cond", W().visit(copy.deepcopy(st)), lab))
            elif node.kind == "stmt" and isinstance(st, (ast.Assign, ast.AnnAssign)) and getattr(st, "value", None) is not None:
                tgs = st.targets if isinstance(st, ast.Assign) else [st.target]
                val = W().visit(copy.deepcopy(st.value))
                for tg in tgs:
                    if isinstance(tg, ast.Name):
                        steps.append(("bind", tg.id, val))
                    elif isinstance(tg, (ast.Tuple, ast.List)) and all(isinstance(x, ast.Name) for x in tg.elts):
                        if isinstance(val, (ast.Tuple, ast.List)) and len(val.elts) == len(tg.elts):
                            # parallel assignment: all right-hand sides see the old values
                            tmp = [(f"__par{len(steps)}_{i}", v) for i, v in enumerate(val.elts)]
                            for nm, v in tmp:
                                steps.append(("bind", nm, v))
                            for x, (nm, _) in zip(tg.elts, tmp):
                                steps.append(("bind", x.id, ast.Name(id=nm, ctx=ast.Load())))
                        else:
                            for i, x in enumerate(tg.elts):
                                steps.append(("bind", x.id, ast.Subscript(value=copy.deepcopy(val), slice=ast.Constant(value=i), ctx=ast.Load())))
                    else:
                        raise NotEvaluable(f"assignment target not modelled: {ast.unparse(tg)[:40]}")
            elif node.kind == "stmt" and isinstance(st, ast.AugAssign) and isinstance(st.target, ast.Name):
                steps.append(("bind", st.target.id, ast.BinOp(left=ast.Name(id=st.target.id, ctx=ast.Load()), op=st.op, right=W().visit(copy.deepcopy(st.value)))))
            elif node.kind == "return" and st is not None:
                ret = st
        out.append({"steps": steps, "ret": ret})
    # conditional expressions inside bindings / the return value are split into their alternatives (a condition step
    # before the binding), like `returned_exprs` does
    final = []
    work = list(out)
    while work:
        pth = work.pop()
        hit = None
        for i, st in enumerate(pth["steps"]):
            if st[0] == "bind":
                ife = next((n for n in ast.walk(st[2]) if isinstance(n, ast.IfExp)), None)
                if ife is not None:
                    hit = (i, ife)
                    break
        if hit is None and pth["ret"] is not None and pth["ret"].value is not None:
            ife = next((n for n in ast.walk(pth["ret"].value) if isinstance(n, ast.IfExp)), None)
            if ife is not None:
                hit = (len(pth["steps"]), ife)
        if hit is None or len(final) + len(work) > 4 * max_paths:
            final.append(pth)
            continue
        i, ife = hit
        ttxt = ast.unparse(ife.test)
        for pol in (True, False):

            class R2(ast.NodeTransformer):
                def visit_IfExp(self, n):
                    n = self.generic_visit(n)
                    if isinstance(n, ast.IfExp) and ast.unparse(n.test) == ttxt:
                        return n.body if pol else n.orelse
                    return n

            steps = list(pth["steps"])
            ret = pth["ret"]
            if i < len(steps):
                steps[i] = ("bind", steps[i][1], R2().visit(copy.deepcopy(steps[i][2])))
            else:
                ret = copy.deepcopy(ret)
                ret.value = R2().visit(ret.value)
            steps.insert(i, ("cond", copy.deepcopy(ife.test), pol))
            work.append({"steps": steps, "ret": ret})
    return final
