"""Path-sensitive "generation" typestate over self-fields.

Every assignment to the designated *generation field* (e.g. ``self.sigma_points``) opens a new
generation; every other self-field / local carries the set of generations it was computed from
(transitively, through inlined self-method calls).  Rules inspect, at chosen statements, the
generation sets of the operands that meet there.

Paths are enumerated on the statement CFG (loops taken 0 and 1 times); self-method calls are inlined
up to a depth bound.  No code is executed.
"""

from __future__ import annotations

import ast

from .cfg import cfg_of
from .model import Undecided, walk_no_nested


class State:
    __slots__ = ("fields", "locals", "gen", "conds", "events")

    def __init__(self):
        self.fields = {}  # field -> frozenset of generation ids
        self.locals = {}
        self.gen = 0
        self.conds = ()
        self.events = ()

    def copy(self):
        s = State()
        s.fields = dict(self.fields)
        s.locals = dict(self.locals)
        s.gen = self.gen
        s.conds = self.conds
        s.events = self.events
        return s

    def key(self):
        return (tuple(sorted(self.fields.items())), tuple(sorted(self.locals.items())), self.gen, self.conds, len(self.events))


class GenInterp:
    def __init__(self, project, tenv, cls, gen_field, max_depth=4, watch=None):
        self.p, self.t, self.cls = project, tenv, cls
        self.gen_field = gen_field
        self.max_depth = max_depth
        self.watch = watch or (lambda fi, node, reads, state: None)
        self.paths_enumerated = 0

    # ------------------------------------------------------------ expression deps
    def _self_method(self, call, fi):
        f = call.func
        if isinstance(f, ast.Attribute) and isinstance(f.value, ast.Name) and f.value.id == fi.params[0] and fi.cls is not None:
            return self.p.lookup_method(self.cls, f.attr)
        return None

    def _reads_of_method(self, m, depth, seen=None):
        """Self-fields read (transitively) by a method."""
        seen = seen or set()
        if m.qualname in seen or depth <= 0:
            return set()
        seen.add(m.qualname)
        out = set()
        sn = m.params[0] if m.params else "self"
        for n in walk_no_nested(m.node):
            if isinstance(n, ast.Attribute) and isinstance(n.value, ast.Name) and n.value.id == sn and isinstance(n.ctx, ast.Load):
                mm = self.p.lookup_method(self.cls, n.attr)
                if mm is not None and mm.kind == "property":
                    out |= self._reads_of_method(mm, depth - 1, seen)
                elif mm is None:
                    out.add(n.attr)
            if isinstance(n, ast.Call):
                mm = self._self_method(n, m)
                if mm is not None:
                    out |= self._reads_of_method(mm, depth - 1, seen)
        return out

    def _writes_of_method(self, m, depth, seen=None):
        seen = seen or set()
        if m.qualname in seen or depth <= 0:
            return set()
        seen.add(m.qualname)
        out = set()
        sn = m.params[0] if m.params else "self"
        for n in walk_no_nested(m.node):
            if isinstance(n, ast.Attribute) and isinstance(n.value, ast.Name) and n.value.id == sn and isinstance(n.ctx, ast.Store):
                out.add(n.attr)
            if isinstance(n, ast.Call):
                mm = self._self_method(n, m)
                if mm is not None:
                    out |= self._writes_of_method(mm, depth - 1, seen)
        return out

    def deps(self, e, fi, st: State, reads=None):
        """Generation set of an expression; ``reads`` collects field -> gens of the fields read."""
        out = frozenset()
        sn = fi.params[0] if fi.params else "self"
        for n in walk_no_nested(e) if not isinstance(e, (ast.Lambda,)) else []:
            if isinstance(n, ast.Attribute) and isinstance(n.value, ast.Name) and n.value.id == sn and isinstance(n.ctx, ast.Load):
                mm = self.p.lookup_method(self.cls, n.attr) if fi.cls is not None else None
                if mm is not None and mm.kind == "property":
                    for f in self._reads_of_method(mm, 3):
                        g = st.fields.get(f, frozenset())
                        out |= g
                        if reads is not None:
                            reads[f] = g
                elif mm is None:
                    g = st.fields.get(n.attr, frozenset())
                    out |= g
                    if reads is not None:
                        reads[n.attr] = g
            elif isinstance(n, ast.Name) and isinstance(n.ctx, ast.Load) and n.id in st.locals:
                out |= st.locals[n.id]
            elif isinstance(n, ast.Call):
                mm = self._self_method(n, fi)
                if mm is not None:
                    for f in self._reads_of_method(mm, 4):
                        g = st.fields.get(f, frozenset())
                        out |= g
                        if reads is not None:
                            reads[f] = g
        return out

    # ------------------------------------------------------------ execution
    def exec_fn(self, fi, st: State, depth):
        cfg = cfg_of(fi)
        paths = cfg.paths(limit=4000)
        self.paths_enumerated += len(paths)
        outs = {}
        for path in paths:
            if path and path[-1][0] == cfg.raise_exit.id:
                continue
            states = [st.copy()]
            for nid, lab in path:
                node = cfg.nodes[nid]
                nxt = []
                for s in states:
                    nxt.extend(self.exec_node(fi, node, lab, s, depth))
                # dedupe
                uniq = {}
                for s in nxt:
                    uniq[s.key()] = s
                states = list(uniq.values())
            for s in states:
                s2 = s.copy()
                s2.locals = dict(st.locals)  # callee locals vanish
                outs[s2.key()] = s2
        return list(outs.values())

    def exec_node(self, fi, node, label, st: State, depth):
        a = node.ast
        if a is None:
            return [st]
        if node.kind == "cond":
            try:
                txt = ast.unparse(a)
            except Exception:  # pragma: no cover
                txt = "?"
            if "self." in txt and len(txt) < 60:
                st = st.copy()
                st.conds = st.conds + ((txt, label),)
            return [st]
        if node.kind == "loop":
            st = st.copy()
            d = self.deps(a.iter, fi, st)
            for n in ast.walk(a.target):
                if isinstance(n, ast.Name):
                    st.locals[n.id] = d
            return [st]
        if node.kind in ("stmt", "return"):
            return self.exec_stmt(fi, a, st, depth)
        return [st]

    def exec_stmt(self, fi, a, st: State, depth):
        sn = fi.params[0] if fi.params else "self"
        # statement-level self-method call: inline
        if isinstance(a, ast.Expr) and isinstance(a.value, ast.Call):
            m = self._self_method(a.value, fi)
            if m is not None and depth > 0 and m.kind in ("method",):
                return self.exec_fn(m, st, depth - 1)
            return [st]
        if isinstance(a, (ast.Assign, ast.AnnAssign, ast.AugAssign)):
            value = a.value
            if value is None:
                return [st]
            targets = a.targets if isinstance(a, ast.Assign) else [a.target]
            reads = {}
            states = [st]
            # value is a self-method call with side effects on self: inline it first
            if isinstance(value, ast.Call):
                m = self._self_method(value, fi)
                if m is not None and depth > 0 and self._writes_of_method(m, 3):
                    states = self.exec_fn(m, st, depth - 1)
            outs = []
            for s in states:
                s = s.copy()
                reads = {}
                d = self.deps(value, fi, s, reads)
                self.watch(fi, a, reads, s)
                for tg in targets:
                    self._assign(tg, d, a, fi, s, sn, isinstance(a, ast.AugAssign))
                outs.append(s)
            return outs
        if isinstance(a, ast.Return):
            return [st]
        return [st]

    def _assign(self, tg, d, stmt, fi, s: State, sn, aug):
        if isinstance(tg, ast.Name):
            s.locals[tg.id] = (s.locals.get(tg.id, frozenset()) | d) if aug else d
        elif isinstance(tg, ast.Attribute) and isinstance(tg.value, ast.Name) and tg.value.id == sn:
            if tg.attr == self.gen_field and not aug:
                s.gen += 1
                s.fields[tg.attr] = frozenset({s.gen})
                s.events = s.events + ((tg.attr, s.gen, getattr(stmt, "lineno", 0)),)
            else:
                s.fields[tg.attr] = (s.fields.get(tg.attr, frozenset()) | d) if aug else d
        elif isinstance(tg, ast.Subscript):
            base = tg.value
            if isinstance(base, ast.Attribute) and isinstance(base.value, ast.Name) and base.value.id == sn:
                s.fields[base.attr] = s.fields.get(base.attr, frozenset()) | d
            elif isinstance(base, ast.Name):
                s.locals[base.id] = s.locals.get(base.id, frozenset()) | d
        elif isinstance(tg, (ast.Tuple, ast.List)):
            for x in tg.elts:
                self._assign(x, d, stmt, fi, s, sn, aug)


_ = Undecided
