"""Program model: parse every module of the package, build module/class/function tables,
import-alias resolution, MRO, properties, class constants.

Everything is read from source text with ``ast``; the analysed package is never imported.
"""

from __future__ import annotations

import ast
import hashlib
import os
from dataclasses import dataclass, field


class AnchorError(Exception):
    """An anchor (module / class / function / attribute) named by a rule table no longer resolves."""


class Undecided(Exception):
    """The anchored construct exists but has a shape the rule's idiom table does not cover."""

    def __init__(self, msg, node=None):
        super().__init__(msg)
        self.node = node


class LooseEquality(Undecided):
    """An equality between two times / values is decided by a relative- or wide-tolerance test (numpy.isclose,
    math.isclose, allclose): not an ordering fact - values a whole tolerance apart count as equal.  Rules that
    evaluate predicates on orderings report this as a violation of the convention they check."""


@dataclass
class FunctionInfo:
    qualname: str
    name: str
    node: ast.FunctionDef
    module: "ModuleInfo"
    cls: "ClassInfo | None" = None
    kind: str = "function"  # function | method | property | setter | classmethod | staticmethod
    parent: "FunctionInfo | None" = None  # enclosing function for nested defs

    @property
    def params(self):
        a = self.node.args
        names = [x.arg for x in a.posonlyargs + a.args]
        return names

    @property
    def all_params(self):
        a = self.node.args
        names = [x.arg for x in a.posonlyargs + a.args + a.kwonlyargs]
        if a.vararg:
            names.append(a.vararg.arg)
        if a.kwarg:
            names.append(a.kwarg.arg)
        return names

    def param_annotation(self, name):
        a = self.node.args
        for x in a.posonlyargs + a.args + a.kwonlyargs:
            if x.arg == name:
                return x.annotation
        return None

    @property
    def file(self):
        return self.module.relpath

    @property
    def lineno(self):
        return self.node.lineno

    def loc(self, node=None):
        n = node if node is not None else self.node
        return f"{self.module.relpath}:{int(getattr(n, 'lineno', self.node.lineno))}"

    def __hash__(self):
        return hash(self.qualname)

    def __eq__(self, other):
        return isinstance(other, FunctionInfo) and other.qualname == self.qualname

    def __repr__(self):
        return f"<fn {self.qualname}>"


@dataclass
class ClassInfo:
    qualname: str
    name: str
    node: ast.ClassDef
    module: "ModuleInfo"
    base_exprs: list = field(default_factory=list)
    bases: list = field(default_factory=list)  # qualified names (repo-internal or external dotted)
    methods: dict = field(default_factory=dict)  # name -> FunctionInfo (getter for properties)
    setters: dict = field(default_factory=dict)  # name -> FunctionInfo
    class_attrs: dict = field(default_factory=dict)  # name -> value node (Assign/AnnAssign at class level)
    class_annots: dict = field(default_factory=dict)  # name -> annotation node

    def __hash__(self):
        return hash(self.qualname)

    def __eq__(self, other):
        return isinstance(other, ClassInfo) and other.qualname == self.qualname

    def __repr__(self):
        return f"<class {self.qualname}>"

    def loc(self, node=None):
        n = node if node is not None else self.node
        return f"{self.module.relpath}:{int(n.lineno)}"


@dataclass
class ModuleInfo:
    name: str
    path: str
    relpath: str
    source: str
    tree: ast.Module
    is_package: bool
    imports: dict = field(default_factory=dict)  # local name -> qualified dotted target
    functions: dict = field(default_factory=dict)  # name -> FunctionInfo
    classes: dict = field(default_factory=dict)  # name -> ClassInfo
    assigns: dict = field(default_factory=dict)  # top-level name -> value node
    sha: str = ""

    def __hash__(self):
        return hash(self.name)

    def __eq__(self, other):
        return isinstance(other, ModuleInfo) and other.name == self.name


def _decorator_names(node):
    out = []
    for d in node.decorator_list:
        if isinstance(d, ast.Call):
            d = d.func
        try:
            out.append(ast.unparse(d))
        except Exception:  # pragma: no cover
            out.append("?")
    return out


class Project:
    PKG = "resonaate"

    def __init__(self, repo="/repo", alpha=True):
        self.repo = os.path.abspath(repo)
        self.src = os.path.join(self.repo, "src")
        self.modules: dict[str, ModuleInfo] = {}
        self.classes: dict[str, ClassInfo] = {}
        self.functions: dict[str, FunctionInfo] = {}
        self.consulted: set[str] = set()
        self._subclass_cache = None
        self._mro_cache = {}
        self._parse_all()
        self._link()
        self.alpha_stats = {}
        if alpha:
            from rsa import alpha as _alpha

            self.alpha_stats = _alpha.normalise(self)

    # ------------------------------------------------------------------ parsing
    def _parse_all(self):
        root = os.path.join(self.src, self.PKG)
        if not os.path.isdir(root):
            raise AnchorError(f"package directory {root} not found")
        for dirpath, dirnames, filenames in os.walk(root):
            dirnames.sort()
            for fn in sorted(filenames):
                if not fn.endswith(".py"):
                    continue
                path = os.path.join(dirpath, fn)
                rel = os.path.relpath(path, self.src)
                parts = rel[:-3].split(os.sep)
                is_pkg = parts[-1] == "__init__"
                if is_pkg:
                    parts = parts[:-1]
                name = ".".join(parts)
                with open(path, "rb") as fh:
                    raw = fh.read()
                src = raw.decode("utf-8")
                import warnings

                with warnings.catch_warnings():
                    warnings.simplefilter("ignore")
                    tree = ast.parse(src, filename=path)
                mod = ModuleInfo(
                    name=name,
                    path=path,
                    relpath=os.path.relpath(path, self.repo),
                    source=src,
                    tree=tree,
                    is_package=is_pkg,
                    sha=hashlib.sha256(raw).hexdigest(),
                )
                self.modules[name] = mod
                self._index_module(mod)

    def _rel_base(self, mod: ModuleInfo, level: int):
        parts = mod.name.split(".")
        if not mod.is_package:
            parts = parts[:-1]
        if level > 1:
            parts = parts[: len(parts) - (level - 1)]
        return ".".join(parts)

    def _index_imports(self, mod, body):
        for st in body:
            if isinstance(st, ast.Import):
                for a in st.names:
                    if a.asname:
                        mod.imports[a.asname] = a.name
                    else:
                        mod.imports[a.name.split(".")[0]] = a.name.split(".")[0]
            elif isinstance(st, ast.ImportFrom):
                if st.level:
                    base = self._rel_base(mod, st.level)
                    target = base + ("." + st.module if st.module else "")
                else:
                    target = st.module or ""
                for a in st.names:
                    if a.name == "*":
                        continue
                    mod.imports[a.asname or a.name] = f"{target}.{a.name}"
            elif isinstance(st, ast.If):
                # TYPE_CHECKING blocks and the like
                self._index_imports(mod, st.body)
                self._index_imports(mod, st.orelse)
            elif isinstance(st, ast.Try):
                self._index_imports(mod, st.body)
                for h in st.handlers:
                    self._index_imports(mod, h.body)

    def _index_module(self, mod: ModuleInfo):
        self._index_imports(mod, mod.tree.body)
        for st in mod.tree.body:
            if isinstance(st, (ast.FunctionDef, ast.AsyncFunctionDef)):
                fi = FunctionInfo(f"{mod.name}.{st.name}", st.name, st, mod)
                mod.functions[st.name] = fi
                self.functions[fi.qualname] = fi
                self._index_nested(fi)
            elif isinstance(st, ast.ClassDef):
                self._index_class(mod, st)
            elif isinstance(st, ast.Assign):
                for t in st.targets:
                    if isinstance(t, ast.Name):
                        mod.assigns[t.id] = st.value
            elif isinstance(st, ast.AnnAssign) and isinstance(st.target, ast.Name) and st.value is not None:
                mod.assigns[st.target.id] = st.value

    def _index_nested(self, fi: FunctionInfo):
        for st in ast.walk(fi.node):
            if st is fi.node:
                continue
            if isinstance(st, (ast.FunctionDef, ast.AsyncFunctionDef)):
                q = f"{fi.qualname}.<locals>.{st.name}"
                if q not in self.functions:
                    self.functions[q] = FunctionInfo(q, st.name, st, fi.module, fi.cls, "nested", fi)

    def _index_class(self, mod, node: ast.ClassDef, prefix=""):
        q = f"{mod.name}.{prefix}{node.name}"
        ci = ClassInfo(q, node.name, node, mod, base_exprs=list(node.bases))
        if not prefix:
            mod.classes[node.name] = ci
        self.classes[q] = ci
        for st in node.body:
            if isinstance(st, (ast.FunctionDef, ast.AsyncFunctionDef)):
                decs = _decorator_names(st)
                kind = "method"
                if "property" in decs or any(d.endswith("cached_property") for d in decs):
                    kind = "property"
                elif any(d.endswith(".setter") for d in decs):
                    kind = "setter"
                elif "classmethod" in decs:
                    kind = "classmethod"
                elif "staticmethod" in decs:
                    kind = "staticmethod"
                if kind == "setter":
                    fi = FunctionInfo(f"{q}.{st.name}.setter", st.name, st, mod, ci, kind)
                    ci.setters[st.name] = fi
                elif any(d.endswith(".register") for d in decs):
                    fi = FunctionInfo(f"{q}.{st.name}", st.name, st, mod, ci, kind)
                    ci.methods[st.name] = fi
                else:
                    fi = FunctionInfo(f"{q}.{st.name}", st.name, st, mod, ci, kind)
                    ci.methods[st.name] = fi
                self.functions[fi.qualname] = fi
                self._index_nested(fi)
            elif isinstance(st, ast.Assign):
                for t in st.targets:
                    if isinstance(t, ast.Name):
                        ci.class_attrs[t.id] = st.value
            elif isinstance(st, ast.AnnAssign) and isinstance(st.target, ast.Name):
                ci.class_annots[st.target.id] = st.annotation
                if st.value is not None:
                    ci.class_attrs[st.target.id] = st.value
            elif isinstance(st, ast.ClassDef):
                self._index_class(mod, st, prefix=f"{prefix}{node.name}.")

    # ------------------------------------------------------------------ linking
    def _link(self):
        for ci in self.classes.values():
            ci.bases = []
            for b in ci.base_exprs:
                if isinstance(b, ast.Subscript):
                    b = b.value
                try:
                    txt = ast.unparse(b)
                except Exception:  # pragma: no cover
                    continue
                ci.bases.append(self.resolve_dotted(ci.module, txt))

    def resolve_dotted(self, mod: ModuleInfo, dotted: str) -> str:
        """Resolve a (possibly dotted) name used in ``mod`` to a fully qualified name.

        Repo-internal targets are followed through re-exports to their defining module.
        Unknown names are returned unchanged (builtins, locals).
        """
        head, _, rest = dotted.partition(".")
        if head in mod.classes:
            q = mod.classes[head].qualname
        elif head in mod.functions:
            q = mod.functions[head].qualname
        elif head in mod.imports:
            q = mod.imports[head]
        elif head in mod.assigns:
            q = f"{mod.name}.{head}"
        else:
            return dotted
        if rest:
            q = f"{q}.{rest}"
        return self.canonical(q)

    def canonical(self, q: str, _depth=0) -> str:
        """Follow re-exports: ``resonaate.data.getDBConnection`` -> defining qualname."""
        if _depth > 8 or not q.startswith(self.PKG):
            return q
        if q in self.classes or q in self.functions or q in self.modules:
            return q
        # longest module prefix
        parts = q.split(".")
        for i in range(len(parts) - 1, 0, -1):
            mname = ".".join(parts[:i])
            if mname in self.modules:
                mod = self.modules[mname]
                head = parts[i]
                rest = parts[i + 1 :]
                if head in mod.classes or head in mod.functions or head in mod.assigns:
                    return q
                sub = f"{mname}.{head}"
                if sub in self.modules:
                    continue
                if head in mod.imports:
                    tgt = mod.imports[head]
                    if rest:
                        tgt = tgt + "." + ".".join(rest)
                    if tgt == q:
                        return q
                    return self.canonical(tgt, _depth + 1)
                return q
        return q

    # ------------------------------------------------------------------ lookup
    def module(self, name: str) -> ModuleInfo:
        if not name.startswith(self.PKG):
            name = f"{self.PKG}.{name}"
        m = self.modules.get(name)
        if m is None:
            raise AnchorError(f"module {name} not found")
        self.consulted.add(m.name)
        return m

    def cls(self, name: str) -> ClassInfo:
        """Look up a class by qualified name, or by unique short name / dotted suffix."""
        c = self.classes.get(name) or self.classes.get(f"{self.PKG}.{name}")
        if c is None:
            cands = [v for k, v in self.classes.items() if k.endswith("." + name)]
            if len(cands) == 1:
                c = cands[0]
            elif len(cands) > 1:
                raise AnchorError(f"class name {name} is ambiguous: {[x.qualname for x in cands]}")
        if c is None:
            raise AnchorError(f"class {name} not found")
        self.consulted.add(c.module.name)
        return c

    def func(self, name: str) -> FunctionInfo:
        """Look up a function/method by qualified name or unique dotted suffix ("Class.method")."""
        f = self.functions.get(name) or self.functions.get(f"{self.PKG}.{name}")
        if f is None:
            cands = [v for k, v in self.functions.items() if k.endswith("." + name) and "<locals>" not in k]
            if len(cands) == 1:
                f = cands[0]
            elif len(cands) > 1:
                raise AnchorError(f"function name {name} is ambiguous: {[x.qualname for x in cands]}")
        if f is None:
            raise AnchorError(f"function {name} not found")
        self.consulted.add(f.module.name)
        return f

    def has_func(self, name):
        try:
            self.func(name)
            return True
        except AnchorError:
            return False

    # ------------------------------------------------------------------ hierarchy
    def base_classes(self, ci: ClassInfo):
        return [self.classes[b] for b in ci.bases if b in self.classes]

    def mro(self, ci: ClassInfo):
        """C3-like linearisation restricted to repo classes (falls back to DFS order)."""
        if ci.qualname in self._mro_cache:
            return self._mro_cache[ci.qualname]
        seqs = [self.mro(b) for b in self.base_classes(ci)] + [self.base_classes(ci)]
        seqs = [list(s) for s in seqs if s]
        out = [ci]
        while seqs:
            for s in seqs:
                cand = s[0]
                if not any(cand in t[1:] for t in seqs):
                    break
            else:  # inconsistent: fall back
                cand = seqs[0][0]
            out.append(cand)
            seqs = [[x for x in s if x != cand] for s in seqs]
            seqs = [s for s in seqs if s]
        self._mro_cache[ci.qualname] = out
        return out

    def external_bases(self, ci: ClassInfo):
        out = []
        for c in self.mro(ci):
            out += [b for b in c.bases if b not in self.classes]
        return out

    def subclasses(self, ci: ClassInfo, transitive=True, include_self=False):
        if self._subclass_cache is None:
            sc = {}
            for c in self.classes.values():
                for b in c.bases:
                    sc.setdefault(b, []).append(c)
            self._subclass_cache = sc
        out = [ci] if include_self else []
        seen = {ci.qualname}
        work = list(self._subclass_cache.get(ci.qualname, []))
        while work:
            c = work.pop(0)
            if c.qualname in seen:
                continue
            seen.add(c.qualname)
            out.append(c)
            if transitive:
                work += self._subclass_cache.get(c.qualname, [])
        return out

    def is_subclass(self, ci: ClassInfo, base: ClassInfo):
        return base in self.mro(ci)

    def lookup_method(self, ci: ClassInfo, name: str, after: ClassInfo | None = None):
        """Method (or property getter) found through the MRO; ``after`` emulates super()."""
        mro = self.mro(ci)
        if after is not None and after in mro:
            mro = mro[mro.index(after) + 1 :]
        for c in mro:
            if name in c.methods:
                self.consulted.add(c.module.name)
                return c.methods[name]
        return None

    def lookup_setter(self, ci: ClassInfo, name: str):
        for c in self.mro(ci):
            if name in c.setters:
                return c.setters[name]
        return None

    def lookup_class_attr(self, ci: ClassInfo, name: str):
        for c in self.mro(ci):
            if name in c.class_attrs:
                return c, c.class_attrs[name]
        return None, None

    def overriders(self, ci: ClassInfo, name: str):
        """All definitions of method ``name`` in ``ci`` and its subclasses."""
        out = []
        for c in self.subclasses(ci, include_self=True):
            if name in c.methods:
                out.append(c.methods[name])
        return out

    def instance_attrs(self, ci: ClassInfo):
        """Names assigned as ``self.<name>`` anywhere in the class hierarchy (MRO), plus class attrs,
        methods and properties.  Used to decide whether an attribute read can resolve."""
        names = set()
        for c in self.mro(ci):
            names |= set(c.methods) | set(c.setters) | set(c.class_attrs) | set(c.class_annots)
            for fi in list(c.methods.values()) + list(c.setters.values()):
                if not fi.node.args.args:
                    continue
                selfname = fi.node.args.args[0].arg
                for n in ast.walk(fi.node):
                    if (
                        isinstance(n, ast.Attribute)
                        and isinstance(n.ctx, ast.Store)
                        and isinstance(n.value, ast.Name)
                        and n.value.id == selfname
                    ):
                        names.add(n.attr)
        return names

    # ------------------------------------------------------------------ misc
    def digest(self, modules=None):
        h = hashlib.sha256()
        names = sorted(modules if modules is not None else self.modules)
        for n in names:
            m = self.modules.get(n)
            if m is not None:
                h.update(n.encode())
                h.update(m.sha.encode())
        return h.hexdigest()

    def all_functions(self, include_nested=False):
        for q, f in self.functions.items():
            if not include_nested and "<locals>" in q:
                continue
            yield f

    def enum_members(self, ci: ClassInfo):
        """Member names of an Enum-like class (class-level assignments with non-dunder names)."""
        return [k for k in ci.class_attrs if not k.startswith("_")]


# ---------------------------------------------------------------------- small AST helpers
def dotted_name(node):
    """``a.b.c`` -> "a.b.c" for Name/Attribute chains, else None."""
    parts = []
    while isinstance(node, ast.Attribute):
        parts.append(node.attr)
        node = node.value
    if isinstance(node, ast.Name):
        parts.append(node.id)
        return ".".join(reversed(parts))
    return None


def is_self_attr(node, attr=None, selfname="self"):
    return (
        isinstance(node, ast.Attribute)
        and isinstance(node.value, ast.Name)
        and node.value.id == selfname
        and (attr is None or node.attr == attr)
    )


def unparse(node):
    try:
        return ast.unparse(node)
    except Exception:  # pragma: no cover
        return "<?>"


def norm_stmt(node):
    """Normalised statement text used as a finding key (never a line number)."""
    return " ".join(unparse(node).split())


def walk_no_nested(node):
    """ast.walk that does not descend into nested function/class/lambda bodies."""
    todo = [node]
    first = True
    while todo:
        n = todo.pop()
        if not first and isinstance(n, (ast.FunctionDef, ast.AsyncFunctionDef, ast.ClassDef, ast.Lambda)):
            continue
        first = False
        yield n
        todo.extend(reversed(list(ast.iter_child_nodes(n))))


def calls_in(node, include_nested=False):
    it = ast.walk(node) if include_nested else walk_no_nested(node)
    return [n for n in it if isinstance(n, ast.Call)]


def call_name(call):
    """Last component of the callee expression (``a.b.f(...)`` -> "f")."""
    f = call.func
    if isinstance(f, ast.Attribute):
        return f.attr
    if isinstance(f, ast.Name):
        return f.id
    return None


def arg_of(call: ast.Call, fi_or_params, name):
    """Expression bound to parameter ``name`` at ``call`` (positional or keyword), or None."""
    params = fi_or_params.params if hasattr(fi_or_params, "params") else list(fi_or_params)
    for kw in call.keywords:
        if kw.arg == name:
            return kw.value
    if name in params:
        idx = params.index(name)
        if idx < len(call.args) and not any(isinstance(a, ast.Starred) for a in call.args[: idx + 1]):
            return call.args[idx]
    return None
