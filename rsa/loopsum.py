"""Symbolic summary of a straight-line loop body (and of the straight-line prologue / epilogue around it).

`block_env(stmts, env)` executes assignments to plain names and to attribute chains symbolically (like
`terms.sym_exec`, plus tuple unpacking and attribute targets); statements it does not model raise NotEvaluable,
except guard blocks whose body only raises / logs (`if not ok: raise ...`), which are skipped - on the path that
continues they have no effect.  Nothing is executed; the result maps each name to an expression over the values the
names had at block entry, so rules can state facts about *what* a loop carries from one iteration to the next without
depending on how many statements or which local names compute it.
"""

from __future__ import annotations

import ast
import copy

from rsa.terms import NotEvaluable


def _key(tg):
    if isinstance(tg, ast.Name):
        return tg.id
    if isinstance(tg, ast.Attribute) and all(isinstance(x, (ast.Attribute, ast.Name, ast.Load, ast.Store)) for x in ast.walk(tg)):
        return ast.unparse(tg)
    return None


def _only_raises(body):
    for st in body:
        if isinstance(st, ast.Raise):
            continue
        if isinstance(st, ast.Expr) and isinstance(st.value, ast.Call):
            continue  # logging before the raise
        if isinstance(st, ast.Assign) and all(isinstance(t, ast.Name) for t in st.targets):
            continue  # message assembly
        return False
    return any(isinstance(st, ast.Raise) for st in body)


def block_env(stmts, env=None, allow_if=False):
    env = dict(env or {})

    class S(ast.NodeTransformer):
        def visit_Name(self, n):
            return copy.deepcopy(env[n.id]) if isinstance(n.ctx, ast.Load) and n.id in env else n

        def visit_Attribute(self, n):
            if isinstance(n.ctx, ast.Load):
                k = ast.unparse(n)
                if k in env:
                    return copy.deepcopy(env[k])
            return self.generic_visit(n)

    def sub(e):
        return S().visit(copy.deepcopy(e))

    for st in stmts:
        if isinstance(st, ast.Expr) and isinstance(st.value, ast.Constant):
            continue
        if isinstance(st, ast.Pass):
            continue
        if isinstance(st, ast.Expr) and isinstance(st.value, ast.Call):
            continue  # a call for its effect (logging): no binding
        if isinstance(st, (ast.Assign, ast.AnnAssign)) and getattr(st, "value", None) is not None:
            tgs = st.targets if isinstance(st, ast.Assign) else [st.target]
            if len(tgs) == 1 and _key(tgs[0]) is not None:
                env[_key(tgs[0])] = sub(st.value)
                continue
            if len(tgs) == 1 and isinstance(tgs[0], ast.Tuple) and all(_key(x) is not None for x in tgs[0].elts):
                if isinstance(st.value, ast.Tuple) and len(st.value.elts) == len(tgs[0].elts):
                    vals = [sub(v) for v in st.value.elts]
                    for x, v in zip(tgs[0].elts, vals):
                        env[_key(x)] = v
                else:
                    base = sub(st.value)
                    for i, x in enumerate(tgs[0].elts):
                        env[_key(x)] = ast.Subscript(value=copy.deepcopy(base), slice=ast.Constant(value=i), ctx=ast.Load())
                continue
            if len(tgs) == 1 and isinstance(tgs[0], ast.Subscript):
                continue  # element store: the container name keeps its binding
        if isinstance(st, ast.AugAssign) and _key(st.target) is not None:
            k = _key(st.target)
            cur = env.get(k)
            if cur is None:
                cur = copy.deepcopy(st.target)
                for x in ast.walk(cur):
                    if hasattr(x, "ctx"):
                        x.ctx = ast.Load()
            env[k] = ast.BinOp(left=copy.deepcopy(cur), op=st.op, right=sub(st.value))
            continue
        if isinstance(st, ast.If) and not st.orelse and _only_raises(st.body):
            # walrus bindings in the test still happen
            for x in ast.walk(st.test):
                if isinstance(x, ast.NamedExpr) and isinstance(x.target, ast.Name):
                    env[x.target.id] = sub(x.value)
            continue
        if isinstance(st, ast.If) and not st.orelse and st.body and all(isinstance(b, ast.Assign) and len(b.targets) == 1 and _key(b.targets[0]) is not None for b in st.body):
            # `if c: x = E` - a conditional rebinding: x = (E if c else x)
            test = sub(st.test)
            inner = dict(env)
            for b in st.body:
                k = _key(b.targets[0])
                val = S().visit(copy.deepcopy(b.value))
                old = env.get(k)
                if old is None:
                    old = copy.deepcopy(b.targets[0])
                    for x in ast.walk(old):
                        if hasattr(x, "ctx"):
                            x.ctx = ast.Load()
                inner[k] = ast.IfExp(test=copy.deepcopy(test), body=val, orelse=copy.deepcopy(old))
            env.update(inner)
            continue
        if isinstance(st, ast.If) and allow_if:
            raise NotEvaluable(f"branch not modelled: if {ast.unparse(st.test)[:50]}")
        raise NotEvaluable(f"statement not modelled: {ast.unparse(st)[:60]}")
    return env


def abstract_call(expr, call_name_, placeholder):
    """Replace every call of `call_name_` inside `expr` by the name `placeholder`; returns (new expr, list of calls)."""
    found = []

    class A(ast.NodeTransformer):
        def visit_Call(self, n):
            f = n.func
            nm = f.attr if isinstance(f, ast.Attribute) else getattr(f, "id", None)
            if nm == call_name_:
                found.append(n)
                return ast.copy_location(ast.Name(id=placeholder, ctx=ast.Load()), n)
            return self.generic_visit(n)

    return A().visit(copy.deepcopy(expr)), found
