"""Alpha-normalisation of function-local variable spellings.

Many rules name a local variable of the pinned source ("the local `t_min`", "`sun_eci_position`").
Renaming a local is the most common behaviour-preserving edit there is, so before any rule looks at
a function the engine renames the function's own locals back to the spellings recorded from the
pinned tree (``rsa/pinned_locals.json``) wherever that is possible:

* a local whose spelling is recorded for this function keeps it;
* a local with an unrecorded spelling is matched to a recorded-but-now-absent spelling whose
  *binding shape* is identical (kind of binding statement and the bound expression with every
  local's spelling abstracted away), first come first served in order of first binding;
* everything else is left as it is.

The renaming is applied to the in-memory AST only, is a bijection on the function's locals, never
maps onto a name the function already uses, and is applied consistently to every occurrence in the
function (including reads from nested scopes that do not rebind the name): it is an alpha-conversion
and cannot change behaviour, whatever matching produced it.  It therefore cannot hide a violation;
it only lets a rule recognise code it would otherwise not recognise.  Line numbers are untouched.
"""

from __future__ import annotations

import ast
import hashlib
import json
import os

PINNED = os.path.join(os.path.dirname(os.path.abspath(__file__)), "pinned_locals.json")


MIRROR = {ast.Lt: ast.Gt, ast.LtE: ast.GtE, ast.Gt: ast.Lt, ast.GtE: ast.LtE, ast.Eq: ast.Eq, ast.NotEq: ast.NotEq}


def _mirrorable(n):
    return isinstance(n, ast.Compare) and all(type(o) in MIRROR for o in n.ops)


def _mirrored_parts(n):
    operands = [n.left] + list(n.comparators)
    operands.reverse()
    return operands[0], [MIRROR[type(o)]() for o in reversed(n.ops)], operands[1:]


class _Scope(ast.NodeVisitor):
    """Names bound directly in one function body (not in nested scopes), in order of first binding."""

    def __init__(self):
        self.bound = []  # (name, kind, node, index)
        self.declared = set()

    def _add(self, name, kind, node, idx=0):
        self.bound.append((name, kind, node, idx))

    def visit_FunctionDef(self, n):
        self.declared.add(n.name)

    visit_AsyncFunctionDef = visit_FunctionDef

    def visit_ClassDef(self, n):
        self.declared.add(n.name)

    def visit_Lambda(self, n):
        pass

    def _comp(self, n):
        self.visit(n.generators[0].iter)

    visit_ListComp = visit_SetComp = visit_DictComp = visit_GeneratorExp = _comp

    def visit_Global(self, n):
        self.declared |= set(n.names)

    visit_Nonlocal = visit_Global

    def visit_ExceptHandler(self, n):
        if n.name:
            self.declared.add(n.name)
        self.generic_visit(n)

    def visit_Import(self, n):
        for a in n.names:
            self.declared.add((a.asname or a.name).split(".")[0])

    visit_ImportFrom = visit_Import

    def visit_MatchAs(self, n):
        if n.name:
            self.declared.add(n.name)
        self.generic_visit(n)

    visit_MatchStar = visit_MatchAs

    def _targets(self, t, kind, value, prefix=()):
        if isinstance(t, ast.Name):
            self._add(t.id, kind, value, prefix)
        elif isinstance(t, (ast.Tuple, ast.List)):
            for i, e in enumerate(t.elts):
                self._targets(e, kind, value, prefix + (i,))
        elif isinstance(t, ast.Starred):
            self._targets(t.value, kind, value, prefix + ("*",))
        else:
            self.visit(t)

    def visit_Assign(self, n):
        self.visit(n.value)
        for t in n.targets:
            self._targets(t, "assign", n.value)

    def visit_AnnAssign(self, n):
        if n.value is not None:
            self.visit(n.value)
        self._targets(n.target, "assign", n.value)

    def visit_AugAssign(self, n):
        self.visit(n.value)
        self._targets(n.target, "aug", n.value)

    def visit_For(self, n):
        self.visit(n.iter)
        self._targets(n.target, "for", n.iter)
        for s in n.body + n.orelse:
            self.visit(s)

    visit_AsyncFor = visit_For

    def visit_With(self, n):
        for it in n.items:
            self.visit(it.context_expr)
            if it.optional_vars is not None:
                self._targets(it.optional_vars, "with", it.context_expr)
        for s in n.body:
            self.visit(s)

    visit_AsyncWith = visit_With

    def visit_NamedExpr(self, n):
        self.visit(n.value)
        self._targets(n.target, "walrus", n.value)

    def visit_Name(self, n):
        if isinstance(n.ctx, (ast.Store, ast.Del)):
            self._add(n.id, "other", None)


def _nested_rebinders(fn):
    out = set()
    for n in ast.walk(fn):
        if n is fn:
            continue
        if isinstance(n, (ast.FunctionDef, ast.AsyncFunctionDef, ast.Lambda)):
            a = n.args
            out |= {x.arg for x in a.posonlyargs + a.args + a.kwonlyargs}
            if a.vararg:
                out.add(a.vararg.arg)
            if a.kwarg:
                out.add(a.kwarg.arg)
            if not isinstance(n, ast.Lambda):
                sc = _Scope()
                for st in n.body:
                    sc.visit(st)
                out |= {b[0] for b in sc.bound} | sc.declared
        elif isinstance(n, (ast.ListComp, ast.SetComp, ast.DictComp, ast.GeneratorExp)):
            for g in n.generators:
                for x in ast.walk(g.target):
                    if isinstance(x, ast.Name):
                        out.add(x.id)
            for x in ast.walk(n):
                if isinstance(x, ast.NamedExpr) and isinstance(x.target, ast.Name):
                    out.add(x.target.id)
        elif isinstance(n, ast.ClassDef):
            sc = _Scope()
            for st in n.body:
                sc.visit(st)
            out |= {b[0] for b in sc.bound} | sc.declared
    return out


def _params(fn):
    a = fn.args
    ps = {x.arg for x in a.posonlyargs + a.args + a.kwonlyargs}
    if a.vararg:
        ps.add(a.vararg.arg)
    if a.kwarg:
        ps.add(a.kwarg.arg)
    return ps


def function_locals(fn):
    """[(name, signature)] of the renamable locals of ``fn`` in order of first binding."""
    sc = _Scope()
    for st in fn.body:
        sc.visit(st)
    skip = _params(fn) | sc.declared | _nested_rebinders(fn) | {"_"}
    names = []
    seen = set()
    for name, kind, node, idx in sc.bound:
        if name in skip or name.startswith("__") or name in seen:
            continue
        seen.add(name)
        names.append((name, kind, node, idx))
    local_set = {n[0] for n in names}

    class Abstract(ast.NodeTransformer):
        def visit_Name(self, n):
            return ast.copy_location(ast.Name(id="_", ctx=n.ctx), n) if n.id in local_set else n

        def visit_Compare(self, n):
            # the shape does not depend on which way round a comparison is written
            self.generic_visit(n)
            if all(type(o) in MIRROR for o in n.ops):
                a = ast.dump(n, annotate_fields=False)
                left, ops, comps = _mirrored_parts(n)
                m = ast.Compare(left=left, ops=ops, comparators=comps)
                if ast.dump(m, annotate_fields=False) < a:
                    return m
            return n

    out = []
    for name, kind, node, idx in names:
        if node is None:
            dump = ""
        else:
            import copy

            dump = ast.dump(Abstract().visit(copy.deepcopy(node)), annotate_fields=False)
        sig = hashlib.sha1(f"{kind}|{idx}|{dump}".encode()).hexdigest()[:16]
        out.append((name, sig))
    return out


def rename_in_function(fn, mapping):
    for n in ast.walk(fn):
        if isinstance(n, ast.Name) and n.id in mapping:
            n.id = mapping[n.id]


def plan(fn, recorded):
    """Mapping current spelling -> recorded spelling for one function (possibly empty)."""
    cur = function_locals(fn)
    cur_names = [c[0] for c in cur]
    rec_names = [r[0] for r in recorded]
    if set(cur_names) == set(rec_names):
        return {}
    used = {n.id for n in ast.walk(fn) if isinstance(n, ast.Name)} | _params(fn)
    free_rec = [(n, s) for n, s in recorded if n not in cur_names and n not in used]
    mapping = {}
    for name, sig in cur:
        if name in rec_names:
            continue
        for j, (rn, rs) in enumerate(free_rec):
            if rs == sig:
                mapping[name] = rn
                free_rec.pop(j)
                break
    return mapping


def compare_texts(fn):
    return sorted({ast.unparse(n) for n in ast.walk(fn) if _mirrorable(n)})


def mirror_comparisons(fn, recorded_texts):
    """`b > a` is `a < b` (for every IEEE value, NaN included): where the function spells a comparison the other
    way round than the recorded source did, turn it back in memory.  Returns the number of comparisons turned."""
    rec = set(recorded_texts)
    k = 0
    # innermost first: a comparison nested in another one must be settled before the outer text is looked up
    nodes = [n for n in ast.walk(fn) if _mirrorable(n)]
    for n in reversed(nodes):
        if ast.unparse(n) in rec:
            continue
        left, ops, comps = _mirrored_parts(n)
        probe = ast.Compare(left=left, ops=ops, comparators=comps)
        if ast.unparse(probe) in rec:
            n.left, n.ops, n.comparators = left, ops, comps
            k += 1
    return k


def normalise(project, path=PINNED):
    """Alpha-normalise every function of ``project`` in place; returns statistics for the evidence."""
    stats = {"functions_recorded": 0, "functions_renamed": 0, "locals_renamed": 0, "comparisons_mirrored": 0, "examples": []}
    if not os.path.exists(path):
        return stats
    with open(path) as fh:
        rec = json.load(fh)
    stats["functions_recorded"] = len(rec)
    # innermost (longest qualified name) first so that a nested function is settled before its parent
    for q in sorted(project.functions, key=lambda s: -s.count(".")):
        fi = project.functions[q]
        if q not in rec:
            continue
        try:
            m = plan(fi.node, [tuple(x) for x in rec[q].get("locals", [])])
        except RecursionError:  # pragma: no cover
            continue
        if m:
            rename_in_function(fi.node, m)
            stats["functions_renamed"] += 1
            stats["locals_renamed"] += len(m)
            if len(stats["examples"]) < 5:
                stats["examples"].append({"function": q, "renamed": m})
        if rec[q].get("compares"):
            stats["comparisons_mirrored"] += mirror_comparisons(fi.node, rec[q]["compares"])
    return stats


def record(project):
    out = {}
    for q, fi in project.functions.items():
        try:
            ls = function_locals(fi.node)
        except RecursionError:  # pragma: no cover
            continue
        cs = compare_texts(fi.node)
        if ls or cs:
            out[q] = {"locals": [list(x) for x in ls], "compares": cs}
    return out
