"""Alpha-normalisation of function-local variable spellings.

Many rules name a local variable of the pinned source ("the local `t_min`", "`sun_eci_position`").
Renaming a local is the most common behaviour-preserving edit there is, so before any rule looks at
a function the engine renames the function's own locals back to the spellings recorded from the
pinned tree (``rsa/pinned_locals.json``) wherever that is possible:

* a local whose spelling is recorded for this function keeps it;
* a local with an unrecorded spelling is matched to a recorded-but-now-absent spelling whose
  *binding shape* is identical (kind of binding statement and the bound expression with every
  local's spelling abstracted away), first come first served in order of first binding;
* everything else is left as it is.

The renaming is applied to the in-memory AST only, is a bijection on the function's locals, never
maps onto a name the function already uses, and is applied consistently to every occurrence in the
function (including reads from nested scopes that do not rebind the name): it is an alpha-conversion
and cannot change behaviour, whatever matching produced it.  It therefore cannot hide a violation;
it only lets a rule recognise code it would otherwise not recognise.  Line numbers are untouched.
"""

from __future__ import annotations

import ast
import copy
import hashlib
import json
import os

PINNED = os.path.join(os.path.dirname(os.path.abspath(__file__)), "pinned_locals.json")


MIRROR = {ast.Lt: ast.Gt, ast.LtE: ast.GtE, ast.Gt: ast.Lt, ast.GtE: ast.LtE, ast.Eq: ast.Eq, ast.NotEq: ast.NotEq}


def _mirrorable(n):
    return isinstance(n, ast.Compare) and all(type(o) in MIRROR for o in n.ops)


def _mirrored_parts(n):
    operands = [n.left] + list(n.comparators)
    operands.reverse()
    return operands[0], [MIRROR[type(o)]() for o in reversed(n.ops)], operands[1:]


class _Scope(ast.NodeVisitor):
    """Names bound directly in one function body (not in nested scopes), in order of first binding."""

    def __init__(self):
        self.bound = []  # (name, kind, node, index)
        self.declared = set()

    def _add(self, name, kind, node, idx=0):
        self.bound.append((name, kind, node, idx))

    def visit_FunctionDef(self, n):
        self.declared.add(n.name)

    visit_AsyncFunctionDef = visit_FunctionDef

    def visit_ClassDef(self, n):
        self.declared.add(n.name)

    def visit_Lambda(self, n):
        pass

    def _comp(self, n):
        self.visit(n.generators[0].iter)

    visit_ListComp = visit_SetComp = visit_DictComp = visit_GeneratorExp = _comp

    def visit_Global(self, n):
        self.declared |= set(n.names)

    visit_Nonlocal = visit_Global

    def visit_ExceptHandler(self, n):
        if n.name:
            self.declared.add(n.name)
        self.generic_visit(n)

    def visit_Import(self, n):
        for a in n.names:
            self.declared.add((a.asname or a.name).split(".")[0])

    visit_ImportFrom = visit_Import

    def visit_MatchAs(self, n):
        if n.name:
            self.declared.add(n.name)
        self.generic_visit(n)

    visit_MatchStar = visit_MatchAs

    def _targets(self, t, kind, value, prefix=()):
        if isinstance(t, ast.Name):
            self._add(t.id, kind, value, prefix)
        elif isinstance(t, (ast.Tuple, ast.List)):
            for i, e in enumerate(t.elts):
                self._targets(e, kind, value, prefix + (i,))
        elif isinstance(t, ast.Starred):
            self._targets(t.value, kind, value, prefix + ("*",))
        else:
            self.visit(t)

    def visit_Assign(self, n):
        self.visit(n.value)
        for t in n.targets:
            self._targets(t, "assign", n.value)

    def visit_AnnAssign(self, n):
        if n.value is not None:
            self.visit(n.value)
        self._targets(n.target, "assign", n.value)

    def visit_AugAssign(self, n):
        self.visit(n.value)
        self._targets(n.target, "aug", n.value)

    def visit_For(self, n):
        self.visit(n.iter)
        self._targets(n.target, "for", n.iter)
        for s in n.body + n.orelse:
            self.visit(s)

    visit_AsyncFor = visit_For

    def visit_With(self, n):
        for it in n.items:
            self.visit(it.context_expr)
            if it.optional_vars is not None:
                self._targets(it.optional_vars, "with", it.context_expr)
        for s in n.body:
            self.visit(s)

    visit_AsyncWith = visit_With

    def visit_NamedExpr(self, n):
        self.visit(n.value)
        self._targets(n.target, "walrus", n.value)

    def visit_Name(self, n):
        if isinstance(n.ctx, (ast.Store, ast.Del)):
            self._add(n.id, "other", None)


def _nested_rebinders(fn):
    out = set()
    for n in ast.walk(fn):
        if n is fn:
            continue
        if isinstance(n, (ast.FunctionDef, ast.AsyncFunctionDef, ast.Lambda)):
            a = n.args
            out |= {x.arg for x in a.posonlyargs + a.args + a.kwonlyargs}
            if a.vararg:
                out.add(a.vararg.arg)
            if a.kwarg:
                out.add(a.kwarg.arg)
            if not isinstance(n, ast.Lambda):
                sc = _Scope()
                for st in n.body:
                    sc.visit(st)
                out |= {b[0] for b in sc.bound} | sc.declared
        elif isinstance(n, (ast.ListComp, ast.SetComp, ast.DictComp, ast.GeneratorExp)):
            for g in n.generators:
                for x in ast.walk(g.target):
                    if isinstance(x, ast.Name):
                        out.add(x.id)
            for x in ast.walk(n):
                if isinstance(x, ast.NamedExpr) and isinstance(x.target, ast.Name):
                    out.add(x.target.id)
        elif isinstance(n, ast.ClassDef):
            sc = _Scope()
            for st in n.body:
                sc.visit(st)
            out |= {b[0] for b in sc.bound} | sc.declared
    return out


def _params(fn):
    a = fn.args
    ps = {x.arg for x in a.posonlyargs + a.args + a.kwonlyargs}
    if a.vararg:
        ps.add(a.vararg.arg)
    if a.kwarg:
        ps.add(a.kwarg.arg)
    return ps


def function_locals(fn):
    """[(name, signature)] of the renamable locals of ``fn`` in order of first binding."""
    sc = _Scope()
    for st in fn.body:
        sc.visit(st)
    skip = _params(fn) | sc.declared | _nested_rebinders(fn) | {"_"}
    names = []
    seen = set()
    for name, kind, node, idx in sc.bound:
        if name in skip or name.startswith("__") or name in seen:
            continue
        seen.add(name)
        names.append((name, kind, node, idx))
    local_set = {n[0] for n in names}

    class Abstract(ast.NodeTransformer):
        def visit_Name(self, n):
            return ast.copy_location(ast.Name(id="_", ctx=n.ctx), n) if n.id in local_set else n

        def visit_Compare(self, n):
            # the shape does not depend on which way round a comparison is written
            self.generic_visit(n)
            if all(type(o) in MIRROR for o in n.ops):
                a = ast.dump(n, annotate_fields=False)
                left, ops, comps = _mirrored_parts(n)
                m = ast.Compare(left=left, ops=ops, comparators=comps)
                if ast.dump(m, annotate_fields=False) < a:
                    return m
            return n

    out = []
    for name, kind, node, idx in names:
        if node is None:
            dump = ""
        else:
            import copy

            dump = ast.dump(Abstract().visit(copy.deepcopy(node)), annotate_fields=False)
        sig = hashlib.sha1(f"{kind}|{idx}|{dump}".encode()).hexdigest()[:16]
        out.append((name, sig))
    return out


def rename_in_function(fn, mapping):
    for n in ast.walk(fn):
        if isinstance(n, ast.Name) and n.id in mapping:
            n.id = mapping[n.id]


def plan(fn, recorded):
    """Mapping current spelling -> recorded spelling for one function (possibly empty)."""
    cur = function_locals(fn)
    cur_names = [c[0] for c in cur]
    rec_names = [r[0] for r in recorded]
    if set(cur_names) == set(rec_names):
        return {}
    used = {n.id for n in ast.walk(fn) if isinstance(n, ast.Name)} | _params(fn)
    free_rec = [(n, s) for n, s in recorded if n not in cur_names and n not in used]
    mapping = {}
    for name, sig in cur:
        if name in rec_names:
            continue
        for j, (rn, rs) in enumerate(free_rec):
            if rs == sig:
                mapping[name] = rn
                free_rec.pop(j)
                break
    return mapping


def compare_texts(fn):
    return sorted({ast.unparse(n) for n in ast.walk(fn) if _mirrorable(n)})


def mirror_comparisons(fn, recorded_texts):
    """`b > a` is `a < b` (for every IEEE value, NaN included): where the function spells a comparison the other
    way round than the recorded source did, turn it back in memory.  Returns the number of comparisons turned."""
    rec = set(recorded_texts)
    k = 0
    # innermost first: a comparison nested in another one must be settled before the outer text is looked up
    nodes = [n for n in ast.walk(fn) if _mirrorable(n)]
    for n in reversed(nodes):
        if ast.unparse(n) in rec:
            continue
        left, ops, comps = _mirrored_parts(n)
        probe = ast.Compare(left=left, ops=ops, comparators=comps)
        if ast.unparse(probe) in rec:
            n.left, n.ops, n.comparators = left, ops, comps
            k += 1
    return k


def _stores(fn, name):
    return [n for n in ast.walk(fn) if isinstance(n, ast.Name) and n.id == name and isinstance(n.ctx, (ast.Store, ast.Del))]


def _loads(fn, name):
    return [n for n in ast.walk(fn) if isinstance(n, ast.Name) and n.id == name and isinstance(n.ctx, ast.Load)]


def simple_defs(fn, local_names):
    """[[name, dump(RHS)]] in binding order for locals bound exactly once, by a plain `name = RHS` statement."""
    out = []
    for st in ast.walk(fn):
        if isinstance(st, ast.Assign) and len(st.targets) == 1 and isinstance(st.targets[0], ast.Name):
            v = st.targets[0].id
            if v in local_names and len(_stores(fn, v)) == 1:
                out.append([v, ast.dump(st.value, annotate_fields=False), getattr(st, "lineno", 0)])
    out.sort(key=lambda x: x[2])
    return [[a, b] for a, b, _ in out]


def _blocks(fn):
    for owner in ast.walk(fn):
        for field in ("body", "orelse", "finalbody"):
            blk = getattr(owner, field, None)
            if isinstance(blk, list) and blk and isinstance(blk[0], ast.stmt):
                yield owner, blk
        if isinstance(owner, ast.Try):
            for h in owner.handlers:
                yield h, h.body


def _header_exprs(st):
    """Expressions of a statement that are evaluated exactly once when control reaches it."""
    if isinstance(st, (ast.If,)):
        return [st.test]
    if isinstance(st, (ast.For, ast.AsyncFor)):
        return [st.iter]
    if isinstance(st, (ast.With, ast.AsyncWith)):
        return [i.context_expr for i in st.items]
    if isinstance(st, (ast.While, ast.Try, ast.FunctionDef, ast.AsyncFunctionDef, ast.ClassDef, ast.Match)):
        return []
    return [st]


def _unconditional(root, target):
    """True iff ``target`` (a node under ``root``) is evaluated whenever ``root`` is: not under a lambda,
    comprehension, conditional expression or the later operands of and / or."""
    def walk(n):
        if n is target:
            return True
        for field, val in ast.iter_fields(n):
            kids = val if isinstance(val, list) else [val]
            for i, k in enumerate(kids):
                if not isinstance(k, ast.AST):
                    continue
                if isinstance(n, (ast.Lambda, ast.ListComp, ast.SetComp, ast.DictComp, ast.GeneratorExp)):
                    continue
                if isinstance(n, ast.IfExp) and field in ("body", "orelse"):
                    continue
                if isinstance(n, ast.BoolOp) and field == "values" and i > 0:
                    continue
                if walk(k):
                    return True
        return False

    return walk(root)


def reextract(fn, recorded_defs, present):
    """Undo `inline variable`: a recorded single-definition local that the function no longer has, while exactly one
    statement contains (unconditionally evaluated) occurrences of its recorded right-hand side, is re-introduced
    just before that statement.  Expressions are taken to be free of side effects, as every rule does."""
    k = 0
    for name, dump in recorded_defs:
        if name in present or any(isinstance(n, ast.Name) and n.id == name for n in ast.walk(fn)):
            continue
        hits = []
        for owner, blk in _blocks(fn):
            for i, st in enumerate(blk):
                for root in _header_exprs(st):
                    for n in ast.walk(root):
                        if isinstance(n, ast.expr) and not isinstance(n, (ast.Name, ast.Constant)) and ast.dump(n, annotate_fields=False) == dump and _unconditional(root, n):
                            hits.append((blk, i, st, n))
        if not hits or len({id(h[2]) for h in hits}) != 1:
            continue
        blk, i, st, _ = hits[0]
        if isinstance(st, ast.Assign) and len(st.targets) == 1 and isinstance(st.targets[0], ast.Name) and any(h[3] is st.value for h in hits):
            # `other = <recorded right-hand side>`: a renamed local, not an inlined one - left to the renaming
            continue
        value = hits[0][3]
        targets = {id(h[3]) for h in hits}

        class R(ast.NodeTransformer):
            def visit(self, n):
                if id(n) in targets:
                    return ast.copy_location(ast.Name(id=name, ctx=ast.Load()), n)
                return super().visit(n)

        import copy

        new_def = ast.Assign(targets=[ast.Name(id=name, ctx=ast.Store())], value=copy.deepcopy(value), lineno=getattr(st, "lineno", 1), col_offset=getattr(st, "col_offset", 0))
        ast.copy_location(new_def, st)
        ast.fix_missing_locations(new_def)
        blk[i] = R().visit(st)
        blk.insert(i, new_def)
        present.add(name)
        k += 1
    return k


_NEG_OPS = {ast.In: ast.NotIn, ast.NotIn: ast.In, ast.Eq: ast.NotEq, ast.NotEq: ast.Eq, ast.Is: ast.IsNot, ast.IsNot: ast.Is, ast.Lt: ast.GtE, ast.GtE: ast.Lt, ast.Gt: ast.LtE, ast.LtE: ast.Gt}


def _negate_test(t):
    """Syntactic negation of a test where that is exact for every value (not for ordering comparisons of floats,
    where NaN breaks `not (a < b) == (a >= b)`): `not x` <-> `x`, in / not in, == / !=, is / is not."""
    import copy

    if isinstance(t, ast.UnaryOp) and isinstance(t.op, ast.Not):
        return copy.deepcopy(t.operand)
    if isinstance(t, ast.Compare) and len(t.ops) == 1 and type(t.ops[0]) in (ast.In, ast.NotIn, ast.Eq, ast.NotEq, ast.Is, ast.IsNot):
        n = copy.deepcopy(t)
        n.ops = [_NEG_OPS[type(t.ops[0])]()]
        return n
    return ast.UnaryOp(op=ast.Not(), operand=copy.deepcopy(t))


def hoist_common_branch_statements(fn):
    """`if c: S; A else: S; B` -> `S; if c: A else: B` for a leading plain assignment S to a name that is spelled the
    same in both branches, reads nothing the test reads-and-S-writes, and whose target the test does not read."""
    k = 0
    for _owner, blk in _blocks(fn):
        i = 0
        while i < len(blk):
            st = blk[i]
            if isinstance(st, ast.If) and st.body and st.orelse and len(st.body) > 1 and len(st.orelse) > 1:
                moved = True
                while moved and len(st.body) > 1 and len(st.orelse) > 1:
                    moved = False
                    for bi, b in enumerate(st.body):
                        if not (isinstance(b, ast.Assign) and len(b.targets) == 1 and isinstance(b.targets[0], ast.Name)):
                            continue
                        x = b.targets[0].id
                        match = [oi for oi, o in enumerate(st.orelse) if isinstance(o, ast.Assign) and ast.dump(o, annotate_fields=False) == ast.dump(b, annotate_fields=False)]
                        if not match:
                            continue
                        oi = match[0]
                        reads = {n.id for n in ast.walk(b.value) if isinstance(n, ast.Name)}
                        # nothing before it in either branch writes what it reads or its target; the test does not read x
                        before = st.body[:bi] + st.orelse[:oi]
                        written = {n.id for s_ in before for n in ast.walk(s_) if isinstance(n, ast.Name) and isinstance(n.ctx, ast.Store)}
                        if (written & (reads | {x})) or any(isinstance(n, ast.Name) and n.id == x for n in ast.walk(st.test)) or any(isinstance(n, ast.Name) and n.id == x for s_ in before for n in ast.walk(s_)):
                            continue
                        del st.body[bi]
                        del st.orelse[oi]
                        blk.insert(i, b)
                        i += 1
                        k += 1
                        moved = True
                        break
            i += 1
    return k


def fold_conditional_defs(fn, recorded_defs, recorded_names=()):
    """Toward the recorded conditional expressions: (1) `x = D` immediately followed by `if c: x = E` (no else) becomes
    `x = E if c else D` when the record defines x by a conditional expression; (2) a conditional expression whose
    test is the exact negation of the recorded one is turned round (`B if not c else A` -> `A if c else B`).
    Both are identities for side-effect-free operands."""
    import copy

    rec = {}
    for name, dump in recorded_defs:
        if dump.startswith("IfExp("):
            rec[name] = dump
    known = set(recorded_names)
    k = 0
    for _owner, blk in _blocks(fn):
        i = 0
        while i < len(blk):
            st = blk[i]
            # `if c: x = E` / `else: x = D`  ->  `x = E if c else D`
            if isinstance(st, ast.If) and len(st.body) == 1 and len(st.orelse) == 1 and all(isinstance(b, ast.Assign) and len(b.targets) == 1 and isinstance(b.targets[0], ast.Name) for b in (st.body[0], st.orelse[0])) and st.body[0].targets[0].id == st.orelse[0].targets[0].id and (st.body[0].targets[0].id in rec or st.body[0].targets[0].id not in known):
                x = st.body[0].targets[0].id
                new = ast.copy_location(ast.Assign(targets=[ast.Name(id=x, ctx=ast.Store())], value=ast.IfExp(test=copy.deepcopy(st.test), body=copy.deepcopy(st.body[0].value), orelse=copy.deepcopy(st.orelse[0].value))), st)
                ast.fix_missing_locations(new)
                blk[i] = new
                st = new
                k += 1
            if isinstance(st, ast.Assign) and len(st.targets) == 1 and isinstance(st.targets[0], ast.Name) and st.targets[0].id not in known and isinstance(st.value, ast.IfExp):
                # a new local bound by a conditional expression that is the mirror image of a recorded one: turn it
                # round, so that the renaming step can recognise it by its binding shape
                flipped = ast.IfExp(test=_negate_test(st.value.test), body=copy.deepcopy(st.value.orelse), orelse=copy.deepcopy(st.value.body))
                fd = ast.dump(flipped, annotate_fields=False)
                present = {n.id for n in ast.walk(fn) if isinstance(n, ast.Name)}
                if any(d == fd and nm not in present for nm, d in rec.items()):
                    st.value = ast.copy_location(flipped, st.value)
                    ast.fix_missing_locations(st)
                    k += 1
            if isinstance(st, ast.Assign) and len(st.targets) == 1 and isinstance(st.targets[0], ast.Name) and st.targets[0].id in rec:
                x = st.targets[0].id
                nxt = blk[i + 1] if i + 1 < len(blk) else None
                if not isinstance(st.value, ast.IfExp) and isinstance(nxt, ast.If) and not nxt.orelse and len(nxt.body) == 1 and isinstance(nxt.body[0], ast.Assign) and len(nxt.body[0].targets) == 1 and isinstance(nxt.body[0].targets[0], ast.Name) and nxt.body[0].targets[0].id == x and not any(isinstance(n, ast.Name) and n.id == x for n in ast.walk(nxt.test)) and not any(isinstance(n, ast.Name) and n.id == x for n in ast.walk(nxt.body[0].value)):
                    new = ast.copy_location(ast.Assign(targets=[ast.Name(id=x, ctx=ast.Store())], value=ast.IfExp(test=copy.deepcopy(nxt.test), body=copy.deepcopy(nxt.body[0].value), orelse=copy.deepcopy(st.value))), st)
                    ast.fix_missing_locations(new)
                    blk[i : i + 2] = [new]
                    st = new
                    k += 1
                if isinstance(st.value, ast.IfExp) and ast.dump(st.value, annotate_fields=False) != rec[x]:
                    flipped = ast.IfExp(test=_negate_test(st.value.test), body=copy.deepcopy(st.value.orelse), orelse=copy.deepcopy(st.value.body))
                    if ast.dump(flipped, annotate_fields=False) == rec[x]:
                        st.value = ast.copy_location(flipped, st.value)
                        ast.fix_missing_locations(st)
                        k += 1
            i += 1
    return k


def matmul_to_recorded_form(fn, recorded_defs):
    """`a @ b` -> `matmul(a, b)` in a function whose recorded definitions use the call form and no `@` (and the other
    way round): the two spellings are the same operation."""
    dumps = " ".join(d for _n, d in recorded_defs)
    uses_call, uses_op = "Name('matmul'" in dumps, "MatMult()" in dumps
    if uses_call == uses_op:
        return 0
    k = [0]

    class M(ast.NodeTransformer):
        def visit_BinOp(self, n):
            self.generic_visit(n)
            if uses_call and isinstance(n.op, ast.MatMult):
                k[0] += 1
                return ast.copy_location(ast.Call(func=ast.Name(id="matmul", ctx=ast.Load()), args=[n.left, n.right], keywords=[]), n)
            return n

        def visit_Call(self, n):
            self.generic_visit(n)
            if uses_op and isinstance(n.func, ast.Name) and n.func.id == "matmul" and len(n.args) == 2 and not n.keywords:
                k[0] += 1
                return ast.copy_location(ast.BinOp(left=n.args[0], op=ast.MatMult(), right=n.args[1]), n)
            return n

    for i, st in enumerate(list(fn.body)):
        fn.body[i] = M().visit(st)
    ast.fix_missing_locations(fn)
    return k[0]


def split_ret_tuples(fn):
    """`if c: v = (A1, B1) else: v = (A2, B2)` ... `x, y = v` (v a new name used for nothing else) becomes
    `x, y = A1, B1` / `x, y = A2, B2` in the branches - the shape an inlined helper with several `return a, b`
    leaves behind."""
    import copy

    k = 0
    for _owner, blk in _blocks(fn):
        for i, st in enumerate(blk):
            if not (isinstance(st, ast.Assign) and len(st.targets) == 1 and isinstance(st.targets[0], ast.Tuple) and isinstance(st.value, ast.Name)):
                continue
            v = st.value.id
            loads = _loads(fn, v)
            stores = [n for n in ast.walk(fn) if isinstance(n, ast.Assign) and len(n.targets) == 1 and isinstance(n.targets[0], ast.Name) and n.targets[0].id == v]
            all_stores = _stores(fn, v)
            arity = len(st.targets[0].elts)
            if len(loads) != 1 or len(stores) != len(all_stores) or not stores or not all(isinstance(n.value, ast.Tuple) and len(n.value.elts) == arity for n in stores):
                continue
            if i == 0 or not any(any(x is s_ for x in ast.walk(blk[i - 1])) for s_ in stores):
                continue
            for s_ in stores:
                s_.targets = [copy.deepcopy(st.targets[0])]
            del blk[i]
            k += 1
            break
    return k


def loops_to_comprehensions(fn, recorded_names):
    """`xs = []` immediately followed by `for t in it: xs.append(E)` - xs a local the record does not know - becomes
    `xs = [E for t in it]` (optionally with the single `if c:` guard of the append as the comprehension's filter)."""
    import copy

    k = 0
    for _owner, blk in _blocks(fn):
        i = 0
        while i + 1 < len(blk):
            st, lp = blk[i], blk[i + 1]
            if isinstance(st, ast.Assign) and len(st.targets) == 1 and isinstance(st.targets[0], ast.Name) and isinstance(st.value, ast.List) and not st.value.elts and st.targets[0].id not in recorded_names and isinstance(lp, ast.For) and not lp.orelse and len(lp.body) == 1:
                xs = st.targets[0].id
                body = lp.body[0]
                cond = None
                if isinstance(body, ast.If) and not body.orelse and len(body.body) == 1:
                    cond, body = body.test, body.body[0]
                if isinstance(body, ast.Expr) and isinstance(body.value, ast.Call) and isinstance(body.value.func, ast.Attribute) and body.value.func.attr == "append" and isinstance(body.value.func.value, ast.Name) and body.value.func.value.id == xs and len(body.value.args) == 1 and not any(isinstance(n, ast.Name) and n.id == xs for n in ast.walk(body.value.args[0])) and not any(isinstance(n, ast.Name) and n.id == xs for n in ast.walk(lp.iter)):
                    comp = ast.ListComp(elt=copy.deepcopy(body.value.args[0]), generators=[ast.comprehension(target=copy.deepcopy(lp.target), iter=copy.deepcopy(lp.iter), ifs=[copy.deepcopy(cond)] if cond is not None else [], is_async=0)])
                    new = ast.copy_location(ast.Assign(targets=[ast.Name(id=xs, ctx=ast.Store())], value=comp), st)
                    ast.fix_missing_locations(new)
                    blk[i : i + 2] = [new]
                    k += 1
                    continue
            i += 1
    return k


def drop_dead_new_locals(fn, recorded_names):
    """A local the record does not know that is assigned a constant and never read (the result variable of an inlined
    helper that returns nothing) is dropped."""
    k = 0
    loaded = {n.id for n in ast.walk(fn) if isinstance(n, ast.Name) and isinstance(n.ctx, ast.Load)}
    for _owner, blk in _blocks(fn):
        i = 0
        while i < len(blk):
            st = blk[i]
            if isinstance(st, ast.Assign) and len(st.targets) == 1 and isinstance(st.targets[0], ast.Name) and st.targets[0].id not in recorded_names and st.targets[0].id not in loaded and isinstance(st.value, ast.Constant) and len(blk) > 1:
                del blk[i]
                k += 1
                continue
            i += 1
    return k


def absorb_renaming_aliases(fn, recorded_names):
    """`b_tmp = ...` (possibly one target of an unpacking) ... `a = b_tmp` with b_tmp a new local bound once and read
    only there: the value is bound to `a` directly and the alias statement dropped (the shape an inlined helper leaves
    when its local had to be renamed to avoid the caller's name)."""
    k = 0
    for _owner, blk in _blocks(fn):
        i = 0
        while i < len(blk):
            st = blk[i]
            # `t = X; if c: t += T; y[sl] = t` (t a new local living only here, y[sl] a plain subscript): the element is
            # written directly - `y[sl] = X; if c: y[sl] += T`
            if isinstance(st, ast.Assign) and len(st.targets) == 1 and isinstance(st.targets[0], ast.Subscript) and isinstance(st.targets[0].value, ast.Name) and isinstance(st.value, ast.Name) and st.value.id not in recorded_names and st.value.id not in _params(fn):
                import copy as _copy

                tgt, b = st.targets[0], st.value.id
                occ = [n for n in ast.walk(fn) if isinstance(n, ast.Name) and n.id == b]
                where = [next((jj for jj in range(i + 1) if any(x is o for x in ast.walk(blk[jj]))), None) for o in occ]
                names_t = {x.id for x in ast.walk(tgt) if isinstance(x, ast.Name)}
                if all(w is not None for w in where) and not any(isinstance(x, ast.Call) for x in ast.walk(tgt)):
                    j0 = min(where)
                    loads = [o for o in occ if isinstance(o.ctx, ast.Load)]
                    # every load of t is the alias statement itself (augmented assignments carry a Store target)
                    touched = any(isinstance(x, ast.Name) and x.id in names_t and isinstance(x.ctx, (ast.Store, ast.Del)) for jj in range(j0, i) for x in ast.walk(blk[jj])) or any(isinstance(x, ast.Subscript) and isinstance(x.value, ast.Name) and x.value.id == tgt.value.id for jj in range(j0, i) for x in ast.walk(blk[jj]))
                    if len(loads) == 1 and loads[0] is st.value and not touched:

                        class R_(ast.NodeTransformer):
                            def visit_Name(self, n):
                                if n.id == b and isinstance(n.ctx, ast.Store):
                                    return ast.copy_location(_copy.deepcopy(tgt), n)
                                return n

                        for jj in range(j0, i):
                            blk[jj] = R_().visit(blk[jj])
                            ast.fix_missing_locations(blk[jj])
                        del blk[i]
                        k += 1
                        continue
            if isinstance(st, ast.Assign) and len(st.targets) == 1 and isinstance(st.targets[0], ast.Name) and isinstance(st.value, ast.Name):
                a, b = st.targets[0].id, st.value.id
                stores_b = [n for n in ast.walk(fn) if isinstance(n, ast.Name) and n.id == b and isinstance(n.ctx, ast.Store)]
                loads_b = _loads(fn, b)
                if b not in recorded_names and b not in _params(fn) and len(stores_b) > 1 and len(loads_b) == 1 and a != b:
                    # bound in several branches of the statements just before (an inlined helper with early returns):
                    # every store lies earlier in this block, `a` is not touched from the first of them on
                    where = [next((jj for jj in range(i) if any(x is sb for x in ast.walk(blk[jj]))), None) for sb in stores_b]
                    if all(w is not None for w in where):
                        j0 = min(where)
                        aug = any(isinstance(au, ast.AugAssign) and isinstance(au.target, ast.Name) and au.target.id == b for au in ast.walk(fn))
                        if not aug and not any(isinstance(x, ast.Name) and x.id == a for jj in range(j0, i) for x in ast.walk(blk[jj])):
                            for sb in stores_b:
                                sb.id = a
                            del blk[i]
                            k += 1
                            continue
                if b not in recorded_names and b not in _params(fn) and len(stores_b) == 1 and len(loads_b) > 1 and a != b:
                    # `b = E; ...b...; a = b; ...b...`: b is bound once (earlier in this block), `a` is not mentioned between that
                    # binding and the alias: b is spelled a from its binding on (all its occurrences lie in this block)
                    j = next((jj for jj in range(i) if any(x is stores_b[0] for x in ast.walk(blk[jj]))), None)
                    occ_b = [n for n in ast.walk(fn) if isinstance(n, ast.Name) and n.id == b]
                    in_blk = sum(1 for st2 in blk for n in ast.walk(st2) if isinstance(n, ast.Name) and n.id == b)
                    if j is not None and in_blk == len(occ_b) and not any(isinstance(x, ast.Name) and x.id == a for jj in range(j, i) for x in ast.walk(blk[jj])) and not any(isinstance(x, ast.Name) and x.id == a and isinstance(x.ctx, (ast.Store, ast.Del)) for jj in range(i + 1, len(blk)) for x in ast.walk(blk[jj])):
                        for n in occ_b:
                            n.id = a
                        del blk[i]
                        k += 1
                        continue
                if b not in recorded_names and b not in _params(fn) and len(stores_b) == 1 and len(loads_b) == 1 and a != b:
                    # the definition of b lies earlier in the same block; `a` is not touched in between
                    j = next((jj for jj in range(i) if any(x is stores_b[0] for x in ast.walk(blk[jj]))), None)
                    if j is not None and not any(isinstance(x, ast.Name) and x.id == a for jj in range(j, i) for x in ast.walk(blk[jj])):
                        stores_b[0].id = a
                        del blk[i]
                        k += 1
                        continue
            i += 1
    return k


# value-only library calls: repeating one of them is not observable (used to allow multi-use aliases to be inlined)
PURE_CALLS = {
    "slice", "max", "min", "sum", "abs", "len", "float", "int", "bool", "round", "sorted", "tuple", "list", "set", "dict", "range", "zip", "enumerate", "isinstance",
    "norm", "dot", "vdot", "cross", "outer", "matmul", "sqrt", "sin", "cos", "tan", "arcsin", "arccos", "arctan", "arctan2", "sinh", "cosh", "arcsinh", "exp", "log", "log10", "floor", "ceil", "fabs", "sign",
    "array", "asarray", "zeros", "ones", "zeros_like", "ones_like", "empty_like", "eye", "diag", "diagflat", "concatenate", "vstack", "hstack", "reshape", "ravel", "flatten", "squeeze", "transpose", "copy", "astype",
    "amax", "amin", "nanmax", "nanmin", "argmax", "argmin", "any", "all", "nonzero", "flatnonzero", "where", "clip", "remainder", "mod", "fmod", "isclose", "allclose", "mean", "average", "trace", "det", "inv",
    "isoformat", "total_seconds", "lower", "upper", "strip", "get", "keys", "values", "items", "index", "count", "wrapAngle2Pi", "wrapAngleNegPiPi", "fpe_equals", "safeArccos", "subtendedAngle",
}


def split_parallel_assignments(fn, recorded_names):
    """`a, b = e1, e2` binding only locals the record does not know, none of which is read on the right-hand side,
    becomes `a = e1; b = e2` (so that each can be treated as the alias it is)."""
    k = 0
    for owner, blk in _blocks(fn):
        i = 0
        while i < len(blk):
            st = blk[i]
            if (
                isinstance(st, ast.Assign)
                and len(st.targets) == 1
                and isinstance(st.targets[0], ast.Tuple)
                and isinstance(st.value, ast.Tuple)
                and len(st.targets[0].elts) == len(st.value.elts)
                and all((isinstance(x, ast.Name)) or (isinstance(x, ast.Attribute) and all(isinstance(y, (ast.Attribute, ast.Name, ast.Load, ast.Store)) for y in ast.walk(x))) for x in st.targets[0].elts)
            ):
                tnames = {ast.unparse(x) for x in st.targets[0].elts}
                if not any(isinstance(x, (ast.Name, ast.Attribute)) and ast.unparse(x) in tnames for v in st.value.elts for x in ast.walk(v)) and len(tnames) == len(st.targets[0].elts):
                    new = [ast.copy_location(ast.Assign(targets=[tg], value=v), st) for tg, v in zip(st.targets[0].elts, st.value.elts)]
                    for x in new:
                        ast.fix_missing_locations(x)
                    blk[i : i + 1] = new
                    k += 1
                    i += len(new)
                    continue
            i += 1
    return k


def inline_new_locals(fn, recorded_names):
    """Undo `extract variable`: a local the recorded source did not have, bound once by `v = E` where nothing E
    reads is written afterwards in the function, is replaced by E at its uses (calls only when used once)."""
    k = 0
    changed = True
    skip = _params(fn) | _nested_rebinders(fn)
    while changed:
        changed = False
        for owner, blk in _blocks(fn):
            for i, st in enumerate(blk):
                if not (isinstance(st, ast.Assign) and len(st.targets) == 1 and isinstance(st.targets[0], ast.Name)):
                    continue
                v = st.targets[0].id
                if v in recorded_names or v in skip or v == "_" or len(_stores(fn, v)) != 1:
                    continue
                loads = _loads(fn, v)
                if not loads:
                    continue
                # `v = E; self.f = v; ... v ...`: after the store the field *is* the value - later reads of the new
                # local become reads of the field (as long as the field is not stored again in between)
                if len(loads) > 1:
                    import copy as _copy

                    for j in range(i + 1, len(blk)):
                        st2 = blk[j]
                        if isinstance(st2, ast.Assign) and len(st2.targets) == 1 and isinstance(st2.targets[0], ast.Attribute) and isinstance(st2.value, ast.Name) and st2.value.id == v and all(isinstance(x, (ast.Attribute, ast.Name, ast.Load, ast.Store)) for x in ast.walk(st2.targets[0])):
                            chain = ast.unparse(st2.targets[0])
                            tail = blk[j + 1 :]
                            restored = any(isinstance(x, (ast.Attribute, ast.Subscript)) and isinstance(x.ctx, (ast.Store, ast.Del)) and (ast.unparse(x) == chain or chain.startswith(ast.unparse(x) + ".")) for t2 in tail for x in ast.walk(t2))
                            later_ids = {id(x) for t2 in tail for x in ast.walk(t2)}
                            if restored or not any(id(l) in later_ids for l in loads):
                                break
                            fld = st2.targets[0]

                            class A(ast.NodeTransformer):
                                def visit_Name(self, n):
                                    if n.id == v and isinstance(n.ctx, ast.Load):
                                        new = _copy.deepcopy(fld)
                                        for x in ast.walk(new):
                                            if hasattr(x, "ctx"):
                                                x.ctx = ast.Load()
                                        return ast.copy_location(new, n)
                                    return n

                            for jj in range(j + 1, len(blk)):
                                blk[jj] = A().visit(blk[jj])
                            loads = _loads(fn, v)
                            k += 1
                            break
                # an object that is mutated through the name is not an alias of its initial value
                pmap = {}
                for par in ast.walk(fn):
                    for ch in ast.iter_child_nodes(par):
                        pmap[id(ch)] = par
                mutated = False
                for l in loads:
                    par = pmap.get(id(l))
                    if isinstance(par, ast.Attribute) and isinstance(pmap.get(id(par)), ast.Call) and pmap[id(par)].func is par and par.attr in ("append", "extend", "insert", "remove", "pop", "clear", "update", "add", "discard", "setdefault", "sort", "reverse", "fill", "resize", "put", "itemset", "popitem", "__setitem__"):
                        mutated = True
                    if isinstance(par, (ast.Subscript, ast.Attribute)) and isinstance(getattr(par, "ctx", None), (ast.Store, ast.Del)) and par.value is l:
                        mutated = True
                    if isinstance(par, ast.AugAssign) and par.target is l:
                        mutated = True
                # ... unless the new local merely names an existing object (`agent = self._registrant`): a store through
                # the name is then a store into that object, and the name can be replaced by the reference chain
                pure_ref = isinstance(st.value, (ast.Name, ast.Attribute)) and all(isinstance(x, (ast.Attribute, ast.Name, ast.Load)) for x in ast.walk(st.value))
                if mutated and not pure_ref:
                    continue
                fresh_container = isinstance(st.value, (ast.List, ast.Dict, ast.Set, ast.ListComp, ast.DictComp, ast.SetComp))
                if fresh_container and len(loads) != 1:
                    continue
                has_call = any(isinstance(x, (ast.Await, ast.NamedExpr, ast.Yield, ast.YieldFrom)) for x in ast.walk(st.value)) or any(
                    isinstance(x, ast.Call) and (x.func.attr if isinstance(x.func, ast.Attribute) else getattr(x.func, "id", "")) not in PURE_CALLS for x in ast.walk(st.value)
                )
                if has_call and len(loads) != 1:
                    continue
                # every use lies in a later statement of the same block (or nested in one)
                later = set()
                for st2 in blk[i + 1 :]:
                    later |= {id(x) for x in ast.walk(st2)}
                if any(id(l) not in later for l in loads):
                    continue
                # the definition must not sit in a loop body that the uses outlive, and nothing it reads may be
                # written later
                reads = {x.id for x in ast.walk(st.value) if isinstance(x, ast.Name)}
                chains = {ast.unparse(x) for x in ast.walk(st.value) if isinstance(x, (ast.Attribute, ast.Subscript))}
                unsafe = False
                line = getattr(st, "lineno", 0)
                last = max(getattr(l, "end_lineno", None) or getattr(l, "lineno", 0) for l in loads)
                own = {id(x) for x in ast.walk(st.value)}
                # a store performed by the very statement that holds the last use happens after that use was read
                last_load = max(loads, key=lambda l: (getattr(l, "lineno", 0), getattr(l, "col_offset", 0)))
                for st2 in blk[i + 1 :]:
                    for inner in ast.walk(st2):
                        if isinstance(inner, (ast.Assign, ast.AugAssign, ast.AnnAssign)) and any(x is last_load for x in ast.walk(inner)):
                            tgs = inner.targets if isinstance(inner, ast.Assign) else [inner.target]
                            tg_ids = {id(x) for tg in tgs for x in ast.walk(tg)}
                            if not any(id(l) in tg_ids for l in loads):
                                own |= tg_ids
                for prev in blk[:i]:
                    # statements before the definition in its own block run before it, whatever line they carry
                    # (a re-extracted definition inherits the line of the statement it was taken from)
                    own |= {id(x) for x in ast.walk(prev)}
                for x in ast.walk(fn):
                    if id(x) in own:
                        continue
                    if isinstance(x, ast.Name) and isinstance(x.ctx, (ast.Store, ast.Del)) and x.id in reads and line <= getattr(x, "lineno", 0) <= last and x is not st.targets[0]:
                        unsafe = True
                    if isinstance(x, (ast.Attribute, ast.Subscript)) and isinstance(x.ctx, (ast.Store, ast.Del)) and line <= getattr(x, "lineno", 0) <= last:
                        tx = ast.unparse(x)
                        if any(c == tx or c.startswith(tx + ".") or c.startswith(tx + "[") or tx.startswith(c + ".") or tx.startswith(c + "[") for c in chains):
                            unsafe = True
                    if isinstance(x, (ast.For, ast.While)) and any(y is st for y in ast.walk(x)) and any(id(l) not in {id(z) for z in ast.walk(x)} for l in loads):
                        unsafe = True
                if unsafe:
                    continue
                ids = {id(l) for l in loads}
                import copy

                class S(ast.NodeTransformer):
                    def visit_Name(self, n):
                        return ast.copy_location(copy.deepcopy(st.value), n) if id(n) in ids else n

                for j in range(i + 1, len(blk)):
                    blk[j] = S().visit(blk[j])
                del blk[i]
                if not blk:
                    blk.append(ast.copy_location(ast.Pass(), st))
                k += 1
                changed = True
                break
            if changed:
                break
    return k


# ------------------------------------------------------------------ undo "extract function"
_H = [0]


def _simple_params(fn):
    a = fn.args
    if a.vararg or a.kwarg or a.posonlyargs or a.kwonlyargs:
        return None
    return [x.arg for x in a.args]


def _bind(call, params, defaults, drop_first):
    """param -> argument expression for a call, or None when it cannot be bound exactly."""
    ps = params[1:] if drop_first else list(params)
    if any(isinstance(x, ast.Starred) for x in call.args) or any(k.arg is None for k in call.keywords):
        return None
    if len(call.args) > len(ps):
        return None
    b = dict(zip(ps, call.args))
    for k in call.keywords:
        if k.arg not in ps or k.arg in b:
            return None
        b[k.arg] = k.value
    for p_, d in defaults.items():
        if p_ in ps and p_ not in b:
            b[p_] = d
    return b if set(b) == set(ps) else None


def _helper_shape(fn):
    """('expr', assigns, return_expr) | ('stmts', body, return_expr_or_None) | None for a helper that can be inlined:
    no decorators other than staticmethod, no yield / nested defs / global, a single trailing return (or none)."""
    if any(ast.unparse(d) not in ("staticmethod", "classmethod") for d in fn.decorator_list):
        return None
    body = [b for b in fn.body if not (isinstance(b, ast.Expr) and isinstance(b.value, ast.Constant))]
    if not body:
        return None
    for n in ast.walk(fn):
        if n is not fn and isinstance(n, (ast.FunctionDef, ast.AsyncFunctionDef, ast.ClassDef, ast.Lambda, ast.Yield, ast.YieldFrom, ast.Await, ast.Global, ast.Nonlocal, ast.Try, ast.With)):
            return None
    rets = [n for n in ast.walk(fn) if isinstance(n, ast.Return)]
    if len(rets) > 1 or (rets and rets[0] is not body[-1]):
        # early returns in if / else structures: rewritten to a single trailing return of a result variable
        rname = "_ret_" + fn.name.strip("_")
        conv = _single_exit(body, rname)
        if conv is None:
            return None
        return ("stmts", conv, ast.Name(id=rname, ctx=ast.Load()))
    ret = rets[0].value if rets else None
    stmts = body[:-1] if rets else body
    if all(isinstance(b, ast.Assign) and len(b.targets) == 1 and isinstance(b.targets[0], ast.Name) for b in stmts) and ret is not None:
        names = [b.targets[0].id for b in stmts]
        if len(set(names)) == len(names):
            return ("expr", stmts, ret)
    return ("stmts", stmts, ret)


def _single_exit(body, rname="_ret"):
    """Equivalent statement list with every `return V` replaced by `_ret = V` and control flow restructured so that
    nothing runs after a taken return (early returns inside if / else only); None when a return sits in a loop, try
    or with.  The caller appends `return _ret`."""
    import copy

    def has_ret(st):
        return any(isinstance(x, ast.Return) for x in ast.walk(st))

    def conv(stmts):
        out = []
        for i, st in enumerate(stmts):
            if isinstance(st, ast.Return):
                val = copy.deepcopy(st.value) if st.value is not None else ast.Constant(value=None)
                out.append(ast.copy_location(ast.Assign(targets=[ast.Name(id=rname, ctx=ast.Store())], value=val), st))
                return out, True
            if isinstance(st, ast.If) and has_ret(st):
                rest = list(stmts[i + 1 :])
                b = conv(list(st.body))
                if b is None:
                    return None
                bb, bdone = b
                if not bdone:
                    r2 = conv(rest)
                    if r2 is None:
                        return None
                    bb, bdone = bb + r2[0], r2[1]
                o = conv(list(st.orelse))
                if o is None:
                    return None
                oo, odone = o
                if not odone:
                    r3 = conv(copy.deepcopy(rest))
                    if r3 is None:
                        return None
                    oo, odone = oo + r3[0], r3[1]
                new = ast.copy_location(ast.If(test=copy.deepcopy(st.test), body=bb or [ast.copy_location(ast.Pass(), st)], orelse=oo), st)
                out.append(new)
                return out, bdone and odone
            if has_ret(st):
                return None
            out.append(copy.deepcopy(st))
        return out, False

    res = conv(list(body))
    if res is None:
        return None
    out, done = res
    if not done:
        out = [ast.copy_location(ast.Assign(targets=[ast.Name(id=rname, ctx=ast.Store())], value=ast.Constant(value=None)), body[0])] + out
    for x in out:
        ast.fix_missing_locations(x)
    return out


_SEQ = [0]


def _relocate(node, ref):
    """Give every node of an inlined fragment the source position of the call it replaces (rules order statements
    by line number; the helper's own lines lie elsewhere in the file)."""
    base = int(getattr(ref, "lineno", 1))
    _SEQ[0] += 1
    k = [0]

    def visit(n):
        if hasattr(n, "lineno") or isinstance(n, (ast.expr, ast.stmt)):
            n._reloc = True
            k[0] += 1
            # same source line as the call, ordered after earlier fragments and in the fragment's own order
            n.lineno = base + min(0.9, _SEQ[0] * 1e-3) * 0.1 + min(k[0], 9999) * 1e-6
            n.end_lineno = n.lineno
            n.col_offset = getattr(ref, "col_offset", 0)
            n.end_col_offset = getattr(ref, "end_col_offset", 0)
        for ch in ast.iter_child_nodes(n):
            visit(ch)

    visit(node)
    return node


def _renumber_relocated(fn):
    """Positions of inlined fragments follow the order in which the statements now stand: a relocated node gets the
    line of the last original node before it (in source order) plus a growing fraction, so that rules which order
    statements by position see the order of execution whatever the nesting of the inlining was."""

    cur = [float(getattr(fn, "lineno", 1))]
    cnt = [0]

    def visit(n):
        if isinstance(n, (ast.expr, ast.stmt)) and hasattr(n, "lineno"):
            if getattr(n, "_reloc", False):
                cnt[0] += 1
                n.lineno = int(cur[0]) + min(cnt[0], 899999) * 1e-6
                n.end_lineno = n.lineno
            else:
                if float(n.lineno) >= int(cur[0]):
                    if int(float(n.lineno)) > int(cur[0]):
                        cnt[0] = 0
                    cur[0] = float(n.lineno)
        for ch in ast.iter_child_nodes(n):
            visit(ch)

    for st in fn.body:
        visit(st)


def inline_new_helpers(project, rec):
    """Calls, from recorded functions, of functions the record does not know (helpers extracted from them) are
    replaced in memory by the helper's body with the arguments substituted - the inverse of `extract function`.
    Expressions are taken to be side-effect free, as everywhere in this engine."""
    import copy

    new = {q: fi for q, fi in project.functions.items() if q not in rec and fi.kind != "nested"}
    if not new:
        return 0
    shapes = {}
    for q, fi in new.items():
        ps = _simple_params(fi.node)
        sh = _helper_shape(fi.node) if ps is not None else None
        if sh is not None:
            a = fi.node.args
            defaults = dict(zip([x.arg for x in a.args][len(a.args) - len(a.defaults) :], a.defaults))
            shapes[q] = (fi, ps, defaults, sh)
    if not shapes:
        return 0
    count = 0
    inlined_sites = {}

    def resolve(call, caller):
        f = call.func
        if isinstance(f, ast.Name):
            q = f"{caller.module.name}.{f.id}"
            if q in shapes:
                return shapes[q], False
            tgt = caller.module.imports.get(f.id)
            if tgt in shapes:
                return shapes[tgt], False
        if isinstance(f, ast.Attribute) and isinstance(f.value, ast.Name) and f.value.id in ("self", "cls") and caller.cls is not None:
            m = project.lookup_method(caller.cls, f.attr)
            if m is not None and m.qualname in shapes:
                for sc in project.subclasses(caller.cls):
                    if f.attr not in sc.methods:
                        continue
                    # dynamic dispatch: an instance of `sc` that runs THIS caller (inherited, or reached through
                    # super()) calls sc's override, not the body about to be inlined - inlining would hide the
                    # override from every rule (soundness of the normaliser).  A subclass that has its own version
                    # of the caller (e.g. the materialised copy of a template method) is read on its own.
                    own = sc.methods.get(caller.name)
                    if own is None or any(isinstance(x, ast.Call) and isinstance(x.func, ast.Attribute) and x.func.attr == caller.name and isinstance(x.func.value, ast.Call) and getattr(x.func.value.func, "id", None) == "super" for x in ast.walk(own.node)):
                        return None, False
                sh = shapes[m.qualname]
                decos = {ast.unparse(d) for d in m.node.decorator_list}
                if "classmethod" in decos:
                    # the helper's `cls` must be the caller's: only from a classmethod through `cls.`, same spelling
                    cdecos = {ast.unparse(d) for d in caller.node.decorator_list}
                    if not (f.value.id == "cls" and "classmethod" in cdecos and m.node.args.args and m.node.args.args[0].arg == "cls"):
                        return None, False
                drop = "staticmethod" not in decos
                return sh, drop
        if isinstance(f, ast.Attribute) and isinstance(f.value, ast.Name) and caller.cls is not None and f.value.id == caller.cls.name:
            m = project.lookup_method(caller.cls, f.attr)
            if m is not None and m.qualname in shapes and any(ast.unparse(d) == "staticmethod" for d in m.node.decorator_list):
                return shapes[m.qualname], False
        return None, False

    def subst(node, binding):
        class S(ast.NodeTransformer):
            def visit_Name(self, n):
                return ast.copy_location(copy.deepcopy(binding[n.id]), n) if n.id in binding and isinstance(n.ctx, ast.Load) else n

        return S().visit(copy.deepcopy(node))

    for _pass in range(3):
        changed = False
        for q, caller in list(project.functions.items()):
            if q in shapes and q not in rec:
                pass  # helpers calling helpers are inlined too, so that chains collapse
            fn = caller.node
            used = {n.id for n in ast.walk(fn) if isinstance(n, ast.Name)} | _params(fn)
            # (a) expression helpers, anywhere in an expression
            class E(ast.NodeTransformer):
                def visit_Call(self, c):
                    self.generic_visit(c)
                    got, drop = resolve(c, caller)
                    if got is None:
                        return c
                    hfi, ps, defaults, sh = got
                    if sh[0] != "expr" or hfi is caller:
                        return c
                    b = _bind(c, ps, defaults, drop)
                    if b is None:
                        return c
                    env = dict(b)
                    for st in sh[1]:
                        env[st.targets[0].id] = subst(st.value, env)
                    nonlocal_count[0] += 1
                    inlined_sites[hfi.qualname] = inlined_sites.get(hfi.qualname, 0) + 1
                    return _relocate(subst(sh[2], env), c)

            nonlocal_count = [0]
            for i, st in enumerate(list(fn.body)):
                fn.body[i] = E().visit(st)
            if nonlocal_count[0]:
                count += nonlocal_count[0]
                changed = True
            # (b0) a statement helper called inside a larger expression is first hoisted into a temporary
            #      (`y = g(self._h(x))` -> `_h_tN = self._h(x); y = g(_h_tN)`), when the call is evaluated unconditionally
            for owner, blk in list(_blocks(fn)):
                i = 0
                while i < len(blk):
                    st = blk[i]
                    roots = []
                    attr = "value"
                    if isinstance(st, (ast.Assign, ast.AnnAssign, ast.AugAssign, ast.Return, ast.Expr)) and getattr(st, "value", None) is not None:
                        roots = [st.value]
                    elif isinstance(st, ast.If):
                        roots, attr = [st.test], "test"  # evaluated once, before either branch
                    hoisted = False
                    for root in roots:
                        for c in ast.walk(root):
                            if not isinstance(c, ast.Call) or (c is root and attr != "test"):
                                continue
                            got, drop = resolve(c, caller)
                            if got is None or got[3][0] != "stmts" or got[0] is caller or got[3][2] is None:
                                continue
                            if not _unconditional(root, c):
                                continue
                            _H[0] += 1
                            tmp = f"_{got[0].name.strip('_')}_t{_H[0]}"
                            new_asg = ast.copy_location(ast.Assign(targets=[ast.Name(id=tmp, ctx=ast.Store())], value=c), st)
                            ast.fix_missing_locations(new_asg)

                            class H(ast.NodeTransformer):
                                def visit_Call(self, n):
                                    if n is c:
                                        return ast.copy_location(ast.Name(id=tmp, ctx=ast.Load()), n)
                                    return self.generic_visit(n)

                            setattr(st, attr, H().visit(getattr(st, attr)))
                            blk.insert(i, new_asg)
                            hoisted = True
                            changed = True
                            break
                        if hoisted:
                            break
                    i += 1
            # (b) statement helpers at statement level
            for owner, blk in list(_blocks(fn)):
                i = 0
                while i < len(blk):
                    st = blk[i]
                    call = None
                    form = None
                    if isinstance(st, ast.Expr) and isinstance(st.value, ast.Call):
                        call, form = st.value, "expr"
                    elif isinstance(st, ast.Assign) and len(st.targets) == 1 and isinstance(st.value, ast.Call):
                        call, form = st.value, "assign"
                    elif isinstance(st, ast.Return) and isinstance(st.value, ast.Call):
                        call, form = st.value, "return"
                    if call is None:
                        i += 1
                        continue
                    got, drop = resolve(call, caller)
                    if got is None or got[3][0] != "stmts" or got[0] is caller:
                        i += 1
                        continue
                    hfi, ps, defaults, sh = got
                    b = _bind(call, ps, defaults, drop)
                    if b is None or (form in ("assign", "return") and sh[2] is None and form == "assign"):
                        i += 1
                        continue
                    _H[0] += 1
                    pre = []
                    ren = {}
                    # parameters become aliases (inlined later when safe); helper locals keep their spelling unless taken
                    sren = {}  # helper parameters that the helper rebinds: their stores are renamed too
                    for p_, a in b.items():
                        rebound = any(isinstance(x, ast.Name) and x.id == p_ and isinstance(x.ctx, (ast.Store, ast.Del)) for x in ast.walk(hfi.node))
                        # `p += v` on a parameter annotated ndarray acts in place on the caller's array (numpy): the
                        # helper's augmented assignments are the caller's
                        aug_only = rebound and all(
                            any(isinstance(au, ast.AugAssign) and au.target is x for au in ast.walk(hfi.node))
                            for x in ast.walk(hfi.node)
                            if isinstance(x, ast.Name) and x.id == p_ and isinstance(x.ctx, (ast.Store, ast.Del))
                        )
                        ann = next((ar.annotation for ar in hfi.node.args.args + hfi.node.args.kwonlyargs if ar.arg == p_), None)
                        if isinstance(a, (ast.Name, ast.Constant)) and not rebound:
                            ren[p_] = a
                        elif isinstance(a, ast.Name) and aug_only and ann is not None and "ndarray" in ast.unparse(ann):
                            ren[p_] = a
                            sren[p_] = a.id
                        elif isinstance(a, ast.Name) and rebound and not any(isinstance(x, ast.Name) and x.id == a.id and isinstance(x.ctx, ast.Load) and getattr(x, "lineno", 0) > getattr(st, "end_lineno", getattr(st, "lineno", 0)) for x in ast.walk(fn)):
                            # the caller's variable is dead after the call: the helper's rebinding may act on it directly
                            ren[p_] = a
                            sren[p_] = a.id
                        else:
                            nm = f"{p_}_h{_H[0]}"
                            pre.append(ast.copy_location(ast.Assign(targets=[ast.Name(id=nm, ctx=ast.Store())], value=copy.deepcopy(a)), st))
                            ren[p_] = ast.Name(id=nm, ctx=ast.Load())
                            if rebound:
                                sren[p_] = nm
                    comp_bound = {x.id for c_ in ast.walk(hfi.node) if isinstance(c_, ast.comprehension) for x in ast.walk(c_.target) if isinstance(x, ast.Name)}
                    plain_bound = {n.id for n in ast.walk(hfi.node) if isinstance(n, ast.Name) and isinstance(n.ctx, (ast.Store, ast.Del))} - comp_bound
                    arg_names = {x.id for a_ in b.values() for x in ast.walk(a_) if isinstance(x, ast.Name)}
                    # a comprehension's own variable lives in the comprehension's scope: no clash with the caller's names
                    # unless a substituted argument mentions the same spelling
                    keep_comp = {n for n in comp_bound if n not in plain_bound and n not in arg_names}
                    hl = {n.id for n in ast.walk(hfi.node) if isinstance(n, ast.Name) and isinstance(n.ctx, (ast.Store, ast.Del))} - set(ps) - keep_comp
                    lren = {n: (f"{n}_h{_H[0]}" if n in used else n) for n in hl}
                    direct = None
                    if form == "assign" and isinstance(st.targets[0], ast.Name) and isinstance(sh[2], ast.Name) and sh[2].id in hl:
                        # `target = helper()` where the helper returns one of its locals: that local *is* the target
                        direct = st.targets[0].id
                        if not any(isinstance(x, ast.Name) and x.id == direct for b_ in sh[1] for x in ast.walk(b_)) or direct == sh[2].id:
                            lren[sh[2].id] = direct
                        else:
                            direct = None

                    class R(ast.NodeTransformer):
                        def visit_Name(self, n):
                            if n.id in ren and isinstance(n.ctx, ast.Load):
                                return ast.copy_location(copy.deepcopy(ren[n.id]), n)
                            if n.id in sren and isinstance(n.ctx, (ast.Store, ast.Del)):
                                return ast.copy_location(ast.Name(id=sren[n.id], ctx=n.ctx), n)
                            if n.id in lren:
                                return ast.copy_location(ast.Name(id=lren[n.id], ctx=n.ctx), n)
                            return n

                    body = [R().visit(copy.deepcopy(x)) for x in sh[1]]
                    tail = []
                    if sh[2] is not None:
                        rv = R().visit(copy.deepcopy(sh[2]))
                        if form == "assign" and direct is not None:
                            tail = []
                        elif form == "assign":
                            tail = [ast.copy_location(ast.Assign(targets=copy.deepcopy(st.targets), value=rv), st)]
                        elif form == "return":
                            tail = [ast.copy_location(ast.Return(value=rv), st)]
                    elif form == "return":
                        tail = [ast.copy_location(ast.Return(value=None), st)]
                    newst = pre + body + tail
                    for x in newst:
                        _relocate(x, st)
                    inlined_sites[hfi.qualname] = inlined_sites.get(hfi.qualname, 0) + 1
                    blk[i : i + 1] = newst or [ast.copy_location(ast.Pass(), st)]
                    used |= set(lren.values())
                    count += 1
                    changed = True
                    i += len(newst) or 1
            if hasattr(caller, "_cfg"):
                try:
                    del caller._cfg
                except AttributeError:
                    pass
        if not changed:
            break
    for fi_ in project.functions.values():
        if any(getattr(x, "_reloc", False) for x in ast.walk(fi_.node)):
            _renumber_relocated(fi_.node)
    # a helper whose every call site was inlined is dead code for the analysis: rules that enumerate functions must
    # not see its body a second time, out of context
    for q, (hfi, ps, defaults, sh) in shapes.items():
        if not inlined_sites.get(q):
            continue
        left = 0
        for fi in project.functions.values():
            if fi is hfi:
                continue
            for c in ast.walk(fi.node):
                if isinstance(c, ast.Call):
                    f = c.func
                    nm = f.attr if isinstance(f, ast.Attribute) else getattr(f, "id", None)
                    if nm == hfi.name:
                        left += 1
        if left == 0:
            project.functions.pop(q, None)
            if hfi.cls is not None and hfi.cls.methods.get(hfi.name) is hfi:
                hfi.cls.methods.pop(hfi.name, None)
            elif hfi.cls is None and hfi.module.functions.get(hfi.name) is hfi:
                hfi.module.functions.pop(hfi.name, None)
    return count


def materialise_inherited(project, rec):
    """Undo `pull up method` / `template method`: a method the record knows on class C (`C.m`) that C no longer defines
    but now inherits from a base class is copied into C in memory, so that `self.helper(...)` calls in it resolve to
    C's own overrides (and are then inlined like any other new helper).  The copy runs exactly the inherited code with
    the subclass as receiver - what the interpreter does."""
    import copy

    from .model import FunctionInfo

    n = 0
    for q in list(rec):
        if "#" in q or q in project.functions:
            continue
        cq, _, m = q.rpartition(".")
        ci = project.classes.get(cq)
        if ci is None or m in ci.methods:
            continue
        base = project.lookup_method(ci, m)
        if base is None or base.cls is ci:
            continue
        node = copy.deepcopy(base.node)
        fi = FunctionInfo(q, m, node, ci.module, ci, base.kind)
        ci.methods[m] = fi
        project.functions[q] = fi
        n += 1
    return n


def absorb_fill_in_params(project, rec):
    """A parameter `P=None` that did not exist when the spellings were recorded (its name is a recorded LOCAL of the
    function) and is filled in on demand - `if P is None: P = E` as a top-level statement - is an optional way to hand
    over a value the function would compute itself.  When every call site in the project that passes it explicitly
    passes exactly `E` (callee parameters replaced by the site's own arguments, the caller's single-definition locals
    inlined), the parameter carries no information: it is dropped, the guard becomes `P = E`, and the argument is
    removed from those call sites.  One site that passes anything else keeps the parameter (the rules then see a name
    bound on two paths and say so)."""
    from rsa.terms import canon, inline_locals

    done = 0
    by_name = {}
    for q, fi in project.functions.items():
        by_name.setdefault(fi.name, []).append(fi)
    for q, fi in list(project.functions.items()):
        if q not in rec or "#" in q:
            continue
        rec_names = {x[0] for x in rec[q].get("locals", [])}
        a = fi.node.args
        pos = a.posonlyargs + a.args
        dflt = dict(zip([x.arg for x in pos][len(pos) - len(a.defaults) :], a.defaults))
        dflt.update({x.arg: d for x, d in zip(a.kwonlyargs, a.kw_defaults) if d is not None})
        for name, d in list(dflt.items()):
            if not (isinstance(d, ast.Constant) and d.value is None and name in rec_names):
                continue
            guard = None
            for i, st in enumerate(fi.node.body):
                if isinstance(st, ast.If) and not st.orelse and len(st.body) == 1 and isinstance(st.body[0], ast.Assign) and len(st.body[0].targets) == 1 and isinstance(st.body[0].targets[0], ast.Name) and st.body[0].targets[0].id == name and ast.unparse(st.test) == f"{name} is None":
                    guard = (i, st.body[0].value)
                    break
            if guard is None:
                continue
            stores = sum(1 for n in ast.walk(fi.node) if isinstance(n, ast.Name) and isinstance(n.ctx, ast.Store) and n.id == name)
            if stores != 1 or any(isinstance(n, ast.Name) and n.id == name for n in ast.walk(guard[1])):
                continue
            # no earlier statement reads the parameter
            if any(isinstance(n, ast.Name) and n.id == name for st in fi.node.body[: guard[0]] for n in ast.walk(st)):
                continue
            if len(by_name.get(fi.name, [])) != 1:
                continue
            params = [x.arg for x in pos]
            drop_first = fi.cls is not None and params and params[0] in ("self", "cls")
            idx = params.index(name) if name in params else None
            sites, ok = [], True
            for caller in project.functions.values():
                for c in ast.walk(caller.node):
                    if not isinstance(c, ast.Call):
                        continue
                    f = c.func
                    cn = f.id if isinstance(f, ast.Name) else f.attr if isinstance(f, ast.Attribute) else None
                    if cn != fi.name:
                        continue
                    if any(isinstance(x, ast.Starred) for x in c.args) or any(k.arg is None for k in c.keywords):
                        ok = False
                        continue
                    cpar = params[1:] if (drop_first and isinstance(f, ast.Attribute)) else params
                    bind = {cpar[i]: x for i, x in enumerate(c.args) if i < len(cpar)}
                    bind.update({k.arg: k.value for k in c.keywords})
                    if name not in bind:
                        continue

                    class S(ast.NodeTransformer):
                        def visit_Name(self, n):
                            return copy.deepcopy(bind[n.id]) if n.id in bind and n.id != name else n

                    want = S().visit(copy.deepcopy(guard[1]))
                    missing = [n.id for n in ast.walk(guard[1]) if isinstance(n, ast.Name) and n.id in params and n.id not in bind and n.id != name]
                    got = inline_locals(caller.node, bind[name])
                    want = inline_locals(caller.node, want)
                    try:
                        same = not missing and canon(got) == canon(want)
                    except Exception:  # noqa: BLE001 - not comparable
                        same = False
                    if not same:
                        ok = False
                    sites.append(c)
            if not ok:
                continue
            for c in sites:
                cpar = params[1:] if (drop_first and isinstance(c.func, ast.Attribute)) else params
                c.keywords = [k for k in c.keywords if k.arg != name]
                if name in cpar and cpar.index(name) < len(c.args):
                    if cpar.index(name) != len(c.args) - 1:
                        continue  # a positional argument in the middle: leave the site alone
                    c.args = c.args[:-1]
            # drop the parameter, make the guard unconditional
            if name in [x.arg for x in a.kwonlyargs]:
                k = [x.arg for x in a.kwonlyargs].index(name)
                del a.kwonlyargs[k]
                del a.kw_defaults[k]
            elif idx is not None and idx == len(pos) - 1 and a.args and a.args[-1].arg == name:
                a.args.pop()
                a.defaults.pop()
            else:
                continue
            gi, val = guard
            new = ast.Assign(targets=[ast.Name(id=name, ctx=ast.Store())], value=val)
            ast.copy_location(new, fi.node.body[gi])
            ast.fix_missing_locations(new)
            fi.node.body[gi] = new
            done += 1
    return done


def normalise(project, path=PINNED):
    """Alpha-normalise every function of ``project`` in place; returns statistics for the evidence."""
    stats = {"functions_recorded": 0, "functions_renamed": 0, "locals_renamed": 0, "comparisons_mirrored": 0, "locals_inlined": 0, "locals_reextracted": 0, "examples": []}
    if not os.path.exists(path):
        return stats
    with open(path) as fh:
        rec = json.load(fh)
    stats["functions_recorded"] = sum(1 for k in rec if "#" not in k)
    stats["inherited_methods_materialised"] = materialise_inherited(project, rec)
    try:
        stats["module_constants_inlined"] = inline_new_module_constants(project, rec)
    except RecursionError:  # pragma: no cover
        stats["module_constants_inlined"] = 0
    try:
        stats["helper_calls_inlined"] = inline_new_helpers(project, rec)
    except RecursionError:  # pragma: no cover
        stats["helper_calls_inlined"] = 0
    stats["generators_inlined"] = inline_new_generators(project, rec)
    stats["fill_in_parameters_absorbed"] = absorb_fill_in_params(project, rec)
    # innermost (longest qualified name) first so that a nested function is settled before its parent
    for q in sorted(project.functions, key=lambda s: -s.count(".")):
        fi = project.functions[q]
        if q not in rec:
            continue
        rec_locals = [tuple(x) for x in rec[q].get("locals", [])]
        rec_names = {x[0] for x in rec_locals}
        rec_defs = [tuple(x) for x in rec[q].get("defs", [])]
        try:
            matmul_to_recorded_form(fi.node, rec_defs)
            for _round in range(12):
                progress = 0
                m = plan(fi.node, rec_locals)
                if m:
                    rename_in_function(fi.node, m)
                    stats["locals_renamed"] += len(m)
                    progress += len(m)
                    if len(stats["examples"]) < 5:
                        stats["examples"].append({"function": q, "renamed": m})
                if rec[q].get("compares"):
                    k = mirror_comparisons(fi.node, rec[q]["compares"])
                    stats["comparisons_mirrored"] += k
                    progress += k
                present = {c[0] for c in function_locals(fi.node)}
                k = reextract(fi.node, rec_defs, present)
                stats["locals_reextracted"] += k
                progress += k
                if not progress:
                    # only when renaming / mirroring / re-extraction have settled: what is still unrecorded is new
                    progress += loops_to_comprehensions(fi.node, rec_names)
                    progress += split_parallel_assignments(fi.node, rec_names)
                    k = inline_new_locals(fi.node, rec_names)
                    stats["locals_inlined"] += k
                    progress += k
                if not progress:
                    progress += absorb_renaming_aliases(fi.node, rec_names)
                if not progress:
                    progress += drop_dead_new_locals(fi.node, rec_names | _params(fi.node))
                if not progress:
                    progress += split_ret_tuples(fi.node)
                if not progress:
                    progress += split_chain_loops(fi.node, rec_names | _params(fi.node))
                if not progress:
                    progress += collapse_copy_in_out(fi.node, rec_names | _params(fi.node))
                if not progress:
                    progress += collapse_slice_fill(fi.node, rec_names | _params(fi.node))
                if not progress:
                    progress += split_conditional_addend(fi.node, rec_names | _params(fi.node))
                if not progress:
                    progress += split_selector_conditionals(fi.node, rec_names | _params(fi.node))
                if not progress:
                    progress += unroll_constant_loops(fi.node, rec_names | _params(fi.node))
                if not progress:
                    progress += fold_list_concat(fi.node)
                if not progress:
                    progress += hoist_common_branch_statements(fi.node)
                if not progress:
                    progress += fold_conditional_defs(fi.node, rec_defs, rec_names)
                if not progress:
                    break
                if _round == 0:
                    stats["functions_renamed"] += 1
        except RecursionError:  # pragma: no cover
            pass
    return stats


def _module_constants(mod):
    """name -> value for names assigned exactly once at module level by a plain `NAME = expr` / `NAME: T = expr`."""
    seen, vals = {}, {}
    for st in mod.tree.body:
        tg, val = None, None
        if isinstance(st, ast.Assign) and len(st.targets) == 1 and isinstance(st.targets[0], ast.Name):
            tg, val = st.targets[0].id, st.value
        elif isinstance(st, ast.AnnAssign) and isinstance(st.target, ast.Name) and st.value is not None:
            tg, val = st.target.id, st.value
        if tg is not None:
            seen[tg] = seen.get(tg, 0) + 1
            vals[tg] = val
    return {k: v for k, v in vals.items() if seen[k] == 1}


def _pure_constant_expr(e):
    """Literal-ish expression: literals, names, arithmetic, containers and calls of plain constructors on such -
    nothing that reads mutable state (no attribute of a name other than a module alias call)."""
    for n in ast.walk(e):
        if isinstance(n, (ast.Lambda, ast.Await, ast.Yield, ast.YieldFrom, ast.NamedExpr, ast.ListComp, ast.DictComp, ast.SetComp, ast.GeneratorExp, ast.Dict)):
            return False
    return True


def inline_new_module_constants(project, rec):
    """A module-level constant the record does not know (`_FLIP = diagflat([...])` hoisted out of a function) is put
    back at its uses inside that module's functions - the inverse of `move constant to module level`."""
    import copy

    count = 0
    for mod in {fi.module.name: fi.module for fi in project.functions.values()}.values():
        known = rec.get(f"{mod.name}#globals")
        if known is None:
            continue
        consts = {}
        folded = {}
        for k, v in _module_constants(mod).items():
            if k in known:
                continue
            try:
                val = const_fold(v, folded)
                folded[k] = val
                if isinstance(val, (tuple, list)) or not _pure_constant_expr(v):
                    consts[k] = value_to_ast(val)  # a table built by a comprehension / range: its literal
                    continue
            except _NoFold:
                pass
            if _pure_constant_expr(v):
                consts[k] = v
        # a module-level object that anything in the module modifies (subscript / attribute store, mutating method,
        # `global` re-binding, `out=`) is state, not a constant: it stays where it is
        if consts:
            from rsa.inplace import _MUT_METHODS, view_root

            mutated = set()
            for n in ast.walk(mod.tree):
                if isinstance(n, (ast.Subscript, ast.Attribute)) and isinstance(n.ctx, (ast.Store, ast.Del)):
                    root = view_root(n)
                    if root:
                        mutated.add(root)
                elif isinstance(n, ast.AugAssign):
                    root = view_root(n.target)
                    if root:
                        mutated.add(root)
                elif isinstance(n, ast.Global):
                    mutated.update(n.names)
                elif isinstance(n, ast.Call):
                    if isinstance(n.func, ast.Attribute) and n.func.attr in _MUT_METHODS | {"setdefault", "popitem", "add", "discard"}:
                        root = view_root(n.func.value)
                        if root:
                            mutated.add(root)
                    for k in n.keywords:
                        if k.arg == "out":
                            root = view_root(k.value)
                            if root:
                                mutated.add(root)
            for k in list(consts):
                if k in mutated:
                    del consts[k]
        if not consts:
            continue
        # constants defined in terms of other new constants (`B = (*A, x)`): substitute transitively, then flatten
        # starred literal tuples
        for _round in range(5):
            again = False
            for k in list(consts):

                class T(ast.NodeTransformer):
                    def visit_Name(self, n):
                        nonlocal again
                        if isinstance(n.ctx, ast.Load) and n.id in consts and n.id != k:
                            again = True
                            return ast.copy_location(copy.deepcopy(consts[n.id]), n)
                        return n

                    def visit_Tuple(self, n):
                        self.generic_visit(n)
                        if any(isinstance(x, ast.Starred) and isinstance(x.value, (ast.Tuple, ast.List)) for x in n.elts):
                            elts = []
                            for x in n.elts:
                                elts.extend(x.value.elts if isinstance(x, ast.Starred) and isinstance(x.value, (ast.Tuple, ast.List)) else [x])
                            n.elts = elts
                        return n

                    visit_List = visit_Tuple

                consts[k] = T().visit(copy.deepcopy(consts[k]))
            if not again:
                break
        for fi in project.functions.values():
            if fi.module is not mod:
                continue
            bound = {n.id for n in ast.walk(fi.node) if isinstance(n, ast.Name) and isinstance(n.ctx, ast.Store)} | {a.arg for a in ast.walk(fi.node) if isinstance(a, ast.arg)}

            class S(ast.NodeTransformer):
                def visit_Name(self, n):
                    nonlocal count
                    if isinstance(n.ctx, ast.Load) and n.id in consts and n.id not in bound:
                        count += 1
                        return ast.copy_location(copy.deepcopy(consts[n.id]), n)
                    return n

            for i, st in enumerate(list(fi.node.body)):
                fi.node.body[i] = S().visit(st)
            if hasattr(fi, "_cfg"):
                del fi._cfg
    return count


class _NoFold(Exception):
    pass


_FOLD_LIMIT = 400


def const_fold(e, env=None):
    """Value of a constant expression built from literals only: numbers, strings, tuples / lists, names of folded
    module constants, + - * // %, f-strings, range / tuple / list / enumerate / zip / len / str / int / reversed and
    comprehensions over such values.  This is constant folding (what a compiler does with a literal table), not
    execution of repository code: no function of the repository and no attribute of an object is ever evaluated.
    Raises _NoFold for anything else."""
    env = env or {}

    def go(n, loc):
        if isinstance(n, ast.Constant):
            return n.value
        if isinstance(n, (ast.Tuple, ast.List)):
            if any(isinstance(x, ast.Starred) for x in n.elts):
                raise _NoFold
            vals = [go(x, loc) for x in n.elts]
            return tuple(vals) if isinstance(n, ast.Tuple) else list(vals)
        if isinstance(n, ast.Name):
            if n.id in loc:
                return loc[n.id]
            if n.id in env:
                return env[n.id]
            raise _NoFold
        if isinstance(n, ast.UnaryOp) and isinstance(n.op, (ast.USub, ast.UAdd)):
            v = go(n.operand, loc)
            if isinstance(v, (int, float)) and not isinstance(v, bool):
                return -v if isinstance(n.op, ast.USub) else v
            raise _NoFold
        if isinstance(n, ast.BinOp):
            a, b = go(n.left, loc), go(n.right, loc)
            num = lambda x: isinstance(x, (int, float)) and not isinstance(x, bool)  # noqa: E731
            if isinstance(n.op, ast.Add) and ((num(a) and num(b)) or (isinstance(a, str) and isinstance(b, str)) or (isinstance(a, tuple) and isinstance(b, tuple)) or (isinstance(a, list) and isinstance(b, list))):
                return a + b
            if num(a) and num(b):
                if isinstance(n.op, ast.Sub):
                    return a - b
                if isinstance(n.op, ast.Mult):
                    return a * b
                if isinstance(n.op, ast.FloorDiv) and b != 0:
                    return a // b
                if isinstance(n.op, ast.Mod) and b != 0:
                    return a % b
            raise _NoFold
        if isinstance(n, ast.JoinedStr):
            out = ""
            for part in n.values:
                if isinstance(part, ast.Constant):
                    out += str(part.value)
                elif isinstance(part, ast.FormattedValue) and part.conversion == -1 and part.format_spec is None:
                    v = go(part.value, loc)
                    if not isinstance(v, (int, str)) or isinstance(v, bool):
                        raise _NoFold
                    out += str(v)
                else:
                    raise _NoFold
            return out
        if isinstance(n, ast.Subscript) and not isinstance(n.slice, ast.Slice):
            v, i = go(n.value, loc), go(n.slice, loc)
            if isinstance(v, (tuple, list, str)) and isinstance(i, int) and not isinstance(i, bool) and -len(v) <= i < len(v):
                return v[i]
            raise _NoFold
        if isinstance(n, ast.Call) and isinstance(n.func, ast.Name) and not n.keywords:
            f = n.func.id
            args = [go(a, loc) for a in n.args]
            seq = lambda x: isinstance(x, (tuple, list, range, str))  # noqa: E731
            if f == "range" and 1 <= len(args) <= 3 and all(isinstance(a, int) and not isinstance(a, bool) for a in args):
                r = range(*args)
                if len(r) > _FOLD_LIMIT:
                    raise _NoFold
                return tuple(r)
            if f in ("tuple", "list") and len(args) == 1 and seq(args[0]):
                return tuple(args[0]) if f == "tuple" else list(args[0])
            if f == "enumerate" and 1 <= len(args) <= 2 and seq(args[0]) and (len(args) == 1 or isinstance(args[1], int)):
                return tuple(enumerate(args[0], *(args[1:])))
            if f == "zip" and args and all(seq(a) for a in args):
                return tuple(zip(*args))
            if f == "reversed" and len(args) == 1 and seq(args[0]):
                return tuple(reversed(args[0]))
            if f == "len" and len(args) == 1 and seq(args[0]):
                return len(args[0])
            if f == "str" and len(args) == 1 and isinstance(args[0], (int, str)) and not isinstance(args[0], bool):
                return str(args[0])
            if f == "int" and len(args) == 1 and isinstance(args[0], int):
                return int(args[0])
            raise _NoFold
        if isinstance(n, (ast.GeneratorExp, ast.ListComp)):
            out = []

            def gen(i, loc2):
                if i == len(n.generators):
                    out.append(go(n.elt, loc2))
                    if len(out) > _FOLD_LIMIT:
                        raise _NoFold
                    return
                g = n.generators[i]
                if g.is_async:
                    raise _NoFold
                it = go(g.iter, loc2)
                if not isinstance(it, (tuple, list, str)):
                    raise _NoFold
                for v in it:
                    loc3 = dict(loc2)
                    _bind_target(g.target, v, loc3)
                    ok = True
                    for cond in g.ifs:
                        c = go(cond, loc3)
                        if not isinstance(c, bool):
                            raise _NoFold
                        ok = ok and c
                    if ok:
                        gen(i + 1, loc3)

            gen(0, loc)
            return list(out) if isinstance(n, ast.ListComp) else tuple(out)
        if isinstance(n, ast.Compare) and len(n.ops) == 1:
            a, b = go(n.left, loc), go(n.comparators[0], loc)
            if type(a) is type(b) and isinstance(a, (int, str)):
                op = type(n.ops[0])
                if op in (ast.Eq, ast.NotEq, ast.Lt, ast.LtE, ast.Gt, ast.GtE):
                    return {ast.Eq: a == b, ast.NotEq: a != b, ast.Lt: a < b, ast.LtE: a <= b, ast.Gt: a > b, ast.GtE: a >= b}[op]
            raise _NoFold
        raise _NoFold

    return go(e, {})


def _bind_target(tg, v, loc):
    if isinstance(tg, ast.Name):
        loc[tg.id] = v
    elif isinstance(tg, (ast.Tuple, ast.List)) and isinstance(v, (tuple, list)) and len(v) == len(tg.elts) and not any(isinstance(x, ast.Starred) for x in tg.elts):
        for x, y in zip(tg.elts, v):
            _bind_target(x, y, loc)
    else:
        raise _NoFold


def value_to_ast(v):
    if isinstance(v, tuple):
        return ast.Tuple(elts=[value_to_ast(x) for x in v], ctx=ast.Load())
    if isinstance(v, list):
        return ast.List(elts=[value_to_ast(x) for x in v], ctx=ast.Load())
    if isinstance(v, (int, float)) and not isinstance(v, bool) and v < 0:
        return ast.UnaryOp(op=ast.USub(), operand=ast.Constant(value=-v))
    return ast.Constant(value=v)


def unroll_constant_loops(fn, rec_names):
    """`for i, name in enumerate(("a", "b")): kw[name] = v[i]` -> `kw["a"] = v[0]; kw["b"] = v[1]`, and a list
    comprehension over a literal table -> the list literal: the inverse of `replace repeated statements by a loop over
    a table of names`.  Only for loops whose iterable folds to a constant (see const_fold) or is written as a literal
    tuple / list of (side-effect free) expressions, whose loop variables are not locals of the recorded function, and
    whose body neither leaves the loop (break / continue / return) nor rebinds a loop variable."""
    import copy

    done = [0]

    def loop_vars(tg):
        return {x.id for x in ast.walk(tg) if isinstance(x, ast.Name)}

    def subst(node, binding):
        class S(ast.NodeTransformer):
            def visit_Name(self, n):
                if n.id in binding and isinstance(n.ctx, ast.Load):
                    return ast.copy_location(copy.deepcopy(binding[n.id]), n)
                return n

        return S().visit(copy.deepcopy(node))

    def items_of(it):
        """The elements of the iterable as expressions, or None."""
        try:
            seq = const_fold(it)
            if isinstance(seq, (tuple, list)) and len(seq) <= 64:
                return [value_to_ast(v) for v in seq]
            return None
        except _NoFold:
            pass
        if isinstance(it, (ast.Tuple, ast.List)) and not any(isinstance(x, ast.Starred) for x in it.elts) and len(it.elts) <= 64:
            if all(not any(isinstance(y, (ast.Call, ast.NamedExpr, ast.Yield, ast.Await, ast.Lambda)) for y in ast.walk(x)) for x in it.elts):
                return list(it.elts)
        if isinstance(it, ast.Call) and isinstance(it.func, ast.Name) and it.func.id == "enumerate" and len(it.args) == 1 and not it.keywords:
            inner = items_of(it.args[0])
            if inner is not None:
                return [ast.Tuple(elts=[ast.Constant(value=i), x], ctx=ast.Load()) for i, x in enumerate(inner)]
        return None

    def bind(tg, item, binding):
        if isinstance(tg, ast.Name):
            binding[tg.id] = item
        elif isinstance(tg, (ast.Tuple, ast.List)) and isinstance(item, (ast.Tuple, ast.List)) and len(item.elts) == len(tg.elts) and not any(isinstance(x, ast.Starred) for x in tg.elts):
            for x, y in zip(tg.elts, item.elts):
                bind(x, y, binding)
        else:
            raise _NoFold

    def try_unroll_for(st):
        if not isinstance(st, ast.For) or st.orelse:
            return None
        vs = loop_vars(st.target)
        if not vs or vs & rec_names:
            return None
        seq = items_of(st.iter)
        if not seq:
            return None
        for x in ast.walk(ast.Module(body=st.body, type_ignores=[])):
            if isinstance(x, (ast.Break, ast.Continue, ast.Return, ast.Yield, ast.YieldFrom, ast.FunctionDef, ast.Lambda)):
                return None
            if isinstance(x, ast.Name) and isinstance(x.ctx, (ast.Store, ast.Del)) and x.id in vs:
                return None
        out = []
        for item in seq:
            binding = {}
            try:
                bind(st.target, item, binding)
            except _NoFold:
                return None
            for b_ in st.body:
                out.append(ast.copy_location(subst(b_, binding), st))
        return out

    def walk_body(body):
        i = 0
        while i < len(body):
            st = body[i]
            rep = try_unroll_for(st)
            if rep is not None:
                body[i : i + 1] = rep
                done[0] += 1
                continue  # the unrolled copies may contain loops that are constant now
            for fld in ("body", "orelse", "finalbody"):
                sub = getattr(st, fld, None)
                if isinstance(sub, list) and sub and isinstance(sub[0], ast.stmt):
                    walk_body(sub)
            for h in getattr(st, "handlers", []) or []:
                walk_body(h.body)
            i += 1

    walk_body(fn.body)

    def unroll_comp(n):
        vs = set()
        for g in n.generators:
            vs |= loop_vars(g.target)
        if vs & rec_names:
            return None
        out = []

        def gen(i, binding):
            if i == len(n.generators):
                out.append(subst(n.elt, binding))
                return
            g = n.generators[i]
            if g.ifs or g.is_async:
                raise _NoFold
            seq = items_of(subst(g.iter, binding))
            if seq is None:
                raise _NoFold
            for item in seq:
                b2 = dict(binding)
                bind(g.target, item, b2)
                gen(i + 1, b2)

        try:
            gen(0, {})
        except _NoFold:
            return None
        return out or None

    class C(ast.NodeTransformer):
        def visit_ListComp(self, n):
            self.generic_visit(n)
            out = unroll_comp(n)
            if out is None:
                return n
            done[0] += 1
            return ast.copy_location(ast.List(elts=out, ctx=ast.Load()), n)

        def visit_Assign(self, n):
            self.generic_visit(n)
            # `a, b, c = (f(k) for k in (K1, K2, K3))`: a generator consumed by unpacking
            if len(n.targets) == 1 and isinstance(n.targets[0], (ast.Tuple, ast.List)) and isinstance(n.value, ast.GeneratorExp):
                out = unroll_comp(n.value)
                if out is not None and len(out) == len(n.targets[0].elts):
                    done[0] += 1
                    n.value = ast.copy_location(ast.Tuple(elts=out, ctx=ast.Load()), n.value)
            return n

        def visit_Call(self, n):
            self.generic_visit(n)
            if isinstance(n.func, ast.Name) and n.func.id in ("tuple", "list") and len(n.args) == 1 and not n.keywords and isinstance(n.args[0], ast.GeneratorExp):
                out = unroll_comp(n.args[0])
                if out is not None:
                    done[0] += 1
                    lit = ast.Tuple(elts=out, ctx=ast.Load()) if n.func.id == "tuple" else ast.List(elts=out, ctx=ast.Load())
                    return ast.copy_location(lit, n)
            return n

    C().visit(fn)
    if done[0]:
        ast.fix_missing_locations(fn)
    return done[0]


def split_selector_conditionals(fn, rec_names):
    """`x = A if c1 else (B if c2 else None); if x is not None: BODY(x)` -> `if c1: BODY(A)` / `if c2: BODY(B)`:
    the inverse of `move a cascade of checks into a helper that returns the violated item or None`.  Only for a new
    local x that is not used after the test, whose selected values are attribute chains / constants (never None)."""
    import copy

    done = [0]

    def leaves(e, conds):
        if isinstance(e, ast.IfExp):
            return leaves(e.body, conds + [(e.test, True)]) + leaves(e.orelse, conds + [(e.test, False)])
        return [(conds, e)]

    def is_none(e):
        return isinstance(e, ast.Constant) and e.value is None

    def plain(e):
        return (isinstance(e, ast.Constant) and e.value not in (None, False, 0, "", 0.0)) or (isinstance(e, ast.Attribute) and all(isinstance(x, (ast.Attribute, ast.Name, ast.Load)) for x in ast.walk(e)))

    def used_later(name, stmts):
        return any(isinstance(x, ast.Name) and x.id == name for st in stmts for x in ast.walk(st))

    def leaves_block(body):
        return bool(body) and isinstance(body[-1], (ast.Return, ast.Raise, ast.Continue, ast.Break))

    def walk(body, tail_after):
        i = 0
        while i + 1 < len(body):
            a, b = body[i], body[i + 1]
            if isinstance(a, ast.Assign) and len(a.targets) == 1 and isinstance(a.targets[0], ast.Name) and a.targets[0].id not in rec_names and isinstance(a.value, ast.IfExp) and isinstance(b, ast.If) and not b.orelse:
                x = a.targets[0].id
                t = b.test
                positive = (isinstance(t, ast.Compare) and len(t.ops) == 1 and isinstance(t.ops[0], ast.IsNot) and isinstance(t.left, ast.Name) and t.left.id == x and is_none(t.comparators[0])) or (isinstance(t, ast.Name) and t.id == x)
                lv = leaves(a.value, [])
                # a right-leaning chain: every alternative but the last is selected by `c_k and not c_1 .. not c_(k-1)`
                chain_ok = all(all(pol is False for _c, pol in conds[:-1]) and (not conds or conds[-1][1] is True) for conds, _leaf in lv[:-1]) and all(pol is False for _c, pol in lv[-1][0])
                vals_ok = all(plain(leaf) for _c, leaf in lv[:-1]) and (is_none(lv[-1][1]) or plain(lv[-1][1]))
                if positive and chain_ok and vals_ok and not used_later(x, body[i + 2 :] + tail_after) and len(lv) >= 2:

                    def inst(leaf):
                        class S(ast.NodeTransformer):
                            def visit_Name(self, n):
                                return ast.copy_location(copy.deepcopy(leaf), n) if n.id == x and isinstance(n.ctx, ast.Load) else n

                        return [S().visit(copy.deepcopy(st)) for st in b.body]

                    branches = [(conds[-1][0], inst(leaf)) for conds, leaf in lv[:-1]]
                    last = None if is_none(lv[-1][1]) else inst(lv[-1][1])
                    if leaves_block(b.body):
                        new = [ast.copy_location(ast.If(test=copy.deepcopy(c), body=bd, orelse=[]), b) for c, bd in branches]
                        if last is not None:
                            new.extend(last)
                    else:
                        node = last or []
                        for c, bd in reversed(branches):
                            node = [ast.copy_location(ast.If(test=copy.deepcopy(c), body=bd, orelse=node), b)]
                        new = node
                    body[i : i + 2] = new
                    done[0] += 1
                    continue
            # (b) `x = V; if x is not None: BODY(x)` with a plain value, None, or another new local
            if isinstance(a, ast.Assign) and len(a.targets) == 1 and isinstance(a.targets[0], ast.Name) and a.targets[0].id not in rec_names and isinstance(b, ast.If) and not b.orelse:
                x = a.targets[0].id
                t = b.test
                positive = (isinstance(t, ast.Compare) and len(t.ops) == 1 and isinstance(t.ops[0], ast.IsNot) and isinstance(t.left, ast.Name) and t.left.id == x and is_none(t.comparators[0])) or (isinstance(t, ast.Name) and t.id == x)
                v = a.value
                if positive and not used_later(x, body[i + 2 :] + tail_after) and (is_none(v) or plain(v) or (isinstance(v, ast.Name) and v.id not in rec_names)):

                    def inst2(leaf):
                        class S(ast.NodeTransformer):
                            def visit_Name(self, n):
                                return ast.copy_location(copy.deepcopy(leaf), n) if n.id == x and isinstance(n.ctx, ast.Load) else n

                        return S().visit(copy.deepcopy(b))

                    if is_none(v):
                        body[i : i + 2] = []
                    elif plain(v):
                        body[i : i + 2] = inst2(v).body
                    else:
                        body[i : i + 2] = [inst2(v)]
                    done[0] += 1
                    continue
            # (b') `x = <boolean expression>; if x: BODY` (x a new local, not read afterwards): the test is the expression
            if isinstance(a, ast.Assign) and len(a.targets) == 1 and isinstance(a.targets[0], ast.Name) and a.targets[0].id not in rec_names and isinstance(b, ast.If) and isinstance(a.value, (ast.Compare, ast.BoolOp, ast.IfExp)) or (isinstance(a, ast.Assign) and len(a.targets) == 1 and isinstance(a.targets[0], ast.Name) and a.targets[0].id not in rec_names and isinstance(b, ast.If) and isinstance(a.value, ast.UnaryOp) and isinstance(a.value.op, ast.Not)):
                x = a.targets[0].id
                t = b.test
                core = t.operand if isinstance(t, ast.UnaryOp) and isinstance(t.op, ast.Not) else t
                reads = [n for st in [b] for n in ast.walk(st) if isinstance(n, ast.Name) and n.id == x]
                if isinstance(core, ast.Name) and core.id == x and len(reads) == 1 and not used_later(x, body[i + 2 :] + tail_after):
                    val = copy.deepcopy(a.value)
                    b.test = ast.copy_location(ast.UnaryOp(op=ast.Not(), operand=val), t) if core is not t else val
                    del body[i]
                    done[0] += 1
                    continue
            # (c) `if P: ..; x = E1 else: ..; x = E2` followed by `if x is not None: BODY`: the test moves to the end of
            #     both branches (x is assigned last in each, and nothing else reads it)
            if isinstance(a, ast.If) and a.orelse and isinstance(b, ast.If) and not b.orelse:
                t = b.test
                xn = None
                if isinstance(t, ast.Compare) and len(t.ops) == 1 and isinstance(t.ops[0], ast.IsNot) and isinstance(t.left, ast.Name) and is_none(t.comparators[0]):
                    xn = t.left.id
                elif isinstance(t, ast.Name):
                    xn = t.id

                def ends_with_assign(blk):
                    if not blk:
                        return False
                    last = blk[-1]
                    if isinstance(last, ast.Assign) and len(last.targets) == 1 and isinstance(last.targets[0], ast.Name) and last.targets[0].id == xn:
                        return True
                    # ... or with an if / else whose branches both end that way
                    return isinstance(last, ast.If) and bool(last.orelse) and ends_with_assign(last.body) and ends_with_assign(last.orelse)

                def sink(blk):
                    last = blk[-1]
                    if isinstance(last, ast.If):
                        sink(last.body)
                        sink(last.orelse)
                    else:
                        blk.append(copy.deepcopy(b))

                if xn is not None and xn not in rec_names and ends_with_assign(a.body) and ends_with_assign(a.orelse) and not used_later(xn, body[i + 2 :] + tail_after):
                    sink(a.body)
                    sink(a.orelse)
                    del body[i + 1]
                    done[0] += 1
                    continue
            i += 1
        for k, st in enumerate(body):
            after = body[k + 1 :] + tail_after
            for fld in ("body", "orelse", "finalbody"):
                sub = getattr(st, fld, None)
                if isinstance(sub, list) and sub and isinstance(sub[0], ast.stmt):
                    walk(sub, after if not isinstance(st, (ast.For, ast.While)) else after + [st])
            for h in getattr(st, "handlers", []) or []:
                walk(h.body, after)

    for _round in range(6):
        before = done[0]
        walk(fn.body, [])
        if done[0] == before:
            break
    if done[0]:
        ast.fix_missing_locations(fn)
    return done[0]


def inline_new_generators(project, rec):
    """A generator the record does not know, used as an iteration helper (`for t in self._steps(): BODY` or
    `x = [E(t) for t in self._steps()]`), is put back: the generator's body with its single `yield V` replaced by the
    consumer (`t = V; BODY` resp. `x.append(E(V))`) - the inverse of `extract the loop header into a generator`.
    Only for generators with exactly one `yield` statement (no value sent in, no return value, no try / with), and
    consumers that do not `continue` (which would skip the generator's own bookkeeping after the yield)."""
    import copy

    gens = {}
    for q, fi in project.functions.items():
        if q in rec or fi.kind == "nested":
            continue
        ys = [n for n in ast.walk(fi.node) if isinstance(n, (ast.Yield, ast.YieldFrom))]
        if len(ys) != 1 or not isinstance(ys[0], ast.Yield) or ys[0].value is None:
            continue
        if any(isinstance(n, (ast.Try, ast.With, ast.Lambda, ast.Global, ast.Nonlocal)) or (isinstance(n, (ast.FunctionDef, ast.ClassDef)) and n is not fi.node) for n in ast.walk(fi.node)):
            continue
        if any(isinstance(n, ast.Return) and n.value is not None for n in ast.walk(fi.node)):
            continue
        stmt = [n for n in ast.walk(fi.node) if isinstance(n, ast.Expr) and n.value is ys[0]]
        ps = _simple_params(fi.node)
        if len(stmt) != 1 or ps is None or any(ast.unparse(d) not in ("staticmethod",) for d in fi.node.decorator_list):
            continue
        a = fi.node.args
        defaults = dict(zip([x.arg for x in a.args][len(a.args) - len(a.defaults) :], a.defaults))
        gens[q] = (fi, ps, defaults, stmt[0])
    if not gens:
        return 0
    count = 0

    def resolve(call, caller):
        f = call.func
        if isinstance(f, ast.Name):
            q = f"{caller.module.name}.{f.id}"
            if q in gens:
                return gens[q], False
            tgt = caller.module.imports.get(f.id)
            if tgt in gens:
                return gens[tgt], False
        if isinstance(f, ast.Attribute) and isinstance(f.value, ast.Name) and f.value.id == "self" and caller.cls is not None:
            m = project.lookup_method(caller.cls, f.attr)
            if m is not None and m.qualname in gens:
                return gens[m.qualname], not any(ast.unparse(d) == "staticmethod" for d in m.node.decorator_list)
        return None, False

    def expand(got, drop, call, caller_node, consume):
        """statements of the generator with `yield V` replaced by consume(V)"""
        gfi, ps, defaults, ystmt = got
        b = _bind(call, ps, defaults, drop)
        if b is None:
            return None
        taken = {n.id for n in ast.walk(caller_node) if isinstance(n, ast.Name)}
        glocals = {n.id for n in ast.walk(gfi.node) if isinstance(n, ast.Name) and isinstance(n.ctx, (ast.Store, ast.Del))}
        ren = {g: (g if g not in taken else f"{g}_g{count + 1}") for g in glocals}
        body = [st for st in gfi.node.body if not (isinstance(st, ast.Expr) and isinstance(st.value, ast.Constant))]

        class S(ast.NodeTransformer):
            def visit_Name(self, n):
                if n.id in ren:
                    return ast.copy_location(ast.Name(id=ren[n.id], ctx=n.ctx), n)
                if n.id in b and isinstance(n.ctx, ast.Load):
                    return ast.copy_location(copy.deepcopy(b[n.id]), n)
                return n

            def visit_Expr(self, n):
                if n is ystmt_copy[0]:
                    v = self.visit(n.value.value)
                    return consume(v)
                return self.generic_visit(n)

            def visit_Return(self, n):
                return n

        out = []
        ystmt_copy = [None]
        for st in body:
            c = copy.deepcopy(st)
            # locate the copy of the yield statement by position
            orig = list(ast.walk(st))
            cop = list(ast.walk(c))
            for o, k in zip(orig, cop):
                if o is ystmt:
                    ystmt_copy[0] = k
            r = S().visit(c)
            if isinstance(r, list):
                out.extend(r)
            elif r is not None:
                out.append(r)
        if any(isinstance(n, ast.Return) for st in out for n in ast.walk(st)):
            return None
        return out

    for q, caller in list(project.functions.items()):
        if q not in rec:
            continue
        fn = caller.node
        changed = False
        for _owner, blk in list(_blocks(fn)):
            i = 0
            while i < len(blk):
                st = blk[i]
                new = None
                if isinstance(st, ast.For) and not st.orelse and isinstance(st.iter, ast.Call) and isinstance(st.target, (ast.Name, ast.Tuple)):
                    got, drop = resolve(st.iter, caller)
                    if got is not None and not any(isinstance(n, ast.Continue) for b_ in st.body for n in ast.walk(b_)):

                        def consume(v, st=st):
                            return [ast.copy_location(ast.Assign(targets=[copy.deepcopy(st.target)], value=v), st)] + copy.deepcopy(st.body)

                        new = expand(got, drop, st.iter, fn, consume)
                elif isinstance(st, ast.Assign) and len(st.targets) == 1 and isinstance(st.targets[0], ast.Name) and isinstance(st.value, ast.ListComp) and len(st.value.generators) == 1 and not st.value.generators[0].ifs and isinstance(st.value.generators[0].iter, ast.Call) and isinstance(st.value.generators[0].target, ast.Name):
                    g = st.value.generators[0]
                    got, drop = resolve(g.iter, caller)
                    if got is not None:
                        lst, var, elt = st.targets[0].id, g.target.id, st.value.elt

                        def consume(v, st=st, lst=lst, var=var, elt=elt):
                            class R(ast.NodeTransformer):
                                def visit_Name(self, n):
                                    return copy.deepcopy(v) if n.id == var and isinstance(n.ctx, ast.Load) else n

                            item = R().visit(copy.deepcopy(elt))
                            call = ast.Call(func=ast.Attribute(value=ast.Name(id=lst, ctx=ast.Load()), attr="append", ctx=ast.Load()), args=[item], keywords=[])
                            return [ast.copy_location(ast.Expr(value=call), st)]

                        body = expand(got, drop, g.iter, fn, consume)
                        if body is not None:
                            new = [ast.copy_location(ast.Assign(targets=[ast.Name(id=lst, ctx=ast.Store())], value=ast.List(elts=[], ctx=ast.Load())), st)] + body
                if new is not None:
                    for x in new:
                        ast.fix_missing_locations(x)
                    blk[i : i + 1] = new
                    count += 1
                    changed = True
                    i += len(new)
                    continue
                i += 1
        if changed and hasattr(caller, "_cfg"):
            del caller._cfg
    return count


def collapse_copy_in_out(fn, rec_names):
    """`t = x; ...t...; x = t` (t a new local, x not touched in between, t dead afterwards) -> the statements in
    between with t spelled x: what inlining a helper that rebinds its parameters and returns them leaves behind."""
    done = [0]

    def names(st, ctxs):
        return {n.id for n in ast.walk(st) if isinstance(n, ast.Name) and isinstance(n.ctx, ctxs)}

    def walk(body, after):
        i = 0
        while i < len(body):
            a = body[i]
            if isinstance(a, ast.Assign) and len(a.targets) == 1 and isinstance(a.targets[0], ast.Name) and isinstance(a.value, ast.Name) and a.targets[0].id not in rec_names and a.targets[0].id != a.value.id:
                t, x = a.targets[0].id, a.value.id
                j = None
                for k in range(i + 1, len(body)):
                    b = body[k]
                    if isinstance(b, ast.Assign) and len(b.targets) == 1 and isinstance(b.targets[0], ast.Name) and b.targets[0].id == x and isinstance(b.value, ast.Name) and b.value.id == t:
                        j = k
                        break
                if j is not None:
                    between = body[i + 1 : j]
                    touched = any(x in names(st, (ast.Load, ast.Store, ast.Del)) for st in between)
                    # every occurrence of t in the function lies inside the region (then a later loop iteration
                    # re-enters through the copy-in as well)
                    total = sum(1 for n in ast.walk(fn) if isinstance(n, ast.Name) and n.id == t)
                    inside = sum(1 for st in body[i : j + 1] for n in ast.walk(st) if isinstance(n, ast.Name) and n.id == t)
                    used_after = total != inside
                    if not touched and not used_after:

                        class R(ast.NodeTransformer):
                            def visit_Name(self, n):
                                return ast.copy_location(ast.Name(id=x, ctx=n.ctx), n) if n.id == t else n

                        body[i : j + 1] = [R().visit(st) for st in between]
                        done[0] += 1
                        continue
            i += 1
        for k, st in enumerate(body):
            rest = body[k + 1 :] + after
            for fld in ("body", "orelse", "finalbody"):
                sub = getattr(st, fld, None)
                if isinstance(sub, list) and sub and isinstance(sub[0], ast.stmt):
                    walk(sub, rest + ([st] if isinstance(st, (ast.For, ast.While)) else []))
            for h in getattr(st, "handlers", []) or []:
                walk(h.body, rest)

    for _round in range(8):
        before = done[0]
        walk(fn.body, [])
        if done[0] == before:
            break
    return done[0]


_FLOAT_DTYPES = ("float", "float64", "np.float64", "numpy.float64", "double")


def collapse_slice_fill(fn, rec_names):
    """`X = empty(n) | zeros(n) | empty_like(v, dtype=float) ...; X[:k] = A; X[k:] = B` (X a new local, consecutive
    statements, constant bounds that tile the buffer from the front, X not read in A / B) -> `X = concatenate((A, B))`:
    what a helper that fills a float result buffer half by half leaves behind once it is inlined.  A buffer without an
    explicit or default float dtype is left alone (its dtype is the caller's: a different function)."""
    done = 0

    def creation(st):
        if not (isinstance(st, (ast.Assign, ast.AnnAssign)) and st.value is not None and isinstance(st.value, ast.Call)):
            return None
        tg = st.targets[0] if isinstance(st, ast.Assign) and len(st.targets) == 1 else getattr(st, "target", None)
        if not isinstance(tg, ast.Name) or tg.id in rec_names:
            return None
        c = st.value
        f = c.func.attr if isinstance(c.func, ast.Attribute) else getattr(c.func, "id", None)
        dtype = next((k.value for k in c.keywords if k.arg == "dtype"), None)
        if f in ("empty", "zeros") and len(c.args) == 1 and (dtype is None or ast.unparse(dtype) in _FLOAT_DTYPES):
            return tg.id
        if f in ("empty_like", "zeros_like") and c.args and dtype is not None and ast.unparse(dtype) in _FLOAT_DTYPES:
            return tg.id
        return None

    def bound(e):
        if e is None:
            return None
        if isinstance(e, ast.Constant) and isinstance(e.value, int):
            return e.value
        return "?"

    def walk(body):
        nonlocal done
        i = 0
        while i < len(body):
            name = creation(body[i])
            if name is not None:
                parts, pos, j = [], 0, i + 1
                closed = False
                while j < len(body):
                    st = body[j]
                    if not (isinstance(st, ast.Assign) and len(st.targets) == 1 and isinstance(st.targets[0], ast.Subscript) and isinstance(st.targets[0].value, ast.Name) and st.targets[0].value.id == name and isinstance(st.targets[0].slice, ast.Slice) and st.targets[0].slice.step is None):
                        break
                    sl = st.targets[0].slice
                    lo, hi = bound(sl.lower), bound(sl.upper)
                    if lo == "?" or hi == "?" or (lo or 0) != pos or closed:
                        parts = None
                        break
                    if any(isinstance(n, ast.Name) and n.id == name for n in ast.walk(st.value)):
                        parts = None
                        break
                    parts.append(st.value)
                    if hi is None:
                        closed = True
                    else:
                        pos = hi
                    j += 1
                if parts and len(parts) >= 2 and closed:
                    cat = ast.Call(func=ast.Name(id="concatenate", ctx=ast.Load()), args=[ast.Tuple(elts=parts, ctx=ast.Load())], keywords=[])
                    new = ast.Assign(targets=[ast.Name(id=name, ctx=ast.Store())], value=cat)
                    ast.copy_location(new, body[i])
                    ast.fix_missing_locations(new)
                    body[i:j] = [new]
                    done += 1
            i += 1
        for st in body:
            for fld in ("body", "orelse", "finalbody"):
                sub = getattr(st, fld, None)
                if isinstance(sub, list) and sub and isinstance(sub[0], ast.stmt):
                    walk(sub)
            for h in getattr(st, "handlers", []) or []:
                walk(h.body)

    walk(fn.body)
    return done


_SCA = [0]


def split_conditional_addend(fn, rec_names):
    """`y = X + T if c else X`  ->  `t = X; if c: t += T; y = t` (t a fresh local): the form an inlined early-return
    helper (`if c: return a + T` / `return a`) leaves where the recorded code adds the term under an `if`."""
    import copy

    done = [0]
    for _owner, blk in list(_blocks(fn)):
        i = 0
        while i < len(blk):
            st = blk[i]
            if isinstance(st, ast.Assign) and len(st.targets) == 1 and isinstance(st.value, ast.IfExp):
                v = st.value
                body, other, test = v.body, v.orelse, v.test
                neg = False
                if isinstance(other, ast.BinOp) and isinstance(other.op, ast.Add) and not (isinstance(body, ast.BinOp) and isinstance(body.op, ast.Add) and ast.unparse(body.left) == ast.unparse(other)):
                    body, other, neg = other, body, True
                tg = st.targets[0]
                simple_tg = isinstance(tg, ast.Name) or (isinstance(tg, ast.Subscript) and isinstance(tg.value, ast.Name))
                if simple_tg and isinstance(body, ast.BinOp) and isinstance(body.op, ast.Add) and ast.unparse(body.left) == ast.unparse(other):
                    cond = ast.UnaryOp(op=ast.Not(), operand=copy.deepcopy(test)) if neg else copy.deepcopy(test)
                    new = [
                        ast.Assign(targets=[copy.deepcopy(tg)], value=copy.deepcopy(other)),
                        ast.If(test=cond, body=[ast.AugAssign(target=copy.deepcopy(tg), op=ast.Add(), value=copy.deepcopy(body.right))], orelse=[]),
                    ]
                    for x in new:
                        ast.copy_location(x, st)
                        ast.fix_missing_locations(x)
                    blk[i : i + 1] = new
                    done[0] += 1
                    i += 2
                    continue
            # `if c: y = X + T else: y = X` (either way round)
            if isinstance(st, ast.If) and len(st.body) == 1 and len(st.orelse) == 1 and all(isinstance(b_, ast.Assign) and len(b_.targets) == 1 for b_ in (st.body[0], st.orelse[0])) and ast.unparse(st.body[0].targets[0]) == ast.unparse(st.orelse[0].targets[0]):
                a_, b_ = st.body[0].value, st.orelse[0].value
                tg = st.body[0].targets[0]
                neg = False
                if isinstance(b_, ast.BinOp) and isinstance(b_.op, ast.Add) and ast.unparse(b_.left) == ast.unparse(a_):
                    a_, b_, neg = b_, a_, True
                if (isinstance(tg, ast.Name) or (isinstance(tg, ast.Subscript) and isinstance(tg.value, ast.Name))) and isinstance(a_, ast.BinOp) and isinstance(a_.op, ast.Add) and ast.unparse(a_.left) == ast.unparse(b_):
                    cond = ast.UnaryOp(op=ast.Not(), operand=copy.deepcopy(st.test)) if neg else copy.deepcopy(st.test)
                    new = [
                        ast.Assign(targets=[copy.deepcopy(tg)], value=copy.deepcopy(b_)),
                        ast.If(test=cond, body=[ast.AugAssign(target=copy.deepcopy(tg), op=ast.Add(), value=copy.deepcopy(a_.right))], orelse=[]),
                    ]
                    for x in new:
                        ast.copy_location(x, st)
                        ast.fix_missing_locations(x)
                    blk[i : i + 1] = new
                    done[0] += 1
                    i += 2
                    continue
            i += 1
    return done[0]


def split_chain_loops(fn, rec_names):
    """`for a in chain(X, Y): BODY` -> `for a in X: BODY` / `for a_2 in Y: BODY` (itertools.chain over separate
    collections; BODY without break): the inverse of merging two copy-pasted loops."""
    import copy

    done = [0]
    for _owner, blk in list(_blocks(fn)):
        i = 0
        while i < len(blk):
            st = blk[i]
            if isinstance(st, ast.For) and not st.orelse and isinstance(st.iter, ast.Call) and ((isinstance(st.iter.func, ast.Name) and st.iter.func.id == "chain") or (isinstance(st.iter.func, ast.Attribute) and st.iter.func.attr == "chain")) and len(st.iter.args) >= 2 and not st.iter.keywords and isinstance(st.target, ast.Name) and st.target.id not in rec_names and not any(isinstance(x, ast.Break) for b_ in st.body for x in ast.walk(b_)) and not any(isinstance(a, ast.Starred) for a in st.iter.args):
                new = []
                for k, arg in enumerate(st.iter.args):
                    var = st.target.id if k == 0 else f"{st.target.id}_c{k + 1}"

                    class R(ast.NodeTransformer):
                        def visit_Name(self, n):
                            return ast.copy_location(ast.Name(id=var, ctx=n.ctx), n) if n.id == st.target.id else n

                    body = [R().visit(copy.deepcopy(b_)) for b_ in st.body]
                    lp = ast.For(target=ast.Name(id=var, ctx=ast.Store()), iter=copy.deepcopy(arg), body=body, orelse=[], type_comment=None)
                    ast.copy_location(lp, st)
                    ast.fix_missing_locations(lp)
                    new.append(lp)
                blk[i : i + 1] = new
                done[0] += 1
                i += len(new)
                continue
            i += 1
    return done[0]


def fold_list_concat(fn):
    """`[a, b] + [c]` -> `[a, b, c]` (list literals only): the inverse of splitting a literal into named parts."""
    n_fold = [0]

    class F(ast.NodeTransformer):
        def _flatten_starred(self, n):
            self.generic_visit(n)
            # `f(**{"a": x, "b": y})` -> `f(a=x, b=y)`: a literal keyword dictionary
            if any(k.arg is None and isinstance(k.value, ast.Dict) and all(isinstance(kk, ast.Constant) and isinstance(kk.value, str) and kk.value.isidentifier() for kk in k.value.keys) for k in n.keywords):
                kws = []
                for k in n.keywords:
                    if k.arg is None and isinstance(k.value, ast.Dict) and all(isinstance(kk, ast.Constant) and isinstance(kk.value, str) and kk.value.isidentifier() for kk in k.value.keys):
                        kws.extend(ast.keyword(arg=kk.value, value=vv) for kk, vv in zip(k.value.keys, k.value.values))
                    else:
                        kws.append(k)
                if len({k.arg for k in kws if k.arg}) == len([k for k in kws if k.arg]):
                    n.keywords = kws
                    n_fold[0] += 1
            # `f(*(a, b), *(c,))` -> `f(a, b, c)`: starred literal tuples in an argument list
            if any(isinstance(a, ast.Starred) and isinstance(a.value, (ast.Tuple, ast.List)) and not any(isinstance(x, ast.Starred) for x in a.value.elts) for a in n.args):
                args = []
                for a in n.args:
                    if isinstance(a, ast.Starred) and isinstance(a.value, (ast.Tuple, ast.List)) and not any(isinstance(x, ast.Starred) for x in a.value.elts):
                        args.extend(a.value.elts)
                    else:
                        args.append(a)
                n.args = args
                n_fold[0] += 1
            return n

        def visit_BinOp(self, n):
            self.generic_visit(n)
            if isinstance(n.op, ast.Add) and isinstance(n.left, ast.List) and isinstance(n.right, ast.List) and not any(isinstance(x, ast.Starred) for x in n.left.elts + n.right.elts):
                n_fold[0] += 1
                return ast.copy_location(ast.List(elts=n.left.elts + n.right.elts, ctx=ast.Load()), n)
            return n

        def visit_Call(self, n):
            n = self._flatten_starred(n)
            if isinstance(n.func, ast.Name) and n.func.id == "getattr" and len(n.args) == 2 and not n.keywords and isinstance(n.args[1], ast.Constant) and isinstance(n.args[1].value, str) and n.args[1].value.isidentifier():
                # getattr(x, "name") is x.name
                n_fold[0] += 1
                return ast.copy_location(ast.Attribute(value=n.args[0], attr=n.args[1].value, ctx=ast.Load()), n)
            return n

        def visit_Subscript(self, n):
            self.generic_visit(n)
            sl = n.slice
            if isinstance(sl, ast.Call) and isinstance(sl.func, ast.Name) and sl.func.id == "slice" and not sl.keywords and 1 <= len(sl.args) <= 3:
                # x[slice(a, b, c)] is x[a:b:c]
                a = list(sl.args)
                if len(a) == 1:
                    lo, hi, stp = None, a[0], None
                elif len(a) == 2:
                    lo, hi, stp = a[0], a[1], None
                else:
                    lo, hi, stp = a

                def nn(x):
                    return None if (x is None or (isinstance(x, ast.Constant) and x.value is None)) else x

                n_fold[0] += 1
                n.slice = ast.copy_location(ast.Slice(lower=nn(lo), upper=nn(hi), step=nn(stp)), sl)
            return n

    for i, st in enumerate(list(fn.body)):
        fn.body[i] = F().visit(st)
    return n_fold[0]


def record(project):
    out = {}
    for mod in {fi.module.name: fi.module for fi in project.functions.values()}.values():
        out[f"{mod.name}#globals"] = sorted(_module_constants(mod)) + sorted({st.targets[0].id for st in mod.tree.body if isinstance(st, ast.Assign) and len(st.targets) == 1 and isinstance(st.targets[0], ast.Name)})
    for q, fi in project.functions.items():
        try:
            ls = function_locals(fi.node)
        except RecursionError:  # pragma: no cover
            continue
        cs = compare_texts(fi.node)
        ds = simple_defs(fi.node, {x[0] for x in ls})
        out[q] = {"locals": [list(x) for x in ls], "compares": cs, "defs": ds}
    return out
