"""Parity analysis: how does each value computed by a function behave under a sign involution of its inputs?

A *reflection* is given as a table `input -> parity` (e.g. the mirror image in the equatorial plane maps an Earth-fixed
state (x, y, z, vx, vy, vz) to (x, y, -z, vx, vy, -vz): components 2 and 5 are ODD, the others EVEN).  The analysis
is a forward dataflow analysis over the statement CFG (`rsa.cfg`) in the finite lattice

        ZERO  <  EVEN, ODD  <  UNKNOWN          and          MIXED  <  UNKNOWN

EVEN: the value is unchanged by the reflection; ODD: it changes sign; ZERO: the literal 0 (both); MIXED: a sum of a
definitely even and a definitely odd part (neither even nor odd unless one part vanishes identically); UNKNOWN: no
claim.  Vectors built from literals carry one parity per component.  Transfer functions are the sign rules of
arithmetic (even*odd = odd, odd**2 = even, f(even, ..) = even for *every* function f, sin/arctan/sign are odd
functions, cos/abs are even functions, arctan2(odd, even) is odd ...).

Branch conditions: a condition whose operands are all EVEN is the same on a point and on its mirror image, so both
follow the same path and the path's result can be judged on its own.  `odd == 0` splits off the fixed set of the
reflection (a point that is its own mirror image): the edge that asserts it carries BOTTOM - nothing is claimed there.
Any other condition on a non-even value makes a point and its mirror image take different paths: everything assigned
under it becomes UNKNOWN (control dependence), never MIXED.

Nothing is executed; no value is computed; the result per `return` is a parity (vector), compared by the rule with
the parity the geometry demands (e.g. latitude ODD, longitude EVEN, height EVEN).
"""

from __future__ import annotations

import ast

from rsa.cfg import cfg_of

E, O, M, Z, U = "even", "odd", "mixed", "zero", "unknown"

ODD_FUNCS = {
    "sin", "tan", "arcsin", "arctan", "sinh", "tanh", "arcsinh", "arctanh", "sign", "cbrt", "asin", "atan", "radians", "degrees",
    "deg2rad", "rad2deg", "float", "float64", "negative", "wrapAngleNegPiPi", "asarray", "squeeze", "ravel", "copy", "flatten",
}  # f(-x) = -f(x)   (wrapAngleNegPiPi up to the seam value pi itself)
EVEN_FUNCS = {"cos", "cosh", "abs", "fabs", "absolute", "square"}  # f(-x) = f(x)
VECTOR_CTORS = {"array", "asarray", "np_array", "tuple", "list"}


def _is_vec(v):
    return isinstance(v, tuple)


def join(a, b):
    if a is None:
        return b
    if b is None:
        return a
    if _is_vec(a) or _is_vec(b):
        if _is_vec(a) and _is_vec(b) and len(a) == len(b):
            return tuple(join(x, y) for x, y in zip(a, b))
        return U
    if a == b:
        return a
    if a == Z:
        return b
    if b == Z:
        return a
    return U


def add(a, b):
    if _is_vec(a) or _is_vec(b):
        if _is_vec(a) and _is_vec(b) and len(a) == len(b):
            return tuple(add(x, y) for x, y in zip(a, b))
        s = a if not _is_vec(a) else b
        v = a if _is_vec(a) else b
        return tuple(add(x, s) for x in v)  # broadcasting a scalar
    if a == Z:
        return b
    if b == Z:
        return a
    if a == b and a in (E, O):
        return a
    if {a, b} == {E, O}:
        return M
    return U


def mul(a, b):
    if _is_vec(a) or _is_vec(b):
        if _is_vec(a) and _is_vec(b):
            return tuple(mul(x, y) for x, y in zip(a, b)) if len(a) == len(b) else U
        s = a if not _is_vec(a) else b
        v = a if _is_vec(a) else b
        return tuple(mul(x, s) for x in v)
    if Z in (a, b):
        return Z
    if a == E:
        return b
    if b == E:
        return a
    if a == O and b == O:
        return E
    if {a, b} == {M, O}:
        return M
    return U


def inv(a):
    """1 / a"""
    if _is_vec(a):
        return tuple(inv(x) for x in a)
    return a if a in (E, O, U) else U


def flat(v):
    if _is_vec(v):
        out = []
        for x in v:
            out.extend(flat(x))
        return out
    return [v]


def _call_name(c):
    f = c.func
    return f.attr if isinstance(f, ast.Attribute) else getattr(f, "id", None)


class Eval:
    """Parity of an expression in an environment name -> parity.  `tainted` is True while evaluating under a condition
    that a point and its mirror image decide differently."""

    def __init__(self, env, odd_funcs=(), even_funcs=(), summaries=None):
        self.env = env
        self.odd = ODD_FUNCS | set(odd_funcs)
        self.even = EVEN_FUNCS | set(even_funcs)
        self.summaries = summaries or {}
        self.fixed_set = None  # set by cond(): which polarity of the last condition asserts the fixed set

    def __call__(self, e):
        m = getattr(self, "v_" + type(e).__name__, None)
        return m(e) if m else U

    def v_Constant(self, e):
        if isinstance(e.value, (int, float)) and not isinstance(e.value, bool) and e.value == 0:
            return Z
        return E

    def v_Name(self, e):
        return self.env.get(e.id, E)

    def v_Attribute(self, e):
        k = ast.unparse(e)
        if k in self.env:
            return self.env[k]
        base = self(e.value)
        if e.attr in ("T", "real"):
            return base
        return E if all(x in (E, Z) for x in flat(base)) else U

    def v_Subscript(self, e):
        base = self(e.value)
        if _is_vec(base):
            s = e.slice
            try:
                idx = ast.literal_eval(s) if not isinstance(s, ast.Slice) else None
            except Exception:
                idx = None
            if isinstance(idx, int) and -len(base) <= idx < len(base):
                return base[idx]
            if isinstance(s, ast.Slice):
                try:
                    lo = ast.literal_eval(s.lower) if s.lower else None
                    hi = ast.literal_eval(s.upper) if s.upper else None
                    st = ast.literal_eval(s.step) if s.step else None
                    return tuple(base[slice(lo, hi, st)])
                except Exception:
                    pass
            ps = set(flat(base))
            return ps.pop() if len(ps) == 1 else U
        return base if all(x in (E, Z) for x in flat(self(e.slice) if not isinstance(e.slice, ast.Slice) else E)) else U

    def v_Tuple(self, e):
        if any(isinstance(x, ast.Starred) for x in e.elts):
            return U
        return tuple(self(x) for x in e.elts)

    v_List = v_Tuple

    def v_UnaryOp(self, e):
        v = self(e.operand)
        if isinstance(e.op, ast.Not):
            return E if all(x in (E, Z) for x in flat(v)) else U
        return v

    def v_BinOp(self, e):
        a, b = self(e.left), self(e.right)
        if isinstance(e.op, (ast.Add, ast.Sub)):
            return add(a, b)
        if isinstance(e.op, ast.Mult):
            return mul(a, b)
        if isinstance(e.op, ast.Div):
            return mul(a, inv(b))
        if isinstance(e.op, ast.Pow):
            if _is_vec(a) or _is_vec(b):
                return U
            if b not in (E, Z):
                return U
            if a in (E, Z):
                return E if (a == E or b == Z) else Z
            if a == O:
                n = None
                try:
                    n = ast.literal_eval(e.right)
                except Exception:
                    pass
                if isinstance(n, int) or (isinstance(n, float) and n == int(n)):
                    return E if int(n) % 2 == 0 else O
            return U
        if isinstance(e.op, ast.MatMult):
            return U
        if isinstance(e.op, (ast.Mod, ast.FloorDiv)):
            return E if all(x in (E, Z) for x in flat(a) + flat(b)) else U
        return U

    def v_Compare(self, e):
        vals = [self(e.left)] + [self(c) for c in e.comparators]
        if all(x in (E, Z) for v in vals for x in flat(v)):
            return E
        # `odd == 0` / `odd != 0`: the fixed set of the reflection
        if len(e.ops) == 1 and isinstance(e.ops[0], (ast.Eq, ast.NotEq)):
            a, b = vals
            if (a == O and b == Z) or (a == Z and b == O):
                self.fixed_set = isinstance(e.ops[0], ast.Eq)
                return E
        return U

    def v_BoolOp(self, e):
        return E if all(self(v) == E for v in e.values) else U

    def v_NamedExpr(self, e):
        v = self(e.value)
        if isinstance(e.target, ast.Name):
            self.env[e.target.id] = v
        return v

    def v_IfExp(self, e):
        self.fixed_set = None
        t = self(e.test)
        fs = self.fixed_set
        self.fixed_set = None
        if t != E:
            self(e.body), self(e.orelse)
            return U
        if fs is True:  # the test asserts the fixed set: only the else branch is claimed
            return self(e.orelse)
        if fs is False:
            return self(e.body)
        return join(self(e.body), self(e.orelse))

    def v_Call(self, e):
        nm = _call_name(e)
        if any(isinstance(a, ast.Starred) for a in e.args):
            return U
        args = [self(a) for a in e.args]
        kws = [self(k.value) for k in e.keywords]
        everything = [x for v in args + kws for x in flat(v)]
        if isinstance(e.func, ast.Attribute):
            recv = self(e.func.value)
            if not isinstance(e.func.value, ast.Name) or e.func.value.id in self.env:
                everything += flat(recv)
                if nm in ("reshape", "flatten", "ravel", "copy", "squeeze") and all(x in (E, Z) for v in args for x in flat(v)):
                    return recv
        if nm in self.summaries:
            return self.summaries[nm](args)
        if all(x in (E, Z) for x in everything):
            return E  # any function of reflection-invariant values is reflection-invariant
        if nm in VECTOR_CTORS and len(args) >= 1:
            return args[0]
        if nm == "concatenate" and len(args) == 1 and _is_vec(args[0]) and all(_is_vec(x) for x in args[0]):
            return tuple(y for x in args[0] for y in x)
        if nm in self.odd and len(args) == 1 and not kws:
            a = args[0]
            if _is_vec(a):
                return tuple(x if x in (E, O, Z) else U for x in a)
            return a if a in (E, O, Z) else U
        if nm in self.even and len(args) == 1 and not kws:
            a = args[0]
            if _is_vec(a):
                return tuple(E if x in (E, O) else (Z if x == Z else U) for x in a)
            return E if a in (E, O) else (Z if a == Z else U)
        if nm == "norm" and len(args) == 1:
            return E if all(x in (E, O, Z) for x in flat(args[0])) else U
        if nm in ("arctan2", "atan2") and len(args) == 2 and not any(_is_vec(a) for a in args):
            y, x = args
            if y in (O, Z) and x == E:
                return y
            return U
        if nm in ("dot", "vdot", "inner") and len(args) == 2 and all(_is_vec(a) for a in args) and len(args[0]) == len(args[1]):
            out = Z
            for x, y in zip(*args):
                out = add(out, mul(x, y))
            return out
        if nm == "cross" and len(args) == 2 and all(_is_vec(a) and len(a) == 3 for a in args):
            a, b = args
            return (
                add(mul(a[1], b[2]), mul(a[2], b[1])),
                add(mul(a[2], b[0]), mul(a[0], b[2])),
                add(mul(a[0], b[1]), mul(a[1], b[0])),
            )
        if nm in ("sum", "np_sum") and len(args) == 1 and _is_vec(args[0]):
            out = Z
            for x in args[0]:
                out = add(out, x)
            return out
        return U


def _targets(tg, val, env, ev):
    if isinstance(tg, ast.Name):
        env[tg.id] = val
    elif isinstance(tg, ast.Attribute):
        env[ast.unparse(tg)] = val
    elif isinstance(tg, (ast.Tuple, ast.List)):
        if _is_vec(val) and len(val) == len(tg.elts) and not any(isinstance(x, ast.Starred) for x in tg.elts):
            for x, v in zip(tg.elts, val):
                _targets(x, v, env, ev)
        else:
            for x in tg.elts:
                _targets(x.value if isinstance(x, ast.Starred) else x, U, env, ev)
    elif isinstance(tg, ast.Subscript):
        base = tg.value
        k = base.id if isinstance(base, ast.Name) else ast.unparse(base)
        cur = env.get(k, E)
        try:
            idx = ast.literal_eval(tg.slice)
        except Exception:
            idx = None
        if _is_vec(cur) and isinstance(idx, int) and -len(cur) <= idx < len(cur) and not _is_vec(val):
            lst = list(cur)
            lst[idx] = val
            env[k] = tuple(lst)
        else:
            env[k] = join(cur, val) if not _is_vec(cur) and not _is_vec(val) else U


def analyse(fi, seed, odd_funcs=(), even_funcs=(), summaries=None, max_iter=200):
    """Forward dataflow analysis of `fi` under the reflection `seed` (parameter name -> parity or parity vector).
    Returns (returns, notes): returns = [(return ast node, parity or parity vector)], notes = [(lineno, text)] for
    conditions that a point and its mirror image decide differently."""
    cfg = cfg_of(fi)
    notes = []
    IN = {cfg.entry.id: (dict(seed), False)}
    work = [cfg.entry.id]
    results = {}
    it = 0

    def merge(a, b):
        if a is None:
            return b
        (ea, ta), (eb, tb) = a, b
        keys = set(ea) | set(eb)
        out = {}
        for k in keys:
            if k in ea and k in eb:
                out[k] = join(ea[k], eb[k])
            else:
                out[k] = ea.get(k, eb.get(k))  # defined on one side only: a use on the other side would be a NameError
        return out, ta or tb

    while work and it < max_iter * max(1, len(cfg.nodes)):
        it += 1
        nid = work.pop()
        env, taint = IN[nid]
        env = dict(env)
        node = cfg.nodes[nid]
        st = node.ast
        ev = Eval(env, odd_funcs, even_funcs, summaries)
        outs = {}  # label -> (env, taint) ; None key = all labels
        if node.kind == "cond" and st is not None:
            ev.fixed_set = None
            t = ev(st)
            fs = ev.fixed_set
            if t != E:
                notes.append((getattr(st, "lineno", 0), f"`{ast.unparse(st)[:70]}` is decided differently by a point and its mirror image"))
                outs[None] = (env, True)
            elif fs is not None:
                outs[fs] = None  # BOTTOM on the edge that asserts the fixed set
                outs[not fs] = (env, taint)
            else:
                outs[None] = (env, taint)
        elif node.kind in ("stmt", "return", "loop") and st is not None:
            def put(tg, val):
                _targets(tg, U if taint else val, env, ev)

            if isinstance(st, ast.Assign):
                v = ev(st.value)
                for tg in st.targets:
                    put(tg, v)
            elif isinstance(st, ast.AnnAssign) and st.value is not None:
                put(st.target, ev(st.value))
            elif isinstance(st, ast.AugAssign):
                cur = ev(ast.fix_missing_locations(_load(st.target)))
                rhs = ev(st.value)
                if isinstance(st.op, (ast.Add, ast.Sub)):
                    v = add(cur, rhs)
                elif isinstance(st.op, ast.Mult):
                    v = mul(cur, rhs)
                elif isinstance(st.op, ast.Div):
                    v = mul(cur, inv(rhs))
                else:
                    v = U
                put(st.target, v)
            elif isinstance(st, ast.Return):
                v = ev(st.value) if st.value is not None else E
                results[nid] = (st, _taint(v) if taint else v)
            elif isinstance(st, (ast.For, ast.AsyncFor)):
                itv = ev(st.iter)
                put(st.target, U if not _all_even(itv) else E)
            elif isinstance(st, ast.Expr):
                ev(st.value)
            elif isinstance(st, (ast.With, ast.AsyncWith)):
                for w in st.items:
                    if w.optional_vars is not None:
                        put(w.optional_vars, U)
            outs[None] = (env, taint)
        else:
            outs[None] = (env, taint)
        for dst, lab in cfg.succ[nid]:
            o = outs[lab] if lab in outs else outs.get(None, (env, taint))
            if o is None:
                continue
            new = merge(IN.get(dst), o)
            if new != IN.get(dst):
                IN[dst] = new
                work.append(dst)
    return [results[k] for k in sorted(results)], notes


def _load(tg):
    import copy

    t = copy.deepcopy(tg)
    for x in ast.walk(t):
        if hasattr(x, "ctx"):
            x.ctx = ast.Load()
    return t


def _all_even(v):
    return all(x in (E, Z) for x in flat(v))


def _taint(v):
    if _is_vec(v):
        return tuple(_taint(x) for x in v)
    return U


def describe(v):
    return "(" + ", ".join(describe(x) for x in v) + ")" if _is_vec(v) else v


def conforms(got, want):
    """got (from the analysis) against the demanded parity: 'ok' | 'violation' | 'unknown' per component."""
    if _is_vec(want):
        if not _is_vec(got) or len(got) != len(want):
            return ["unknown"] * len(want)
        return [conforms(g, w)[0] for g, w in zip(got, want)]
    if _is_vec(got):
        return ["unknown"]
    if got == Z or got == want:
        return ["ok"]
    if got in (E, O, M):
        return ["violation"]
    return ["unknown"]
