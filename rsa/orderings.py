"""Abstract evaluation of comparison-only predicates under every weak ordering of their symbols.

A predicate whose atoms are comparisons between symbols has finitely many behaviours: one per
weak ordering (ordered set partition) of the symbols.  3 symbols: 13, 4: 75, 5: 541.  This is a
finite, exhaustive case split; no arithmetic on values, no execution of the analysed code.
"""

from __future__ import annotations

import ast
import itertools

from .model import LooseEquality, Undecided, unparse


def weak_orderings(symbols):
    """Yield dicts symbol -> rank for every ordered set partition of ``symbols``."""
    symbols = list(symbols)
    n = len(symbols)
    if n == 0:
        yield {}
        return
    seen = set()
    for ranks in itertools.product(range(n), repeat=n):
        used = sorted(set(ranks))
        if used != list(range(len(used))):
            continue
        if ranks in seen:
            continue
        seen.add(ranks)
        yield dict(zip(symbols, ranks))


def describe(order):
    groups = {}
    for s, r in order.items():
        groups.setdefault(r, []).append(s)
    return " < ".join(" == ".join(sorted(groups[r])) for r in sorted(groups))


# ------------------------------------------------------------------ predicate trees
class P:
    def ev(self, env):  # pragma: no cover
        raise NotImplementedError

    def symbols(self):
        return set()


class Cmp(P):
    OPS = {
        "<": lambda a, b: a < b,
        "<=": lambda a, b: a <= b,
        "==": lambda a, b: a == b,
        "!=": lambda a, b: a != b,
        ">": lambda a, b: a > b,
        ">=": lambda a, b: a >= b,
    }

    def __init__(self, op, lhs, rhs):
        self.op, self.lhs, self.rhs = op, lhs, rhs

    def ev(self, env):
        return self.OPS[self.op](_val(self.lhs, env), _val(self.rhs, env))

    def symbols(self):
        return {s for s in (self.lhs, self.rhs) if isinstance(s, str)}

    def __repr__(self):
        return f"({self.lhs} {self.op} {self.rhs})"


def _val(x, env):
    if isinstance(x, str):
        return env[x]
    return x


class And(P):
    def __init__(self, *parts):
        self.parts = parts

    def ev(self, env):
        return all(p.ev(env) for p in self.parts)

    def symbols(self):
        return set().union(*(p.symbols() for p in self.parts)) if self.parts else set()

    def __repr__(self):
        return "(" + " and ".join(map(repr, self.parts)) + ")"


class Or(P):
    def __init__(self, *parts):
        self.parts = parts

    def ev(self, env):
        return any(p.ev(env) for p in self.parts)

    def symbols(self):
        return set().union(*(p.symbols() for p in self.parts)) if self.parts else set()

    def __repr__(self):
        return "(" + " or ".join(map(repr, self.parts)) + ")"


class Not(P):
    def __init__(self, p):
        self.p = p

    def ev(self, env):
        return not self.p.ev(env)

    def symbols(self):
        return self.p.symbols()

    def __repr__(self):
        return f"not {self.p!r}"


class Const(P):
    def __init__(self, v):
        self.v = bool(v)

    def ev(self, env):
        return self.v

    def __repr__(self):
        return str(self.v)


_OPMAP = {ast.Lt: "<", ast.LtE: "<=", ast.Eq: "==", ast.NotEq: "!=", ast.Gt: ">", ast.GtE: ">="}

EQ_FUNCS = {"fpe_equals"}
LOOSE_EQ_FUNCS = {"isclose", "allclose", "approx"}


def from_ast(node, symf, eq_funcs=EQ_FUNCS):
    """Turn a boolean AST expression into a predicate tree.

    ``symf(expr)`` maps a leaf operand to a symbol name (str); it must raise ``Undecided`` for an
    operand it does not know."""
    if isinstance(node, ast.BoolOp):
        parts = [from_ast(v, symf, eq_funcs) for v in node.values]
        return And(*parts) if isinstance(node.op, ast.And) else Or(*parts)
    if isinstance(node, ast.UnaryOp) and isinstance(node.op, ast.Not):
        return Not(from_ast(node.operand, symf, eq_funcs))
    if isinstance(node, ast.Compare):
        parts = []
        left = node.left
        for op, right in zip(node.ops, node.comparators):
            if type(op) not in _OPMAP:
                raise Undecided(f"comparison operator {type(op).__name__} not order-theoretic: {unparse(node)}", node)
            parts.append(Cmp(_OPMAP[type(op)], symf(left), symf(right)))
            left = right
        return parts[0] if len(parts) == 1 else And(*parts)
    if isinstance(node, ast.Call):
        fn = node.func.attr if isinstance(node.func, ast.Attribute) else getattr(node.func, "id", None)
        if fn == "bool" and len(node.args) == 1 and not node.keywords:
            return from_ast(node.args[0], symf, eq_funcs)  # bool(<predicate>) is the predicate
        if fn in eq_funcs and len(node.args) >= 2:
            return Cmp("==", symf(node.args[0]), symf(node.args[1]))
        if fn in LOOSE_EQ_FUNCS and len(node.args) >= 2:
            kws = {k.arg: k.value for k in node.keywords}
            tight = isinstance(kws.get("rtol", kws.get("rel_tol")), ast.Constant) and kws.get("rtol", kws.get("rel_tol")).value == 0 and isinstance(kws.get("atol", kws.get("abs_tol")), ast.Constant) and kws.get("atol", kws.get("abs_tol")).value <= 1e-12
            if tight:
                return Cmp("==", symf(node.args[0]), symf(node.args[1]))
            raise LooseEquality(f"`{unparse(node)}` compares with a relative / wide tolerance (numpy.isclose: |a - b| <= 1e-8 + 1e-5 |b|): at a scenario time of 2e5 s everything within 2 s counts as equal, so an interval end or an event time is hit a whole step early", node)
    if isinstance(node, ast.Constant) and isinstance(node.value, bool):
        return Const(node.value)
    raise Undecided(f"not a comparison-only predicate: {unparse(node)}", node)


def disagreements(p, q, symbols, assume=None):
    """Weak orderings (satisfying ``assume``) on which predicates p and q differ."""
    out = []
    n = 0
    for env in weak_orderings(symbols):
        if assume is not None and not assume.ev(env):
            continue
        n += 1
        a, b = p.ev(env), q.ev(env)
        if a != b:
            out.append((describe(env), a, b))
    return out, n


def all_orderings(symbols, assume=None):
    for env in weak_orderings(symbols):
        if assume is None or assume.ev(env):
            yield env
