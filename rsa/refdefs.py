"""Agreement of a function with a reference transcription of the algorithm it cites, definition by definition.

The reference is Python text written from the cited source (a textbook algorithm) with the local names of the
implementation.  For every name the reference defines, each right-hand side assigned to that name in the repository
function must be - as a rational function over opaque atoms (`rsa.ratfun`: names, calls and non-integer powers are
atoms; + - * / and integer powers are normalised, so association, distribution and the spelling of a quotient do not
matter) - one of the reference's right-hand sides for that name, and every reference right-hand side must occur.
Names that only one side defines are substituted by their (single) definition first, so introducing or inlining a
local does not matter.  Together with each right-hand side the conditions that dominate it are compared: a definition
guarded by the same operands but the opposite comparator / polarity is a definite deviation; a guard over other
operands is reported as undecided by the caller.

Nothing is executed: loops are not unrolled, no value is computed.  What is decided is that the two texts define the
same quantities by the same formulas under the same guards - the formula-level transcription errors (a sign, a
swapped operand, a dropped factor, a flipped comparator, a correction applied to the wrong branch).
"""

from __future__ import annotations

import ast
import copy

from rsa.cfg import CFG
from rsa.ratfun import NotEvaluable, rat_equal, rat_key, ratfun

COMMUTATIVE = {"dot", "vdot", "inner", "maximum", "minimum", "hypot"}


class _Norm(ast.NodeTransformer):
    """argument order of commutative calls; `x ** 0.5` -> sqrt(x); numpy prefixes dropped"""

    def visit_Call(self, n):
        self.generic_visit(n)
        f = n.func
        nm = f.attr if isinstance(f, ast.Attribute) else getattr(f, "id", None)
        if nm in COMMUTATIVE and len(n.args) == 2 and not n.keywords:
            n.args = sorted(n.args, key=ast.unparse)
        # the two domain-safe spellings of an inverse cosine of a normalised dot product
        if nm == "arccos" and len(n.args) == 1 and isinstance(n.args[0], ast.Call) and not n.keywords:
            inner = n.args[0]
            inm = inner.func.attr if isinstance(inner.func, ast.Attribute) else getattr(inner.func, "id", None)
            if inm == "clip" and len(inner.args) == 3 and [ast.unparse(a) for a in inner.args[1:]] in (["-1", "1"], ["-1.0", "1.0"]):
                return ast.copy_location(ast.Call(func=ast.Name(id="safeArccos", ctx=ast.Load()), args=[inner.args[0]], keywords=[]), n)
        return n

    def visit_BinOp(self, n):
        self.generic_visit(n)
        if isinstance(n.op, ast.Pow) and isinstance(n.right, ast.Constant) and n.right.value == 0.5:
            return ast.copy_location(ast.Call(func=ast.Name(id="sqrt", ctx=ast.Load()), args=[n.left], keywords=[]), n)
        return n


def _load(tg):
    t = copy.deepcopy(tg)
    for x in ast.walk(t):
        if hasattr(x, "ctx"):
            x.ctx = ast.Load()
    return t


class Defs:
    """All definitions of plain names in a function, with the condition atoms that dominate each."""

    def __init__(self, fn_node):
        self.node = fn_node
        self.cfg = CFG(fn_node)
        self.defs = {}  # name -> [(rhs expr, cfg node id, stmt)]
        self.tests = []  # (test expr, node id)
        for n in self.cfg.nodes:
            a = n.ast
            if a is None:
                continue
            if n.kind == "cond":
                self.tests.append((self._walrus(a, n.id), n.id))
            elif n.kind in ("stmt", "return"):
                for w in ast.walk(a):
                    if isinstance(w, ast.NamedExpr):
                        self._walrus(w, n.id)
                if isinstance(a, ast.Assign):
                    for tg in a.targets:
                        self._bind(tg, a.value, n.id, a)
                elif isinstance(a, ast.AnnAssign) and a.value is not None:
                    self._bind(a.target, a.value, n.id, a)
                elif isinstance(a, ast.AugAssign) and isinstance(a.target, ast.Name):
                    self._add(a.target.id, ast.BinOp(left=_load(a.target), op=a.op, right=a.value), n.id, a)
                elif isinstance(a, ast.Return) and a.value is not None:
                    if isinstance(a.value, (ast.Tuple, ast.List)):
                        for i, v in enumerate(a.value.elts):
                            self._add(f"<return>[{i}]", v, n.id, a)
                    else:
                        self._add("<return>", a.value, n.id, a)
        self._dom = {}

    def _walrus(self, e, nid):
        e = copy.deepcopy(e)

        class W(ast.NodeTransformer):
            def visit_NamedExpr(s, n):
                v = s.visit(n.value)
                if isinstance(n.target, ast.Name):
                    self._add(n.target.id, v, nid, n)
                    return ast.copy_location(ast.Name(id=n.target.id, ctx=ast.Load()), n)
                return v

        return W().visit(e)

    def _add(self, name, rhs, nid, st):
        self.defs.setdefault(name, []).append((rhs, nid, st))

    def _bind(self, tg, val, nid, st):
        if isinstance(tg, ast.Name):
            self._add(tg.id, val, nid, st)
        elif isinstance(tg, (ast.Tuple, ast.List)) and all(isinstance(x, ast.Name) for x in tg.elts):
            if isinstance(val, (ast.Tuple, ast.List)) and len(val.elts) == len(tg.elts):
                for x, v in zip(tg.elts, val.elts):
                    self._add(x.id, v, nid, st)
            else:
                for i, x in enumerate(tg.elts):
                    self._add(x.id, ast.Subscript(value=val, slice=ast.Constant(value=i), ctx=ast.Load()), nid, st)

    def guards(self, nid):
        """Condition atoms (test expr with walrus replaced, polarity) that every path to the node takes."""
        if nid not in self._dom:
            out = []
            for cid, lab in self.cfg.control_conditions(nid):
                cn = self.cfg.nodes[cid]
                if cn.kind == "cond":
                    # an error guard (`if bad: raise`): the other outcome of the test never returns normally - it does not
                    # select between definitions, it only rejects inputs
                    other = [dst for dst, l2 in self.cfg.succ[cid] if l2 is (not lab)]
                    if other and all(self.cfg.exit.id not in self.cfg.reachable(o) for o in other):
                        continue
                    out.append((next(t for t, i in self.tests if i == cid), lab))
            self._dom[nid] = out
        return self._dom[nid]


def _cmp_key(test, pol, rf):
    """(operand key, relation) of a comparison atom under a polarity; None when it is not a single comparison."""
    if isinstance(test, ast.UnaryOp) and isinstance(test.op, ast.Not):
        return _cmp_key(test.operand, not pol, rf)
    if not (isinstance(test, ast.Compare) and len(test.ops) == 1):
        try:
            return (("expr", rat_key(rf(test))), "true" if pol else "false")
        except NotEvaluable:
            return (("text", ast.unparse(test)), "true" if pol else "false")
    op = type(test.ops[0])
    l, r = test.left, test.comparators[0]
    rel = {ast.Lt: "<", ast.LtE: "<=", ast.Gt: ">", ast.GtE: ">=", ast.Eq: "==", ast.NotEq: "!="}.get(op)
    if rel is None:
        return (("text", ast.unparse(test)), "true" if pol else "false")
    if not pol:
        rel = {"<": ">=", "<=": ">", ">": "<=", ">=": "<", "==": "!=", "!=": "=="}[rel]
    # strictness is not compared: `<` and `<=` differ on a boundary of measure zero of a real quantity
    rel = {"<=": "<", ">=": ">"}.get(rel, rel)
    try:
        d = rf(ast.BinOp(left=l, op=ast.Sub(), right=r))
        dn = rf(ast.BinOp(left=r, op=ast.Sub(), right=l))
    except NotEvaluable:
        return (("text", ast.unparse(test)), rel)
    k1, k2 = rat_key(d), rat_key(dn)
    if k2 < k1:  # orientation-independent operand key: the smaller of (l - r), (r - l)
        rel = {"<": ">", ">": "<", "==": "==", "!=": "!="}[rel]
        return (k2, rel)
    return (k1, rel)


def compare(fn_node, ref_node, names=None, table=None, init_ok=(), skip_under=(), strict_guards=False, unknown_calls=()):
    """Compare the definitions of `fn_node` with those of the reference `ref_node`.

    Returns a dict: `mismatch` (definite deviations: [(name, text, lineno)]), `unsure` (guards over other operands,
    names the implementation does not define: [(name, text, lineno)]), `matched` (count), `names` (compared)."""
    rn, fn = _Norm().visit(copy.deepcopy(ref_node)), _Norm().visit(copy.deepcopy(fn_node))
    R, F = Defs(rn), Defs(fn)
    wanted = [n for n in R.defs if names is None or n in names]
    shared = set(wanted) & set(F.defs)

    # a quantity with several definitions on either side is loop-carried / branch-dependent: an atom on both sides
    multi_any = {k for D_ in (R, F) for k, v in D_.defs.items() if len(v) > 1}

    def expander(D, keep, sound=True):
        multi = {k for k, v in D.defs.items() if len(v) > 1} if sound else set()
        # a local may be replaced by its definition only if nothing it mentions is ever rebound (otherwise the
        # definition captured an older value: `x_previous = x` inside an iteration on x)
        single = {k: v[0][0] for k, v in D.defs.items() if len(v) == 1 and k not in keep and k not in multi_any and not ({n.id for n in ast.walk(v[0][0]) if isinstance(n, ast.Name)} & multi)}

        class X(ast.NodeTransformer):
            depth = 0

            def visit_Name(s, n):
                if isinstance(n.ctx, ast.Load) and n.id in single and s.depth < 12:
                    s.depth += 1
                    out = s.visit(copy.deepcopy(single[n.id]))
                    s.depth -= 1
                    return out
                return n

        return lambda e: ratfun(X().visit(copy.deepcopy(e)), table)

    keep = set(shared) | set(_params(fn_node)) | set(_params(ref_node))
    rfR, rfF = expander(R, keep), expander(F, keep)
    # second chance for a definition written in terms of other quantities than the reference's (`(r2 - r1) / r1` for
    # `r2_over_r1 - 1`): both sides fully expanded down to parameters and loop-carried names
    keep2 = set(_params(fn_node)) | set(_params(ref_node))
    # (flow-insensitive: a local is replaced by its only definition wherever it occurs - enough for *agreement*, which
    # both sides must reach with the same spelling of the loop-carried names)
    rfR2, rfF2 = expander(R, keep2, sound=False), expander(F, keep2, sound=False)

    def equal_expanded(rhs_f, rhs_r):
        try:
            if isinstance(rhs_f, ast.Compare) or isinstance(rhs_r, ast.Compare):
                if not (isinstance(rhs_f, ast.Compare) and isinstance(rhs_r, ast.Compare) and len(rhs_f.ops) == 1 and len(rhs_r.ops) == 1):
                    return False
                return _cmp_key(rhs_f, True, rfF2) == _cmp_key(rhs_r, True, rfR2)
            return rat_equal(rfF2(rhs_f), rfR2(rhs_r))
        except NotEvaluable:
            return False
    res = dict(mismatch=[], unsure=[], matched=0, names=sorted(shared))

    def val(rf, rhs):
        if isinstance(rhs, ast.Compare) and len(rhs.ops) == 1:
            return ("cmp", _cmp_key(rhs, True, rf))
        return ("rat", rf(rhs))

    def veq(a, b):
        if a[0] != b[0]:
            return False
        return a[1] == b[1] if a[0] == "cmp" else rat_equal(a[1], b[1])
    skip_keys = {_cmp_key(ast.parse(src, mode="eval").body, True, rfF) for src in skip_under}
    # structure gate: a deviation is *definite* only where the implementation has the reference's structure - the same
    # loop-carried quantities (every reference name with several definitions is a local of the implementation) and, for
    # the quantity at hand, the same number of definitions.  A restructured computation (other state variables, early
    # returns instead of one result variable) is not comparable definition by definition: reported as unsure.
    restructured = any(len(R.defs[n]) > 1 and n not in F.defs for n in wanted)
    # part of the computation lives in a helper the reference does not know (and that could not be put back)
    called = {(c.func.attr if isinstance(c.func, ast.Attribute) else getattr(c.func, "id", None)) for c in ast.walk(fn) if isinstance(c, ast.Call)}
    if called & set(unknown_calls):
        restructured = True
    foreign_hit = set()
    gated = []
    n_before = None
    for nm in wanted:
        n_before = len(res["mismatch"])
        _gate(res, restructured, None)
        if nm not in F.defs:
            # the implementation inlined this local: its uses were expanded on the reference side too (it is not in `keep`)
            if len(R.defs[nm]) > 1:
                res["unsure"].append((nm, f"`{nm}` (several definitions in the reference) is not a local of the implementation", getattr(fn_node, "lineno", 0)))
            continue
        refs = []
        for rhs, nid, _st in R.defs[nm]:
            try:
                refs.append((val(rfR, rhs), [_cmp_key(tst, pol, rfR) for tst, pol in R.guards(nid)], rhs))
            except NotEvaluable as e:
                res["unsure"].append((nm, f"reference definition of `{nm}` not evaluable: {e}", 0))
        used = set()
        for rhs, nid, st in F.defs[nm]:
            ln = getattr(st, "lineno", 0)
            if skip_keys and any(_cmp_key(tst, pol, rfF) in skip_keys for tst, pol in F.guards(nid)):
                continue  # a branch the caller excludes from the comparison
            try:
                got = val(rfF, rhs)
            except NotEvaluable as e:
                res["unsure"].append((nm, f"`{nm} = {ast.unparse(rhs)[:60]}` not evaluable: {e}", ln))
                continue
            cands = [i for i, (want, _g, _r) in enumerate(refs) if veq(got, want)]
            if not cands:
                cands = [i for i, (_w, _g, r_) in enumerate(refs) if equal_expanded(rhs, r_)]
            if not cands:
                foreign = ({n.id for n in ast.walk(rhs) if isinstance(n, ast.Name)} & set(F.defs)) - set(R.defs) - set(_params(ref_node))
                foreign = {n for n in foreign if len(F.defs[n]) > 1 or ({m.id for m in ast.walk(F.defs[n][0][0]) if isinstance(m, ast.Name)} & {k for k, v in F.defs.items() if len(v) > 1})}
                if foreign:
                    res["unsure"].append((nm, f"`{nm} = {ast.unparse(rhs)[:70]}` is written over the implementation's own state variable(s) {sorted(foreign)}: restructured computation, not comparable definition by definition", ln))
                    foreign_hit.add(nm)
                    continue
            if not cands and nm in init_ok and not any(F.cfg.nodes[c].kind == "loop" or F.cfg.nodes[c].label == "while-head" or _in_loop(F, nid) for c, _l in F.cfg.control_conditions(nid)) and not _in_loop(F, nid):
                continue  # a start value before the iteration: how the loop is entered is not part of the algorithm
            if not cands:
                res["mismatch"].append((nm, f"`{nm} = {ast.unparse(rhs)[:90]}` is none of the reference's definitions of `{nm}` ({'; '.join('`' + ast.unparse(r)[:70] + '`' for _w, _g, r in refs)})", ln))
                continue
            gk = [_cmp_key(tst, pol, rfF) for tst, pol in F.guards(nid)]
            gk2 = None
            best = None
            rank = {"same": 0, "flipped": 1, "other": 2}
            for i in sorted(cands, key=lambda c_: c_ in used):  # a reference definition not matched yet first
                verdict = _guards_agree(gk, refs[i][1])
                if verdict != "same":
                    # second chance: both guard lists with every single-definition local expanded (a renamed
                    # intermediate such as `new_y_new` / `y_candidate` in a guard)
                    if gk2 is None:
                        gk2 = [_cmp_key(tst, pol, rfF2) for tst, pol in F.guards(nid)]
                    rg2 = [_cmp_key(tst, pol, rfR2) for tst, pol in R.guards(R.defs[nm][i][1])]
                    v2 = _guards_agree(gk2, rg2)
                    if rank[v2] < rank[verdict]:
                        verdict = v2
                if verdict == "same":
                    best = ("same", i)
                    break
                if best is None or (verdict == "flipped" and best[0] != "flipped"):
                    best = (verdict, i)
            used.add(best[1])
            if best[0] == "same":
                res["matched"] += 1
            elif best[0] == "flipped":
                res["mismatch"].append((nm, f"`{nm} = {ast.unparse(rhs)[:70]}` is assigned under the opposite condition to the reference's (same operands, other comparator / polarity): {_describe(F.guards(nid))} instead of {_describe(R.guards(R.defs[nm][best[1]][1]))}", ln))
            elif strict_guards:
                res["mismatch"].append((nm, f"`{nm} = {ast.unparse(rhs)[:70]}` is guarded by {_describe(F.guards(nid))}, the reference's by {_describe(R.guards(R.defs[nm][best[1]][1]))}", ln))
            else:
                res["unsure"].append((nm, f"`{nm} = {ast.unparse(rhs)[:70]}` is guarded by {_describe(F.guards(nid))}, the reference's by {_describe(R.guards(R.defs[nm][best[1]][1]))}", ln))
        for i, (_w, _g, r) in enumerate(refs):
            if i not in used:
                res["mismatch"].append((nm, f"the reference's `{nm} = {ast.unparse(r)[:90]}` has no counterpart", getattr(fn_node, "lineno", 0)))
        n_impl = sum(1 for rhs, nid, _st in F.defs[nm] if not (skip_keys and any(_cmp_key(tst, pol, rfF) in skip_keys for tst, pol in F.guards(nid))))
        n_init = sum(1 for m_ in res["mismatch"][n_before:] if False)
        same_count = n_impl == len(refs) or (nm in init_ok and n_impl == len(refs) + 1)
        if restructured or not same_count or nm in foreign_hit:
            moved = res["mismatch"][n_before:]
            del res["mismatch"][n_before:]
            gated.extend(moved)
    # a function in which every definition that is present agrees with the reference and the only discrepancies are
    # reference definitions without counterpart has *dropped* those updates (it is not restructured): definite
    only_dropped = gated and not restructured and not foreign_hit and not res["mismatch"] and all("has no counterpart" in b_ for _a, b_, _c in gated)
    if only_dropped:
        res["mismatch"].extend(gated)
    else:
        res["unsure"].extend((a_, "restructured computation, not comparable definition by definition: " + b_, c_) for a_, b_, c_ in gated)
    return res


def _gate(res, restructured, _unused):
    return None


def _in_loop(D, nid):
    st = D.cfg.nodes[nid].ast
    for n in ast.walk(D.node):
        if isinstance(n, (ast.While, ast.For)) and any(x is st for b in n.body + n.orelse for x in ast.walk(b)):
            return True
    return False


def _params(fn_node):
    a = fn_node.args
    return [x.arg for x in a.posonlyargs + a.args + a.kwonlyargs]


def _describe(guards):
    if not guards:
        return "no condition"
    return " and ".join(("" if pol else "not ") + "`" + ast.unparse(t)[:50] + "`" for t, pol in guards)


def _guards_agree(g1, g2):
    """'same' | 'flipped' (same operands, contradictory relation) | 'other'"""
    s1, s2 = set(g1), set(g2)
    if s1 == s2:
        return "same"
    o1, o2 = {k: r for k, r in g1}, {k: r for k, r in g2}
    if set(o1) == set(o2):
        return "flipped"
    # loop heads and extra defensive guards: same relation on the shared operands, extra operands on one side only
    shared = set(o1) & set(o2)
    if all(o1[k] == o2[k] for k in shared):
        return "other"
    return "flipped"
