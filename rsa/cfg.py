"""Statement-level control-flow graph with condition atoms.

Nodes are simple statements, condition atoms (one per leaf of an ``if``/``while`` test after
splitting ``and``/``or``/``not``), loop heads and the synthetic ENTRY / EXIT / RAISE nodes.
Edges carry a label: ``True`` / ``False`` for the outcome of a condition atom (for a loop head:
``True`` = body entered, ``False`` = iteration finished), ``"exc"`` for the explicit exception
edges of ``try``, ``None`` otherwise.

Exception edges are drawn only for explicit ``raise`` and for ``try`` bodies (any statement of
a ``try`` body may jump to each handler).  An arbitrary callee raising is not a path.
"""

from __future__ import annotations

import ast
from collections import defaultdict


# loops are taken 0..LOOP_UNROLL times by the bounded path enumeration (quick: 1, thorough: 2)
LOOP_UNROLL = 1


class Node:
    __slots__ = ("id", "kind", "ast", "label")

    def __init__(self, nid, kind, node=None, label=""):
        self.id = nid
        self.kind = kind  # entry | exit | raise | stmt | cond | loop | return
        self.ast = node
        self.label = label

    @property
    def lineno(self):
        return getattr(self.ast, "lineno", 0)

    def __repr__(self):
        txt = ""
        if self.ast is not None:
            try:
                txt = ast.unparse(self.ast).split("\n")[0][:60]
            except Exception:  # pragma: no cover
                txt = "?"
        return f"<{self.id}:{self.kind} {txt}>"


class CFG:
    def __init__(self, func_node):
        self.func = func_node
        self.nodes: list[Node] = []
        self.succ = defaultdict(list)  # id -> [(dst, label)]
        self.pred = defaultdict(list)
        self.entry = self._new("entry")
        self.exit = self._new("exit")  # normal return (explicit or fall-through)
        self.raise_exit = self._new("raise")
        self._loop_stack = []  # (continue_target, break_collect)
        self._try_stack = []  # list of handler-entry lists
        self._finally_stack = []
        ends = self._block(func_node.body, [(self.entry.id, None)])
        for src, lab in ends:
            self._edge(src, self.exit.id, lab)

    # -------------------------------------------------------------- construction
    def _new(self, kind, node=None, label=""):
        n = Node(len(self.nodes), kind, node, label)
        self.nodes.append(n)
        return n

    def _edge(self, a, b, label=None):
        if (b, label) not in self.succ[a]:
            self.succ[a].append((b, label))
            self.pred[b].append((a, label))

    def _connect(self, incoming, nid):
        for src, lab in incoming:
            self._edge(src, nid, lab)

    def _cond(self, test, incoming):
        """Split a test into atoms.  Returns (true_ends, false_ends)."""
        if isinstance(test, ast.BoolOp):
            if isinstance(test.op, ast.And):
                false_ends = []
                cur = incoming
                for v in test.values:
                    t, f = self._cond(v, cur)
                    false_ends += f
                    cur = t
                return cur, false_ends
            true_ends = []
            cur = incoming
            for v in test.values:
                t, f = self._cond(v, cur)
                true_ends += t
                cur = f
            return true_ends, cur
        if isinstance(test, ast.UnaryOp) and isinstance(test.op, ast.Not):
            t, f = self._cond(test.operand, incoming)
            return f, t
        if isinstance(test, ast.IfExp):
            # `A if C else B` as a test: C decides which of A / B is evaluated
            ct, cf = self._cond(test.test, incoming)
            at, af = self._cond(test.body, ct)
            bt, bf = self._cond(test.orelse, cf)
            return at + bt, af + bf
        if isinstance(test, ast.Compare) and len(test.ops) > 1 and all(isinstance(o, (ast.Lt, ast.LtE, ast.Gt, ast.GtE, ast.Eq, ast.NotEq)) for o in test.ops):
            # `a <= x <= b` is `a <= x and x <= b` (operands are taken to be free of side effects): one atom per link
            parts = []
            left = test.left
            for o, right in zip(test.ops, test.comparators):
                parts.append(ast.copy_location(ast.Compare(left=left, ops=[o], comparators=[right]), test))
                left = right
            return self._cond(ast.copy_location(ast.BoolOp(op=ast.And(), values=parts), test), incoming)
        n = self._new("cond", test)
        self._connect(incoming, n.id)
        self._exc_edges(n.id)
        return [(n.id, True)], [(n.id, False)]

    def _exc_edges(self, nid):
        if self._try_stack:
            for h in self._try_stack[-1]:
                self._edge(nid, h, "exc")

    def _block(self, stmts, incoming):
        cur = incoming
        for st in stmts:
            cur = self._stmt(st, cur)
        return cur

    def _stmt(self, st, incoming):
        if isinstance(st, ast.If):
            t, f = self._cond(st.test, incoming)
            ends = self._block(st.body, t)
            ends2 = self._block(st.orelse, f) if st.orelse else f
            return ends + ends2
        if isinstance(st, (ast.For, ast.AsyncFor)):
            head = self._new("loop", st)
            self._connect(incoming, head.id)
            self._exc_edges(head.id)
            breaks = []
            self._loop_stack.append((head.id, breaks))
            body_ends = self._block(st.body, [(head.id, True)])
            self._loop_stack.pop()
            for src, lab in body_ends:
                self._edge(src, head.id, lab)
            out = [(head.id, False)]
            if st.orelse:
                out = self._block(st.orelse, out)
            return out + breaks
        if isinstance(st, ast.While):
            anchor = self._new("stmt", None, "while-head")
            self._connect(incoming, anchor.id)
            t, f = self._cond(st.test, [(anchor.id, None)])
            breaks = []
            self._loop_stack.append((anchor.id, breaks))
            body_ends = self._block(st.body, t)
            self._loop_stack.pop()
            for src, lab in body_ends:
                self._edge(src, anchor.id, lab)
            out = f
            if isinstance(st.test, ast.Constant) and st.test.value is True:
                out = []
            if st.orelse:
                out = self._block(st.orelse, out)
            return out + breaks
        if isinstance(st, ast.Try):
            return self._try(st, incoming)
        if isinstance(st, (ast.With, ast.AsyncWith)):
            n = self._new("stmt", st, "with")
            self._connect(incoming, n.id)
            self._exc_edges(n.id)
            return self._block(st.body, [(n.id, None)])
        if isinstance(st, ast.Return):
            n = self._new("return", st)
            self._connect(incoming, n.id)
            self._exc_edges(n.id)
            tgt = [(n.id, None)]
            for fin in reversed(self._finally_stack):
                tgt = self._block(fin, tgt)
            for src, lab in tgt:
                self._edge(src, self.exit.id, lab)
            return []
        if isinstance(st, ast.Raise):
            n = self._new("stmt", st, "raise")
            self._connect(incoming, n.id)
            if self._try_stack and self._try_stack[-1]:
                for h in self._try_stack[-1]:
                    self._edge(n.id, h, "exc")
            else:
                tgt = [(n.id, None)]
                for fin in reversed(self._finally_stack):
                    tgt = self._block(fin, tgt)
                for src, lab in tgt:
                    self._edge(src, self.raise_exit.id, lab)
            return []
        if isinstance(st, ast.Break):
            n = self._new("stmt", st, "break")
            self._connect(incoming, n.id)
            if self._loop_stack:
                self._loop_stack[-1][1].append((n.id, None))
            return []
        if isinstance(st, ast.Continue):
            n = self._new("stmt", st, "continue")
            self._connect(incoming, n.id)
            if self._loop_stack:
                self._edge(n.id, self._loop_stack[-1][0], None)
            return []
        if isinstance(st, (ast.FunctionDef, ast.AsyncFunctionDef, ast.ClassDef)):
            n = self._new("stmt", st, "def")
            self._connect(incoming, n.id)
            return [(n.id, None)]
        if isinstance(st, ast.Match):  # pragma: no cover - not used by the repo
            n = self._new("stmt", st, "match")
            self._connect(incoming, n.id)
            ends = []
            for case in st.cases:
                ends += self._block(case.body, [(n.id, None)])
            return ends + [(n.id, None)]
        n = self._new("stmt", st)
        self._connect(incoming, n.id)
        self._exc_edges(n.id)
        return [(n.id, None)]

    def _try(self, st: ast.Try, incoming):
        handler_entries = []
        handler_nodes = []
        for h in st.handlers:
            hn = self._new("stmt", h, "except")
            handler_entries.append(hn.id)
            handler_nodes.append((h, hn))
        if st.finalbody:
            self._finally_stack.append(st.finalbody)
        anchor = self._new("stmt", None, "try")
        self._connect(incoming, anchor.id)
        self._try_stack.append(handler_entries)
        body_ends = self._block(st.body, [(anchor.id, None)])
        self._try_stack.pop()
        if st.orelse:
            body_ends = self._block(st.orelse, body_ends)
        ends = list(body_ends)
        for h, hn in handler_nodes:
            ends += self._block(h.body, [(hn.id, None)])
        if st.finalbody:
            self._finally_stack.pop()
            ends = self._block(st.finalbody, ends)
        return ends

    # -------------------------------------------------------------- queries
    def stmt_nodes(self, pred=None):
        return [n for n in self.nodes if n.ast is not None and (pred is None or pred(n))]

    def nodes_containing(self, target_ast):
        """CFG node(s) whose AST contains ``target_ast`` (identity)."""
        out = []
        for n in self.nodes:
            if n.ast is None:
                continue
            if n.kind == "loop":
                scope = [n.ast.target, n.ast.iter]
            elif n.kind == "stmt" and n.label == "with":
                scope = [i for i in n.ast.items]
            elif n.kind == "stmt" and n.label == "except":
                scope = [n.ast.type] if n.ast.type is not None else []
            elif n.kind == "stmt" and n.label == "def":
                scope = []
            else:
                scope = [n.ast]
            for s in scope:
                if any(x is target_ast for x in ast.walk(s)):
                    out.append(n)
                    break
        return out

    def node_of(self, target_ast):
        ns = self.nodes_containing(target_ast)
        if not ns:
            raise KeyError(f"AST node at line {getattr(target_ast, 'lineno', '?')} not in CFG")
        return ns[0]

    def reachable(self, start, blocked_nodes=(), blocked_edges=(), forward=True):
        """Set of node ids reachable from ``start`` avoiding blocked nodes / (src, label) edges."""
        blocked_nodes = set(blocked_nodes)
        blocked_edges = set(blocked_edges)
        seen = set()
        starts = [start] if isinstance(start, int) else list(start)
        work = [s for s in starts if s not in blocked_nodes]
        while work:
            n = work.pop()
            if n in seen:
                continue
            seen.add(n)
            if forward:
                for dst, lab in self.succ[n]:
                    if (n, lab) in blocked_edges or (n, dst, lab) in blocked_edges:
                        continue
                    if dst not in blocked_nodes and dst not in seen:
                        work.append(dst)
            else:
                for src, lab in self.pred[n]:
                    if (src, lab) in blocked_edges or (src, n, lab) in blocked_edges:
                        continue
                    if src not in blocked_nodes and src not in seen:
                        work.append(src)
        return seen

    def must_pass(self, target, via_nodes=(), via_edges=(), start=None):
        """True iff every path from ``start`` (default ENTRY) to ``target`` passes through one of
        ``via_nodes`` or takes one of ``via_edges`` ((src, label) pairs)."""
        start = self.entry.id if start is None else start
        if target in set(via_nodes):
            return True
        r = self.reachable(start, blocked_nodes=via_nodes, blocked_edges=via_edges)
        return target not in r

    def feasible(self, path):
        """False when the path tests one and the same side-effect-free atom twice with opposite outcomes and nothing
        the atom reads is assigned in between (`if ok and x > lim: ...` followed by `if not ok: ...`)."""
        facts = {}
        for nid, lab in path:
            n = self.nodes[nid]
            st = n.ast
            if n.kind == "cond" and st is not None and lab in (True, False):
                atom, pol = st, lab
                while isinstance(atom, ast.UnaryOp) and isinstance(atom.op, ast.Not):
                    atom, pol = atom.operand, not pol
                if any(isinstance(x, (ast.Call, ast.Await, ast.NamedExpr)) for x in ast.walk(atom)):
                    continue
                key = ast.unparse(atom)
                if key in facts and facts[key] != pol:
                    return False
                facts[key] = pol
            elif st is not None and n.kind in ("stmt", "loop"):
                stored = {x.id for x in ast.walk(st) if isinstance(x, ast.Name) and isinstance(x.ctx, (ast.Store, ast.Del))}
                stored |= {ast.unparse(x) for x in ast.walk(st) if isinstance(x, (ast.Attribute, ast.Subscript)) and isinstance(x.ctx, (ast.Store, ast.Del))}
                if stored:
                    for key in list(facts):
                        if any(s == key or s in key.replace("(", " ").replace(")", " ").replace("[", " ").replace("]", " ").replace(".", " ").split() or key.startswith(s) for s in stored):
                            facts.pop(key)
        return True

    def must_pass_feasible(self, target, via_nodes=(), via_edges=(), start=None, limit=20000):
        """Like must_pass, but a path that avoids the required edges only counts when it is feasible (see feasible)."""
        if self.must_pass(target, via_nodes=via_nodes, via_edges=via_edges, start=start):
            return True
        via_nodes = set(via_nodes)
        via_edges = set(via_edges)
        paths = self.paths(start=start, targets=[target], max_visits=1, limit=limit)
        if len(paths) >= limit:
            return False
        for path in paths:
            if any(nid in via_nodes or (nid, lab) in via_edges for nid, lab in path):
                continue
            if self.feasible(path):
                return False
        return True

    def witness_path(self, target, blocked_nodes=(), blocked_edges=(), start=None):
        """One path (list of node ids) from start to target avoiding the blocked items, or None."""
        start = self.entry.id if start is None else start
        blocked_nodes = set(blocked_nodes)
        blocked_edges = set(blocked_edges)
        prev = {start: None}
        work = [start]
        while work:
            n = work.pop(0)
            if n == target:
                path = []
                while n is not None:
                    path.append(n)
                    n = prev[n]
                return list(reversed(path))
            for dst, lab in self.succ[n]:
                if (n, lab) in blocked_edges or dst in blocked_nodes or dst in prev:
                    continue
                prev[dst] = n
                work.append(dst)
        return None

    def dominators(self):
        ids = [n.id for n in self.nodes]
        reach = self.reachable(self.entry.id)
        dom = {i: set(reach) for i in reach}
        dom[self.entry.id] = {self.entry.id}
        changed = True
        while changed:
            changed = False
            for i in ids:
                if i not in reach or i == self.entry.id:
                    continue
                preds = [p for p, _ in self.pred[i] if p in reach]
                new = set.intersection(*(dom[p] for p in preds)) if preds else set()
                new = new | {i}
                if new != dom[i]:
                    dom[i] = new
                    changed = True
        return dom

    def dominates(self, a, b):
        """a dominates b: every path entry->b passes through a."""
        return self.must_pass(b, via_nodes=[a]) or a == b

    def paths(self, start=None, targets=None, max_visits=None, limit=20000):
        """Enumerate paths start -> any of ``targets`` (default: EXIT and RAISE) as lists of
        (node id, label taken to leave it).  Each node is visited at most ``max_visits`` times
        per path (loop heads ``max_visits + 1``) so loops run 0..max_visits times."""
        start = self.entry.id if start is None else start
        targets = set(targets) if targets is not None else {self.exit.id, self.raise_exit.id}
        if max_visits is None:
            max_visits = LOOP_UNROLL
        out = []

        def rec(n, path, counts):
            if len(out) >= limit:
                return
            if n in targets:
                out.append(path + [(n, None)])
                return
            cap = max_visits + 1 if self.nodes[n].kind == "loop" or self.nodes[n].label == "while-head" else max_visits
            if counts.get(n, 0) >= cap:
                return
            counts = dict(counts)
            counts[n] = counts.get(n, 0) + 1
            for dst, lab in self.succ[n]:
                rec(dst, path + [(n, lab)], counts)

        rec(start, [], {})
        return out

    def path_conditions(self, target, start=None, max_visits=None, limit=5000, start_label=None):
        """Every path start->target as a list of (node, polarity) for the condition atoms and
        loop heads it crosses (DNF of the reaching condition)."""
        start = self.entry.id if start is None else start
        out = []
        for path in self.paths(start=start, targets=[target], max_visits=max_visits, limit=limit):
            conj = []
            for i, (nid, lab) in enumerate(path):
                n = self.nodes[nid]
                if i == 0 and start_label is not None and lab != start_label:
                    conj = None
                    break
                if n.kind in ("cond", "loop") and lab in (True, False):
                    if i == 0 and start_label is not None:
                        continue
                    conj.append((n, lab))
            if conj is not None:
                out.append(conj)
        return out

    def control_conditions(self, nid):
        """Condition atoms (node id, label) such that the edge is taken on *every* path
        entry->nid (i.e. the guards that dominate the node with a fixed polarity)."""
        out = []
        for n in self.nodes:
            if n.kind not in ("cond", "loop"):
                continue
            for lab in (True, False):
                # if blocking the edge (n, lab) makes nid unreachable, every path takes it
                if nid in self.reachable(self.entry.id) and nid not in self.reachable(
                    self.entry.id, blocked_edges=[(n.id, lab)]
                ):
                    out.append((n.id, lab))
        return out


def cfg_of(fi):
    c = getattr(fi, "_cfg", None)
    if c is None:
        c = CFG(fi.node)
        fi._cfg = c
    return c
