"""Per-function write summaries (effects) on ``self`` / parameters, closed transitively over
resolved calls.

An effect is ``Effect(kind, path, ...)`` with ``kind`` in

* ``rebind``  - ``root.f = v``                      (order-dependent when repeated)
* ``store``   - ``root.f[k] = v``                   (keyed store)
* ``accum``   - ``root.f.append/extend/add/update(..)``, ``root.f += v``
* ``delete``  - ``del root.f[k]``, ``root.f.pop/remove/clear(..)``

and ``path`` a dotted path rooted at ``self``, a parameter name, ``<remote>`` (a value obtained
from ``ray.get``: a deep copy by Ray's semantics), ``<new>`` (an object constructed in the
function) or ``<global>``.  Local aliases of attribute chains and loop variables over
``root.f.values()/items()`` / ``root.f`` are followed (``root.f[*]``).
"""

from __future__ import annotations

import ast
from dataclasses import dataclass, field

from .model import ClassInfo, FunctionInfo, dotted_name, walk_no_nested

ACCUM_METHODS = {"append", "extend", "add", "update", "insert", "appendleft", "extendleft", "setdefault"}
DELETE_METHODS = {"pop", "remove", "clear", "popitem", "discard", "popleft"}
PURE_COPY_FUNCS = {"deepcopy", "copy", "array", "list", "dict", "set", "tuple", "sorted"}


@dataclass
class Effect:
    kind: str
    path: str
    node: ast.AST
    func: FunctionInfo
    key: ast.AST | None = None
    value: ast.AST | None = None
    chain: tuple = field(default_factory=tuple)  # call chain (qualnames) from the summary's owner

    @property
    def root(self):
        return self.path.split(".")[0].split("[")[0]

    @property
    def field_path(self):
        r = self.root
        rest = self.path[len(r) :]
        return rest.lstrip(".")

    @property
    def first_field(self):
        fp = self.field_path
        return fp.split(".")[0].split("[")[0] if fp else ""

    def loc(self):
        return f"{self.func.module.relpath}:{getattr(self.node, 'lineno', 0)}"

    def __repr__(self):
        return f"<{self.kind} {self.path} @{self.loc()}>"


class EffectAnalysis:
    def __init__(self, project, tenv, max_depth=6):
        self.p = project
        self.t = tenv
        self.max_depth = max_depth
        self._memo = {}
        self.unresolved = []  # (func, call node) repo-internal looking calls that did not resolve

    # ------------------------------------------------------------------ public
    def effects(self, fi: FunctionInfo, depth=None):
        depth = self.max_depth if depth is None else depth
        key = (fi.qualname, depth)
        if key in self._memo:
            return self._memo[key]
        self._memo[key] = []  # recursion: fixpoint start
        out = self._summarise(fi, depth)
        self._memo[key] = out
        return out

    # ------------------------------------------------------------------ path of an expression
    def _aliases(self, fi):
        """local name -> path string, for locals bound (once or repeatedly) to attribute chains /
        elements of containers rooted at self / params, or to ray.get(...) values."""
        al = {}
        params = fi.all_params
        for prm in params:
            al[prm] = prm
        changed = True
        rounds = 0
        while changed and rounds < 4:
            changed = False
            rounds += 1
            for n in walk_no_nested(fi.node):
                pairs = []
                if isinstance(n, ast.Assign) and len(n.targets) == 1 and isinstance(n.targets[0], ast.Name):
                    pairs.append((n.targets[0].id, self._path(n.value, al)))
                elif isinstance(n, ast.NamedExpr) and isinstance(n.target, ast.Name):
                    pairs.append((n.target.id, self._path(n.value, al)))
                elif isinstance(n, (ast.For, ast.comprehension)):
                    it = n.iter
                    base = None
                    mode = None
                    if isinstance(it, ast.Call) and isinstance(it.func, ast.Attribute) and it.func.attr in ("values", "items"):
                        base = self._path(it.func.value, al)
                        mode = it.func.attr
                    elif isinstance(it, ast.Call) and isinstance(it.func, ast.Name) and it.func.id in ("enumerate", "zip", "list", "sorted", "reversed"):
                        if it.args:
                            base = self._path(it.args[0], al)
                            mode = it.func.id
                    else:
                        base = self._path(it, al)
                        mode = "iter"
                    if base:
                        if mode in ("values", "iter", "list", "sorted", "reversed") and isinstance(n.target, ast.Name):
                            pairs.append((n.target.id, base + "[*]"))
                        elif mode in ("items", "enumerate") and isinstance(n.target, ast.Tuple) and len(n.target.elts) == 2:
                            if isinstance(n.target.elts[1], ast.Name):
                                pairs.append((n.target.elts[1].id, base + "[*]"))
                for name, path in pairs:
                    if path and name not in params and al.get(name) != path:
                        if name in al and al[name] != path:
                            # bound to different things: keep the first rooted binding
                            continue
                        al[name] = path
                        changed = True
        return al

    def _path(self, e, al):
        """Path string of an expression if it denotes (part of) an object rooted at self/param."""
        if isinstance(e, ast.Name):
            return al.get(e.id)
        if isinstance(e, ast.Attribute):
            b = self._path(e.value, al)
            return f"{b}.{e.attr}" if b else None
        if isinstance(e, ast.Subscript):
            b = self._path(e.value, al)
            return f"{b}[*]" if b else None
        if isinstance(e, ast.Call):
            fn = e.func
            d = dotted_name(fn)
            if d in ("ray.get", "get") and e.args:
                return "<remote>"
            if isinstance(fn, ast.Attribute) and fn.attr in ("get", "setdefault") and e.args:
                b = self._path(fn.value, al)
                return f"{b}[*]" if b else None
            if isinstance(fn, ast.Name) and fn.id in PURE_COPY_FUNCS:
                return "<new>"
            return None
        if isinstance(e, ast.IfExp):
            return self._path(e.body, al) or self._path(e.orelse, al)
        if isinstance(e, ast.NamedExpr):
            return self._path(e.value, al)
        return None

    # ------------------------------------------------------------------ summarise
    def _summarise(self, fi: FunctionInfo, depth):
        al = self._aliases(fi)
        out = []

        def add(kind, path, node, key=None, value=None):
            if path is None:
                return
            out.append(Effect(kind, path, node, fi, key, value))

        def target_effect(t, node, kind_plain, value=None):
            if isinstance(t, ast.Attribute):
                b = self._path(t.value, al)
                if b:
                    # property setter?
                    handled = False
                    bt = self.t.expr_type(t.value, fi)
                    if bt is not None and bt.cls is not None and bt.kind == "obj":
                        st = self.p.lookup_setter(bt.cls, t.attr)
                        if st is not None and depth > 0:
                            handled = True
                            sub = self.effects(st, depth - 1)
                            self._rebase(sub, st, {st.params[0]: b} if st.params else {}, out, fi, node)
                    if not handled:
                        add(kind_plain, f"{b}.{t.attr}", node, value=value)
            elif isinstance(t, ast.Subscript):
                b = self._path(t.value, al)
                if b:
                    add("store" if kind_plain == "rebind" else "accum", b, node, key=t.slice, value=value)
            elif isinstance(t, (ast.Tuple, ast.List)):
                for x in t.elts:
                    target_effect(x, node, kind_plain, value)
            elif isinstance(t, ast.Starred):
                target_effect(t.value, node, kind_plain, value)

        for n in walk_no_nested(fi.node):
            if isinstance(n, ast.Assign):
                for t in n.targets:
                    target_effect(t, n, "rebind", n.value)
            elif isinstance(n, ast.AnnAssign) and n.value is not None:
                target_effect(n.target, n, "rebind", n.value)
            elif isinstance(n, ast.AugAssign):
                target_effect(n.target, n, "accum", n.value)
            elif isinstance(n, ast.Delete):
                for t in n.targets:
                    if isinstance(t, ast.Subscript):
                        add("delete", self._path(t.value, al), n, key=t.slice)
                    elif isinstance(t, ast.Attribute):
                        b = self._path(t.value, al)
                        if b:
                            add("delete", f"{b}.{t.attr}", n)
            elif isinstance(n, ast.Call):
                self._call_effects(n, fi, al, out, depth)
        return out

    def _call_effects(self, call, fi, al, out, depth):
        fn = call.func
        # container mutation
        if isinstance(fn, ast.Attribute) and fn.attr in ACCUM_METHODS | DELETE_METHODS:
            b = self._path(fn.value, al)
            if b:
                bt = self.t.expr_type(fn.value, fi)
                if not (bt is not None and bt.kind == "obj" and bt.cls is not None and self.p.lookup_method(bt.cls, fn.attr)):
                    kind = "accum" if fn.attr in ACCUM_METHODS else "delete"
                    out.append(Effect(kind, b, call, fi, key=None, value=call.args[0] if call.args else None))
                    return
        if isinstance(fn, ast.Name) and fn.id == "setattr" and len(call.args) >= 3:
            b = self._path(call.args[0], al)
            if b:
                nm = call.args[1].value if isinstance(call.args[1], ast.Constant) else "*"
                out.append(Effect("rebind", f"{b}.{nm}", call, fi, value=call.args[2]))
            return
        if depth <= 0:
            return
        targets = self.t.callees(call, fi, fanout=True)
        for t in targets:
            callee = None
            binding = {}
            if isinstance(t, ClassInfo):
                init = self.p.lookup_method(t, "__init__")
                if init is None:
                    continue
                callee = init
                binding = self._bind_args(call, init, al, skip_first=True)
                binding[init.params[0]] = "<new>"
            elif isinstance(t, FunctionInfo):
                callee = t
                if t.kind in ("method", "property") and isinstance(fn, ast.Attribute):
                    recv = self._path(fn.value, al)
                    binding = self._bind_args(call, t, al, skip_first=True)
                    if t.params:
                        binding[t.params[0]] = recv
                elif t.kind == "classmethod":
                    binding = self._bind_args(call, t, al, skip_first=True)
                else:
                    binding = self._bind_args(call, t, al, skip_first=False)
            if callee is None:
                continue
            sub = self.effects(callee, depth - 1)
            self._rebase(sub, callee, binding, out, fi, call)

    def _bind_args(self, call, callee: FunctionInfo, al, skip_first):
        params = callee.params[1:] if skip_first else callee.params
        binding = {}
        for i, a in enumerate(call.args):
            if isinstance(a, ast.Starred):
                break
            if i < len(params):
                binding[params[i]] = self._path(a, al)
        for kw in call.keywords:
            if kw.arg:
                binding[kw.arg] = self._path(kw.value, al)
        return binding

    def _rebase(self, sub, callee, binding, out, fi, node):
        for e in sub:
            r = e.root
            if r in ("<remote>", "<new>", "<global>"):
                continue
            if r in binding:
                base = binding[r]
                if base is None or base.startswith("<new>"):
                    continue
                newpath = base + e.path[len(r) :]
                out.append(Effect(e.kind, newpath, e.node, e.func, e.key, e.value, chain=(callee.qualname,) + e.chain))
            # effects on unbound params (defaults) are dropped


def writes_to(effects, root, field_prefix=None):
    out = []
    for e in effects:
        if e.root != root:
            continue
        if field_prefix is not None and not (e.field_path == field_prefix or e.field_path.startswith(field_prefix + ".") or e.field_path.startswith(field_prefix + "[")):
            continue
        out.append(e)
    return out
