#!/venv/bin/python
"""Behaviour-preserving stress transformation: inline locals that are defined once by `v = E` and read
exactly once, in the very next statement of the same block (the definition is removed).
usage: inline_single_use.py <scratch repo copy>"""

import ast
import copy
import os
import sys

N = 0


def names_loaded(node, name):
    return [n for n in ast.walk(node) if isinstance(n, ast.Name) and n.id == name and isinstance(n.ctx, ast.Load)]


def process_function(fn):
    global N
    changed = True
    while changed:
        changed = False
        for blk_owner in ast.walk(fn):
            for field in ("body", "orelse", "finalbody"):
                blk = getattr(blk_owner, field, None)
                if not isinstance(blk, list):
                    continue
                for i in range(len(blk) - 1):
                    st, nxt = blk[i], blk[i + 1]
                    if not (isinstance(st, ast.Assign) and len(st.targets) == 1 and isinstance(st.targets[0], ast.Name)):
                        continue
                    v = st.targets[0].id
                    stores = [n for n in ast.walk(fn) if isinstance(n, ast.Name) and n.id == v and isinstance(n.ctx, (ast.Store, ast.Del))]
                    loads = names_loaded(fn, v)
                    if len(stores) != 1 or len(loads) != 1:
                        continue
                    if isinstance(nxt, (ast.For, ast.While, ast.If, ast.With, ast.Try, ast.FunctionDef, ast.ClassDef)):
                        # only the header expression is evaluated "next"
                        hdr = nxt.iter if isinstance(nxt, ast.For) else (nxt.test if isinstance(nxt, (ast.While, ast.If)) else None)
                        if hdr is None or isinstance(nxt, ast.While) or loads[0] not in list(ast.walk(hdr)):
                            continue
                    elif loads[0] not in list(ast.walk(nxt)):
                        continue
                    # not inside a lambda / comprehension of the next statement (evaluated later / repeatedly)
                    bad = False
                    for n in ast.walk(nxt):
                        if isinstance(n, (ast.Lambda, ast.ListComp, ast.SetComp, ast.DictComp, ast.GeneratorExp)) and loads[0] in list(ast.walk(n)):
                            bad = True
                    if bad:
                        continue

                    class S(ast.NodeTransformer):
                        def visit_Name(self, n):
                            return copy.deepcopy(st.value) if n is loads[0] else n

                    blk[i + 1] = S().visit(nxt)
                    del blk[i]
                    N += 1
                    changed = True
                    break
                if changed:
                    break
            if changed:
                break


root = os.path.join(sys.argv[1], "src", "resonaate")
for dp, dn, fns in os.walk(root):
    for f in fns:
        if f.endswith(".py"):
            path = os.path.join(dp, f)
            tree = ast.parse(open(path).read())
            before = N
            for fn in [n for n in ast.walk(tree) if isinstance(n, (ast.FunctionDef, ast.AsyncFunctionDef))]:
                process_function(fn)
            if N != before:
                ast.fix_missing_locations(tree)
                out = ast.unparse(tree)
                compile(out, path, "exec")
                open(path, "w").write(out + "\n")
print(f"inlined {N} single-use locals", file=sys.stderr)
