#!/venv/bin/python
"""Confirm a seeded change and run the checks against it.

usage: seed_eval.py <property> <dir with patch.diff and demo> [--suite] [--name NAME]

1. creates a scratch worktree of /repo (under $TMPDIR), applies patch.diff there, runs the
   demonstration with PYTHONPATH=<worktree>/src (must FAIL), optionally the pinned suite (only the
   baseline always-fail tests may fail), then un-applies and runs the demonstration again (must PASS);
2. applies the patch to /repo, runs ./check all --no-write, records which properties / rules fire,
   and undoes the patch (git -C /repo checkout -- .);
3. prints a JSON summary.  The scratch worktree is removed.
"""

import argparse
import json
import os
import re
import subprocess
import sys
import tempfile
import time

VERIF = os.path.dirname(os.path.dirname(os.path.abspath(__file__)))
BASELINE_FAIL = {
    "tests/common/test_config.py",
    "tests/test_resonaate.py::testEntryPoint",
    "tests/test_resonaate.py::testModuleCommand",
    "tests/physics/test_earth_orientation_params.py::testRemoteData",
    "tests/tasking/test_metrics.py::TestInformationMetric::testCalculateMetric",
}


def sh(cmd, cwd=None, env=None, timeout=3600):
    pr = subprocess.run(cmd, shell=isinstance(cmd, str), cwd=cwd, env=env, capture_output=True, text=True, timeout=timeout)
    return pr.returncode, pr.stdout + pr.stderr


def run_demo(wt, demo):
    env = dict(os.environ, PYTHONPATH=os.path.join(wt, "src"))
    if os.path.basename(demo).startswith("test_"):
        cmd = ["/venv/bin/python", "-m", "pytest", "-q", "-p", "no:cacheprovider", "-p", "no:randomly", "--no-cov", demo]
    else:
        cmd = ["/venv/bin/python", demo]
    code, out = sh(cmd, cwd=wt, env=env, timeout=1800)
    return code, out[-1500:]


def parse_checks(out, prop):
    fired = {}
    for ln in out.splitlines():
        m = re.match(r"^\s+rule=(\S+) .*?construct=(\S+)", ln)
        if m:
            fired.setdefault(m.group(1).split(".")[0], []).append(f"{m.group(1)}:{m.group(2)}")
    undec = [ln[:300] for ln in out.splitlines() if ln.startswith(("UNDECIDED", "ANALYSIS-ERROR"))]
    return dict(checks_fired=fired, checks_undecided=undec[:10], detected_by_own_property=prop in fired)


def main():
    ap = argparse.ArgumentParser()
    ap.add_argument("prop")
    ap.add_argument("seeddir")
    ap.add_argument("--suite", action="store_true")
    ap.add_argument("--demo")
    ap.add_argument("--keep", help="name under /verif/seeded/ to store the confirmed seed")
    ap.add_argument("--needs", default="", help="what the change needs in order to manifest")
    ap.add_argument("--note", default="")
    ap.add_argument("--in-worktree", action="store_true", help="run the checks with --repo <scratch worktree> instead of patching /repo")
    a = ap.parse_args()
    seeddir = os.path.abspath(a.seeddir)
    patch = os.path.join(seeddir, "patch.diff")
    demo = a.demo or next((os.path.join(seeddir, f) for f in sorted(os.listdir(seeddir)) if f.endswith(".py")), None)
    res = dict(property=a.prop, seeddir=seeddir, demo=os.path.basename(demo) if demo else None)
    wt = tempfile.mkdtemp(prefix=f"confirm-{a.prop}-")
    os.rmdir(wt)
    try:
        code, out = sh(["git", "-C", "/repo", "worktree", "add", "-q", "--detach", wt, "HEAD"])
        assert code == 0, out
        code, out = sh(["git", "apply", "--check", patch], cwd=wt)
        res["patch_applies"] = code == 0
        if code != 0:
            res["error"] = out[-500:]
            print(json.dumps(res, indent=1))
            return
        sh(["git", "apply", patch], cwd=wt)
        # copy demo into the worktree so relative imports / paths behave
        demo_wt = os.path.join(wt, "SEEDDEMO", os.path.basename(demo))
        os.makedirs(os.path.dirname(demo_wt), exist_ok=True)
        with open(demo) as fi, open(demo_wt, "w") as fo:
            fo.write(fi.read())
        code, out = run_demo(wt, demo_wt)
        res["demo_with_change_exit"] = code
        res["demo_with_change_tail"] = out[-600:]
        code, out = sh(["/venv/bin/python", "-c", "import resonaate"], cwd=wt, env=dict(os.environ, PYTHONPATH=os.path.join(wt, "src")))
        res["imports"] = code == 0
        if a.suite:
            t0 = time.time()
            code, out = sh(
                "/venv/bin/python -m pytest -q -p no:cacheprovider --timeout=900 --continue-on-collection-errors --no-cov -rfE -n 6 2>&1 | tail -40",
                cwd=wt,
                env=dict(os.environ, PYTHONPATH=os.path.join(wt, "src")),
                timeout=3600,
            )
            fails = set(re.findall(r"^(?:FAILED|ERROR) (\S+)", out, flags=re.M))
            extra = sorted(f for f in fails if f not in BASELINE_FAIL)
            res["suite_extra_failures"] = extra
            res["suite_wall_s"] = round(time.time() - t0)
            res["suite_tail"] = out.strip().splitlines()[-1] if out.strip() else ""
        if a.in_worktree:
            code, out = sh([os.path.join(VERIF, "check"), "all", "--no-write", "--jobs", "8", "--repo", wt], cwd=VERIF)
            res.update(parse_checks(out, a.prop))
        sh(["git", "apply", "-R", patch], cwd=wt)
        code, out = run_demo(wt, demo_wt)
        res["demo_without_change_exit"] = code
        res["demo_without_change_tail"] = out[-300:]
    finally:
        sh(["git", "-C", "/repo", "worktree", "remove", "--force", wt])
    # checks against /repo with the patch applied
    if not a.in_worktree:
        code, out = sh(["git", "-C", "/repo", "status", "--porcelain"])
        if out.strip():
            res["error"] = "/repo not clean"
            print(json.dumps(res, indent=1))
            return
        try:
            code, out = sh(["git", "-C", "/repo", "apply", patch])
            assert code == 0, out
            code, out = sh([os.path.join(VERIF, "check"), "all", "--no-write", "--jobs", "8"], cwd=VERIF)
            res.update(parse_checks(out, a.prop))
        finally:
            sh(["git", "-C", "/repo", "checkout", "--", "."])
    if a.keep:
        import shutil

        dst = os.path.join(VERIF, "seeded", a.keep)
        os.makedirs(dst, exist_ok=True)
        shutil.copy(patch, os.path.join(dst, "patch.diff"))
        shutil.copy(demo, os.path.join(dst, os.path.basename(demo)))
        if os.path.exists(os.path.join(seeddir, "notes.md")):
            shutil.copy(os.path.join(seeddir, "notes.md"), os.path.join(dst, "notes.md"))
        confirmed = res.get("demo_with_change_exit", 0) != 0 and res.get("demo_without_change_exit", 1) == 0 and res.get("imports") and not res.get("suite_extra_failures")
        meta = dict(
            property=a.prop,
            breaks=f"property {a.prop}",
            needs_to_manifest=a.needs,
            note=a.note,
            confirmed=bool(confirmed),
            what_i_ran=[
                "git worktree of /repo HEAD + git apply patch.diff",
                f"demonstration {os.path.basename(demo)} with PYTHONPATH=<worktree>/src: exit {res.get('demo_with_change_exit')} with the change, exit {res.get('demo_without_change_exit')} without",
                f"pinned suite with the change (pytest -n 6): extra failures beyond the 5 baseline always-fail tests: {res.get('suite_extra_failures')}" if a.suite else "pinned suite not run",
                "./check all --no-write --repo <worktree with the patch applied>" if a.in_worktree else "git -C /repo apply patch.diff; ./check all --no-write; git -C /repo checkout -- .",
            ],
            checks_fired=res.get("checks_fired"),
            checks_undecided=res.get("checks_undecided"),
            detected_by_own_property=res.get("detected_by_own_property"),
        )
        with open(os.path.join(dst, "meta.json"), "w") as fh:
            json.dump(meta, fh, indent=1)
            fh.write("\n")
    print(json.dumps(res, indent=1))


if __name__ == "__main__":
    main()
