#!/venv/bin/python
"""Footprint map of the rule set: which constructs of the anchored source files does *any* rule look at?

Development aid, not a check (it decides nothing about /repo and is not registered in MANIFEST.json).
For every file a property lists under `anchors.files`, enumerate small syntactic mutations (comparison
flips, +/- and */ swaps, perturbed literals, swapped call arguments, negated tests, and/or swaps,
dropped statements), write each into a per-worker scratch copy of the package, and run the quick
checks of the properties that anchor the file with `--repo <scratch> --no-write`.  A mutation that no
check reacts to (exit 0) marks a construct that no rule reads.  Whether such a mutation breaks the
property (or is already caught by the test suite) is NOT decided here: the output is a reading list,
ordered by function, used to find clauses that have no rule yet.

usage: blindspots.py [--property Cxx ...] [--file REL ...] [--jobs 16] [--out FILE.json] [--max-per-func N]
Scratch copies live under $TMPDIR/rsa-blind-<pid>-<worker>/ and are removed at the end.
"""

import argparse
import ast
import concurrent.futures as cf
import json
import os
import shutil
import subprocess
import sys
import tempfile

VERIF = os.path.dirname(os.path.dirname(os.path.abspath(__file__)))
CMP = {ast.Lt: "<=", ast.LtE: "<", ast.Gt: ">=", ast.GtE: ">", ast.Eq: "!=", ast.NotEq: "=="}
BIN = {ast.Add: "-", ast.Sub: "+", ast.Mult: "/", ast.Div: "*"}


def seg(src_lines, node):
    return ast.get_source_segment("".join(src_lines), node)


class Sites(ast.NodeVisitor):
    def __init__(self, src):
        self.src = src
        self.out = []  # (func, lineno, kind, start, end, replacement)
        self.func = ["<module>"]
        self.offs = [0]
        for ln in src.splitlines(keepends=True):
            self.offs.append(self.offs[-1] + len(ln.encode()))
        self.bsrc = src.encode()

    def pos(self, lineno, col):
        return self.offs[lineno - 1] + col

    def span(self, node):
        return self.pos(node.lineno, node.col_offset), self.pos(node.end_lineno, node.end_col_offset)

    def text(self, node):
        a, b = self.span(node)
        return self.bsrc[a:b].decode()

    def add(self, node, kind, a, b, rep):
        self.out.append((".".join(self.func[1:]) or "<module>", node.lineno, kind, a, b, rep))

    def visit_FunctionDef(self, node):
        self.func.append(node.name)
        # skip docstring
        body = node.body
        for st in body:
            self.visit(st)
        self.func.pop()

    visit_AsyncFunctionDef = visit_FunctionDef

    def visit_ClassDef(self, node):
        self.func.append(node.name)
        for st in node.body:
            self.visit(st)
        self.func.pop()

    def visit_Compare(self, node):
        if len(node.ops) == 1 and type(node.ops[0]) in CMP:
            l, r = node.left, node.comparators[0]
            a = self.span(l)[1]
            b = self.span(r)[0]
            self.add(node, f"cmp {type(node.ops[0]).__name__}->{CMP[type(node.ops[0])]}", a, b, f" {CMP[type(node.ops[0])]} ")
        self.generic_visit(node)

    def visit_BinOp(self, node):
        if type(node.op) in BIN:
            a = self.span(node.left)[1]
            b = self.span(node.right)[0]
            mid = self.bsrc[a:b].decode()
            if "(" not in mid and ")" not in mid:
                self.add(node, f"binop {type(node.op).__name__}->{BIN[type(node.op)]}", a, b, f" {BIN[type(node.op)]} ")
        self.generic_visit(node)

    def visit_BoolOp(self, node):
        a = self.span(node.values[0])[1]
        b = self.span(node.values[1])[0]
        mid = self.bsrc[a:b].decode()
        if "(" not in mid and ")" not in mid:
            self.add(node, "boolop swap", a, b, " or " if isinstance(node.op, ast.And) else " and ")
        self.generic_visit(node)

    def visit_Constant(self, node):
        if isinstance(node.value, (int, float)) and not isinstance(node.value, bool):
            a, b = self.span(node)
            v = node.value
            rep = repr(v + 1) if isinstance(v, int) else repr(v * 2.0 if v else 1.0)
            self.add(node, f"const {v!r}->{rep}", a, b, rep)

    def visit_Call(self, node):
        if len(node.args) >= 2 and not any(isinstance(x, ast.Starred) for x in node.args[:2]):
            a0, b0 = self.span(node.args[0])
            a1, b1 = self.span(node.args[1])
            t0, t1 = self.bsrc[a0:b0].decode(), self.bsrc[a1:b1].decode()
            if t0 != t1:
                self.add(node, "swap args 0,1", a0, b1, t1 + self.bsrc[b0:a1].decode() + t0)
        self.generic_visit(node)

    def visit_If(self, node):
        a, b = self.span(node.test)
        self.add(node, "negate if", a, b, f"not ({self.bsrc[a:b].decode()})")
        self.generic_visit(node)

    def visit_While(self, node):
        self.generic_visit(node)

    def _stmt(self, node):
        if node.lineno == node.end_lineno or True:
            a, b = self.span(node)
            self.add(node, "drop stmt", a, b, "pass")

    def visit_Expr(self, node):
        if isinstance(node.value, ast.Constant) and isinstance(node.value.value, str):
            return  # docstring
        if isinstance(node.value, ast.Call):
            nm = ast.unparse(node.value.func)
            if "log" in nm.lower() or nm in ("print", "warn"):
                return
        self._stmt(node)
        self.generic_visit(node)

    def visit_Assign(self, node):
        # dropping an assignment usually breaks the build (NameError at run time is still a 'compiling' change);
        # only drop assignments to attributes / subscripts (state updates)
        if all(isinstance(t, (ast.Attribute, ast.Subscript)) for t in node.targets):
            self._stmt(node)
        self.generic_visit(node)

    def visit_AugAssign(self, node):
        self._stmt(node)
        self.generic_visit(node)

    def visit_Subscript(self, node):
        self.generic_visit(node)

    def visit_UnaryOp(self, node):
        if isinstance(node.op, ast.USub) and not isinstance(node.operand, ast.Constant):
            a, b = self.span(node)
            self.add(node, "drop unary minus", a, b, self.text(node.operand))
        self.generic_visit(node)

    def visit_Attribute(self, node):
        if node.attr == "T" and isinstance(node.ctx, ast.Load):
            a, b = self.span(node)
            self.add(node, "drop .T", a, b, self.text(node.value))
        self.generic_visit(node)


def enumerate_sites(path):
    src = open(path).read()
    tree = ast.parse(src)
    s = Sites(src)
    s.visit(tree)
    return src, s.out


_SCRATCH = None


def _scratch(repo):
    global _SCRATCH
    if _SCRATCH is None:
        _SCRATCH = tempfile.mkdtemp(prefix=f"w{os.getpid()}-", dir=os.environ["RSA_BLIND_BASE"])
        shutil.copytree(os.path.join(repo, "src", "resonaate"), os.path.join(_SCRATCH, "src", "resonaate"), ignore=shutil.ignore_patterns("__pycache__", "*.pyc", "*.dat", "*.json", "*.bsp", "*.csv", "*.txt"))
    return _SCRATCH


def run_mutant(job):
    repo, rel, props, func, lineno, kind, a, b, rep = job
    sc = _scratch(repo)
    path = os.path.join(sc, rel)
    orig = open(os.path.join(repo, rel), "rb").read()
    mut = orig[:a] + rep.encode() + orig[b:]
    try:
        compile(mut, path, "exec")
    except (SyntaxError, ValueError):
        return dict(rel=rel, func=func, line=lineno, kind=kind, status="nocompile")
    res = {}
    try:
        with open(path, "wb") as fh:
            fh.write(mut)
        for pid in props:
            pr = subprocess.run([os.path.join(VERIF, "check"), pid, "--repo", sc, "--no-write"], capture_output=True, text=True, cwd=VERIF)
            rules = sorted({ln.split("rule=")[1].split()[0] for ln in pr.stdout.splitlines() if ln.strip().startswith("rule=") or ln.startswith("UNDECIDED")})
            res[pid] = [pr.returncode, rules]
    finally:
        with open(path, "wb") as fh:
            fh.write(orig)
    codes = [v[0] for v in res.values()]
    status = "violation" if 1 in codes else "undecided" if 2 in codes else "silent"
    return dict(rel=rel, func=func, line=lineno, kind=kind, status=status, res=res, text=orig[a:b].decode(errors="replace")[:60], rep=rep[:60])


def main():
    ap = argparse.ArgumentParser()
    ap.add_argument("--repo", default="/repo")
    ap.add_argument("--property", nargs="*")
    ap.add_argument("--file", nargs="*")
    ap.add_argument("--jobs", type=int, default=16)
    ap.add_argument("--out", default=os.path.join(tempfile.gettempdir(), "blindspots.json"))
    ap.add_argument("--max-per-func", type=int, default=40)
    a = ap.parse_args()
    by_file = {}
    for ln in open(os.path.join(VERIF, "properties.jsonl")):
        d = json.loads(ln)
        if a.property and d["id"] not in a.property:
            continue
        for f in d["anchors"]["files"]:
            by_file.setdefault(f, []).append(d["id"])
    jobs = []
    for rel, props in sorted(by_file.items()):
        if a.file and not any(x in rel for x in a.file):
            continue
        path = os.path.join(a.repo, rel)
        if not os.path.exists(path):
            continue
        src, sites = enumerate_sites(path)
        per = {}
        for func, lineno, kind, s, e, rep in sites:
            per.setdefault(func, 0)
            if per[func] >= a.max_per_func:
                continue
            per[func] += 1
            jobs.append((a.repo, rel, props, func, lineno, kind, s, e, rep))
    print(f"{len(jobs)} mutants over {len(by_file)} files", file=sys.stderr)
    out = []
    base = tempfile.mkdtemp(prefix=f"rsa-blind-{os.getpid()}-")
    os.environ["RSA_BLIND_BASE"] = base
    try:
        with cf.ProcessPoolExecutor(max_workers=a.jobs) as ex:
            for i, r in enumerate(ex.map(run_mutant, jobs, chunksize=4)):
                out.append(r)
                if i % 200 == 0:
                    print(f"  {i}/{len(jobs)}", file=sys.stderr)
    finally:
        shutil.rmtree(base, ignore_errors=True)
    with open(a.out, "w") as fh:
        json.dump(out, fh, indent=0)
    # summary per function
    agg = {}
    for r in out:
        k = (r["rel"], r["func"])
        d = agg.setdefault(k, dict(violation=0, undecided=0, silent=0, nocompile=0))
        d[r["status"]] += 1
    print("file | function | mutants | detected | undecided | silent")
    for (rel, func), d in sorted(agg.items()):
        n = d["violation"] + d["undecided"] + d["silent"]
        print(f"{rel.replace('src/resonaate/', '')} | {func} | {n} | {d['violation']} | {d['undecided']} | {d['silent']}")


if __name__ == "__main__":
    main()
