#!/venv/bin/python
"""Run the registered checks against every kept seeded change and refresh its meta.json.

For each /verif/seeded/<name>/patch.diff:   git -C /repo apply <patch>;  ./check all --no-write;
git -C /repo checkout -- .   (exactly the procedure of the brief; /repo must be clean before and is
clean after).  Records which rules fired for the seed's own property and for other properties,
and prints a markdown table (used for DESIGN.md section 5.2).

usage: seed_refresh.py [--only NAME ...] [--table-only]
"""

import argparse
import json
import os
import re
import subprocess
import sys

VERIF = os.path.dirname(os.path.dirname(os.path.abspath(__file__)))
SEEDED = os.path.join(VERIF, "seeded")


def sh(cmd, cwd=None):
    pr = subprocess.run(cmd, cwd=cwd, capture_output=True, text=True)
    return pr.returncode, pr.stdout + pr.stderr


def parse(out):
    fired = {}
    for ln in out.splitlines():
        m = re.match(r"^\s+rule=(\S+) .*?construct=(\S+)", ln)
        if m:
            fired.setdefault(m.group(1).split(".")[0], []).append(f"{m.group(1)}:{m.group(2)}")
    undec = [ln[:300] for ln in out.splitlines() if ln.startswith(("UNDECIDED", "ANALYSIS-ERROR"))]
    return fired, undec


def main():
    ap = argparse.ArgumentParser()
    ap.add_argument("--only", nargs="*")
    ap.add_argument("--table-only", action="store_true")
    ap.add_argument("--update-design", action="store_true", help="replace the table of DESIGN.md section 5.2")
    a = ap.parse_args()
    names = sorted(d for d in os.listdir(SEEDED) if os.path.exists(os.path.join(SEEDED, d, "patch.diff")))
    if a.only:
        names = [n for n in names if n in a.only]
    if not a.table_only:
        code, out = sh(["git", "-C", "/repo", "status", "--porcelain"])
        if out.strip():
            print("/repo is not clean; refusing to apply seeds", file=sys.stderr)
            return 2
        for n in names:
            d = os.path.join(SEEDED, n)
            meta_p = os.path.join(d, "meta.json")
            meta = json.load(open(meta_p))
            try:
                code, out = sh(["git", "-C", "/repo", "apply", os.path.join(d, "patch.diff")])
                if code != 0:
                    meta["applies_to_head"] = False
                    print(f"{n}: patch does not apply: {out[:200]}", file=sys.stderr)
                else:
                    meta["applies_to_head"] = True
                    code, out = sh([os.path.join(VERIF, "check"), "all", "--no-write", "--jobs", "16"], cwd=VERIF)
                    fired, undec = parse(out)
                    meta["checks_fired"] = fired
                    meta["checks_undecided"] = undec[:10]
                    meta["detected_by_own_property"] = meta["property"] in fired
                    meta["head_checked"] = sh(["git", "-C", "/repo", "rev-parse", "--short", "HEAD"])[1].strip()
            finally:
                sh(["git", "-C", "/repo", "checkout", "--", "."])
            with open(meta_p, "w") as fh:
                json.dump(meta, fh, indent=1)
                fh.write("\n")
            print(f"{n}: own={meta.get('detected_by_own_property')} fired={sorted(meta.get('checks_fired') or {})}", file=sys.stderr)
        code, out = sh(["git", "-C", "/repo", "status", "--porcelain"])
        assert not out.strip(), "/repo left dirty"
    # table
    lines = []
    print_ = lines.append
    print_("| seeded change | property | needs to manifest | caught by (own property) | also fires | confirmed |")
    print_("|---|---|---|---|---|---|")
    for n in names:
        meta = json.load(open(os.path.join(SEEDED, n, "meta.json")))
        fired = meta.get("checks_fired") or {}
        own = sorted({x.split(":")[0] for x in fired.get(meta["property"], [])})
        other = sorted({x.split(":")[0] for k, v in fired.items() if k != meta["property"] for x in v})
        needs = (meta.get("needs_to_manifest") or "").replace("|", "/")
        print_(f"| `{n}` | {meta['property']} | {needs} | {', '.join(own) or '**missed**'} | {', '.join(other) or '-'} | {'yes' if meta.get('confirmed') else 'NO'} |")
    print("\n".join(lines))
    if a.update_design:
        dp = os.path.join(VERIF, "DESIGN.md")
        txt = open(dp).read()
        block = "<!-- SEED_TABLE_BEGIN -->\n" + "\n".join(lines) + "\n<!-- SEED_TABLE_END -->"
        if "SEED_TABLE_PLACEHOLDER" in txt:
            txt = txt.replace("SEED_TABLE_PLACEHOLDER", block)
        else:
            txt = re.sub(r"<!-- SEED_TABLE_BEGIN -->.*?<!-- SEED_TABLE_END -->", lambda m: block, txt, flags=re.S)
        open(dp, "w").write(txt)
    return 0


if __name__ == "__main__":
    sys.exit(main())
