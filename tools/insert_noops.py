#!/venv/bin/python
"""Behaviour-preserving stress transformation: put a no-op statement (`pass`) at the start of every block
(function bodies after the docstring, branches, loop bodies, handlers).  usage: insert_noops.py <scratch repo copy>"""

import ast
import os
import sys

N = 0


def pad(blk, skip_doc):
    global N
    i = 1 if skip_doc and blk and isinstance(blk[0], ast.Expr) and isinstance(blk[0].value, ast.Constant) and isinstance(blk[0].value.value, str) else 0
    blk.insert(i, ast.Pass())
    N += 1


root = os.path.join(sys.argv[1], "src", "resonaate")
for dp, dn, fns in os.walk(root):
    for f in fns:
        if f.endswith(".py"):
            path = os.path.join(dp, f)
            tree = ast.parse(open(path).read())
            for fn in [n for n in ast.walk(tree) if isinstance(n, (ast.FunctionDef, ast.AsyncFunctionDef))]:
                for n in ast.walk(fn):
                    for field in ("body", "orelse", "finalbody"):
                        blk = getattr(n, field, None)
                        if isinstance(blk, list) and blk and isinstance(blk[0], ast.stmt):
                            if field == "orelse" and isinstance(n, ast.If) and len(blk) == 1 and isinstance(blk[0], ast.If):
                                continue  # keep elif chains
                            pad(blk, isinstance(n, (ast.FunctionDef, ast.AsyncFunctionDef)) and field == "body")
                    if isinstance(n, ast.Try):
                        for h in n.handlers:
                            pad(h.body, False)
            ast.fix_missing_locations(tree)
            out = ast.unparse(tree)
            compile(out, path, "exec")
            open(path, "w").write(out + "\n")
print(f"inserted {N} no-ops", file=sys.stderr)
