#!/venv/bin/python
"""Behaviour-preserving stress transformation: rename every function-local variable of the package.

usage: rename_locals.py <scratch repo copy> [--suffix _rn] [--only-module PREFIX]

Every name that a function binds itself (assignment, for / with / except target, walrus; not a
parameter, not global / nonlocal, not bound or declared by a nested scope) is renamed to
<name><suffix> throughout that function, including reads from nested lambdas / comprehensions /
functions that do not rebind it.  Modules are rewritten with ast.unparse (comments and layout are
lost - also a formatting-robustness test).  The result must behave identically, so every check
must still PASS on it; a rule that fires or goes undecided depends on a local's spelling.
"""

import argparse
import ast
import os
import sys


class Scope(ast.NodeVisitor):
    """Collect names bound directly in one function body (not in nested scopes)."""

    def __init__(self):
        self.bound = set()
        self.declared = set()

    def visit_FunctionDef(self, n):
        self.declared.add(n.name)  # bound by a string field, not a Name: keep the spelling

    visit_AsyncFunctionDef = visit_FunctionDef

    def visit_ClassDef(self, n):
        self.declared.add(n.name)

    def visit_Lambda(self, n):
        pass

    def _comp(self, n):
        # the first iterable is evaluated in the enclosing scope
        self.visit(n.generators[0].iter)

    visit_ListComp = visit_SetComp = visit_DictComp = visit_GeneratorExp = _comp

    def visit_Global(self, n):
        self.declared |= set(n.names)

    visit_Nonlocal = visit_Global

    def visit_Name(self, n):
        if isinstance(n.ctx, (ast.Store, ast.Del)):
            self.bound.add(n.id)

    def visit_ExceptHandler(self, n):
        if n.name:
            self.declared.add(n.name)  # keep the spelling: bound by a string field, not a Name
        self.generic_visit(n)

    def visit_Import(self, n):
        for a in n.names:
            self.declared.add((a.asname or a.name).split(".")[0])

    visit_ImportFrom = visit_Import

    def visit_MatchAs(self, n):
        if n.name:
            self.declared.add(n.name)
        self.generic_visit(n)

    visit_MatchStar = visit_MatchAs


def nested_rebinders(fn):
    """Names that some nested scope of fn binds itself, declares nonlocal / global, or has as parameter."""
    out = set()
    for n in ast.walk(fn):
        if n is fn:
            continue
        if isinstance(n, (ast.FunctionDef, ast.AsyncFunctionDef, ast.Lambda)):
            a = n.args
            out |= {x.arg for x in a.posonlyargs + a.args + a.kwonlyargs}
            if a.vararg:
                out.add(a.vararg.arg)
            if a.kwarg:
                out.add(a.kwarg.arg)
            if not isinstance(n, ast.Lambda):
                sc = Scope()
                for st in n.body:
                    sc.visit(st)
                out |= sc.bound | sc.declared
        elif isinstance(n, (ast.ListComp, ast.SetComp, ast.DictComp, ast.GeneratorExp)):
            for g in n.generators:
                for x in ast.walk(g.target):
                    if isinstance(x, ast.Name):
                        out.add(x.id)
            for x in ast.walk(n):
                if isinstance(x, ast.NamedExpr) and isinstance(x.target, ast.Name):
                    out.add(x.target.id)  # walrus in a comprehension binds in the enclosing function: keep
        elif isinstance(n, ast.ClassDef):
            sc = Scope()
            for st in n.body:
                sc.visit(st)
            out |= sc.bound | sc.declared
    return out


def rename_function(fn, suffix):
    a = fn.args
    params = {x.arg for x in a.posonlyargs + a.args + a.kwonlyargs}
    if a.vararg:
        params.add(a.vararg.arg)
    if a.kwarg:
        params.add(a.kwarg.arg)
    sc = Scope()
    for st in fn.body:
        sc.visit(st)
    names = {n for n in sc.bound if n not in params and n not in sc.declared and not n.startswith("__")}
    names -= nested_rebinders(fn)
    names -= {"_"}
    if not names:
        return 0
    for n in ast.walk(fn):
        if isinstance(n, ast.Name) and n.id in names:
            n.id = n.id + suffix
    return len(names)


def main():
    ap = argparse.ArgumentParser()
    ap.add_argument("repo")
    ap.add_argument("--suffix", default="_rn")
    ap.add_argument("--only-module", default="")
    a = ap.parse_args()
    root = os.path.join(a.repo, "src", "resonaate")
    total = 0
    files = 0
    for dp, dn, fns in os.walk(root):
        for f in fns:
            if not f.endswith(".py"):
                continue
            path = os.path.join(dp, f)
            rel = os.path.relpath(path, root)
            if a.only_module and not rel.startswith(a.only_module):
                continue
            src = open(path).read()
            tree = ast.parse(src)
            # innermost functions first, so that an outer rename does not see renamed inner names twice
            fns_ = [n for n in ast.walk(tree) if isinstance(n, (ast.FunctionDef, ast.AsyncFunctionDef))]
            n_here = 0
            for fn in reversed(fns_):
                n_here += rename_function(fn, a.suffix)
            if n_here:
                out = ast.unparse(tree)
                compile(out, path, "exec")
                open(path, "w").write(out + "\n")
                files += 1
                total += n_here
    print(f"renamed {total} locals in {files} files", file=sys.stderr)


if __name__ == "__main__":
    main()
