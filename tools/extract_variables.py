#!/venv/bin/python
"""Behaviour-preserving stress transformation: `extract variable` on every function - `return E` becomes
`result_xv = E; return result_xv`, and the test of every `if` statement that is not an `elif` becomes a local
bound just before it.  usage: extract_variables.py <scratch repo copy>"""

import ast
import os
import sys

N = 0


class X(ast.NodeTransformer):
    def __init__(self):
        self.k = 0

    def _block(self, blk):
        global N
        out = []
        for st in blk:
            st = self.generic_visit(st) if not isinstance(st, (ast.FunctionDef, ast.AsyncFunctionDef, ast.ClassDef)) else st
            if isinstance(st, ast.Return) and st.value is not None and not isinstance(st.value, (ast.Name, ast.Constant)):
                self.k += 1
                nm = f"result_xv{self.k}"
                out.append(ast.copy_location(ast.Assign(targets=[ast.Name(id=nm, ctx=ast.Store())], value=st.value), st))
                out.append(ast.copy_location(ast.Return(value=ast.Name(id=nm, ctx=ast.Load())), st))
                N += 1
            elif isinstance(st, ast.If) and not isinstance(st.test, (ast.Name, ast.Constant)) and not any(isinstance(x, ast.NamedExpr) for x in ast.walk(st.test)):
                self.k += 1
                nm = f"cond_xv{self.k}"
                out.append(ast.copy_location(ast.Assign(targets=[ast.Name(id=nm, ctx=ast.Store())], value=st.test), st))
                st.test = ast.copy_location(ast.Name(id=nm, ctx=ast.Load()), st.test)
                out.append(st)
                N += 1
            else:
                out.append(st)
        return out

    def generic_visit(self, node):
        for field in ("body", "orelse", "finalbody"):
            blk = getattr(node, field, None)
            if isinstance(blk, list) and blk and isinstance(blk[0], ast.stmt):
                if field == "orelse" and isinstance(node, ast.If) and len(blk) == 1 and isinstance(blk[0], ast.If):
                    # elif chain: the test is evaluated only when the earlier tests failed - recurse without extracting it
                    inner = blk[0]
                    for f2 in ("body", "orelse"):
                        b2 = getattr(inner, f2)
                        if b2:
                            setattr(inner, f2, self._block(b2) if not (f2 == "orelse" and len(b2) == 1 and isinstance(b2[0], ast.If)) else [self.generic_visit(b2[0])])
                    continue
                setattr(node, field, self._block(blk))
        if isinstance(node, ast.Try):
            for h in node.handlers:
                h.body = self._block(h.body)
        return node


root = os.path.join(sys.argv[1], "src", "resonaate")
for dp, dn, fns in os.walk(root):
    for f in fns:
        if f.endswith(".py"):
            path = os.path.join(dp, f)
            tree = ast.parse(open(path).read())
            before = N
            for fn in [n for n in ast.walk(tree) if isinstance(n, (ast.FunctionDef, ast.AsyncFunctionDef))]:
                X().generic_visit(fn)
            if N != before:
                ast.fix_missing_locations(tree)
                out = ast.unparse(tree)
                compile(out, path, "exec")
                open(path, "w").write(out + "\n")
print(f"extracted {N} variables", file=sys.stderr)
