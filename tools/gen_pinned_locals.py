#!/venv/bin/python
"""Record the spellings and binding shapes of every function's locals on the current /repo tree.

Run after a fix commit changes a function that rules refer to (the record only steers the
alpha-normalisation of rsa/alpha.py; it decides nothing).  usage: gen_pinned_locals.py [repo]
"""

import json
import os
import sys

sys.path.insert(0, os.path.dirname(os.path.dirname(os.path.abspath(__file__))))
from rsa import alpha  # noqa: E402
from rsa.model import Project  # noqa: E402

repo = sys.argv[1] if len(sys.argv) > 1 else "/repo"
p = Project(repo, alpha=False)
rec = alpha.record(p)
with open(alpha.PINNED, "w") as fh:
    json.dump(rec, fh, indent=0, sort_keys=True)
    fh.write("\n")
fns = {k: v for k, v in rec.items() if "#" not in k}
print(f"{len(fns)} functions, {sum(len(v['locals']) for v in fns.values())} locals, {sum(len(v['compares']) for v in fns.values())} comparisons, {len(rec) - len(fns)} module global tables recorded -> {alpha.PINNED}")
