#!/venv/bin/python
"""Evaluate a behaviour-preserving refactoring delivered by a sub-agent.

usage: neutral_eval.py <property> <dir with patch.diff, equiv.py[, notes.md]> [--keep NAME] [--suite]

1. scratch worktree of /repo HEAD (under $TMPDIR): equiv.py must exit 0 on the clean tree and with the patch applied;
   optionally the pinned suite with the patch (only baseline failures);
2. ./check all --no-write --repo <patched worktree>: every property must stay PASS (known findings allowed);
3. with --keep the refactoring is stored under /verif/neutral/<NAME>/ (it then is part of the validation corpus).
The worktree is removed.
"""

import argparse
import json
import os
import re
import shutil
import subprocess
import sys
import tempfile

VERIF = os.path.dirname(os.path.dirname(os.path.abspath(__file__)))
BASELINE_FAIL = {
    "tests/common/test_config.py",
    "tests/test_resonaate.py::testEntryPoint",
    "tests/test_resonaate.py::testModuleCommand",
    "tests/physics/test_earth_orientation_params.py::testRemoteData",
    "tests/tasking/test_metrics.py::TestInformationMetric::testCalculateMetric",
}


def sh(cmd, cwd=None, env=None, timeout=3600):
    pr = subprocess.run(cmd, shell=isinstance(cmd, str), cwd=cwd, env=env, capture_output=True, text=True, timeout=timeout)
    return pr.returncode, pr.stdout + pr.stderr


def main():
    ap = argparse.ArgumentParser()
    ap.add_argument("prop")
    ap.add_argument("dir")
    ap.add_argument("--keep")
    ap.add_argument("--suite", action="store_true")
    a = ap.parse_args()
    d = os.path.abspath(a.dir)
    patch = os.path.join(d, "patch.diff")
    equiv = os.path.join(d, "equiv.py")
    res = dict(property=a.prop, dir=d)
    wt = tempfile.mkdtemp(prefix=f"neutral-{a.prop}-")
    os.rmdir(wt)
    try:
        code, out = sh(["git", "-C", "/repo", "worktree", "add", "-q", "--detach", wt, "HEAD"])
        assert code == 0, out
        env = dict(os.environ, PYTHONPATH=os.path.join(wt, "src"))
        os.makedirs(os.path.join(wt, "NEUTEQ"))
        shutil.copy(equiv, os.path.join(wt, "NEUTEQ", "equiv.py"))
        code, out = sh(["/venv/bin/python", "NEUTEQ/equiv.py"], cwd=wt, env=env, timeout=1200)
        res["equiv_clean_exit"] = code
        code, out = sh(["git", "apply", "--check", patch], cwd=wt)
        res["patch_applies"] = code == 0
        if code != 0:
            res["error"] = out[-400:]
            print(json.dumps(res, indent=1))
            return
        sh(["git", "apply", patch], cwd=wt)
        code, out = sh(["/venv/bin/python", "NEUTEQ/equiv.py"], cwd=wt, env=env, timeout=1200)
        res["equiv_patched_exit"] = code
        res["equiv_patched_tail"] = out[-300:]
        if a.suite:
            code, out = sh("/venv/bin/python -m pytest -q -p no:cacheprovider --timeout=900 --continue-on-collection-errors --no-cov -rfE -n 6 2>&1 | tail -40", cwd=wt, env=env, timeout=3600)
            fails = set(re.findall(r"^(?:FAILED|ERROR) (\S+)", out, flags=re.M))
            res["suite_extra_failures"] = sorted(f for f in fails if f not in BASELINE_FAIL)
        code, out = sh([os.path.join(VERIF, "check"), "all", "--no-write", "--jobs", "8", "--repo", wt], cwd=VERIF)
        res["check_exit"] = code
        res["not_pass"] = [ln[:400] for ln in out.splitlines() if ln.startswith(("VIOLATION", "UNDECIDED", "ANALYSIS-ERROR")) or ln.startswith("  rule=")]
    finally:
        sh(["git", "-C", "/repo", "worktree", "remove", "--force", wt])
    ok = res.get("equiv_clean_exit") == 0 and res.get("equiv_patched_exit") == 0 and not res.get("suite_extra_failures")
    res["behaviour_preserving_confirmed"] = bool(ok)
    if a.keep and ok:
        dst = os.path.join(VERIF, "neutral", a.keep)
        os.makedirs(dst, exist_ok=True)
        shutil.copy(patch, os.path.join(dst, "patch.diff"))
        shutil.copy(equiv, os.path.join(dst, "equiv.py"))
        if os.path.exists(os.path.join(d, "notes.md")):
            shutil.copy(os.path.join(d, "notes.md"), os.path.join(dst, "notes.md"))
        with open(os.path.join(dst, "meta.json"), "w") as fh:
            json.dump(dict(property=a.prop, kind="behaviour-preserving refactoring from a sub-agent (second neutral round); equiv.py exits 0 on the clean tree and with the patch" + ("; pinned suite with the patch: only baseline failures" if a.suite else ""), expect="pass", first_evaluation=dict(check_exit=res.get("check_exit"), not_pass=res.get("not_pass"))), fh, indent=1)
            fh.write("\n")
    print(json.dumps(res, indent=1))


if __name__ == "__main__":
    main()
