#!/venv/bin/python
"""Generate /verif/MANIFEST.json from the per-property tables below and the rule modules present."""

import json
import os

HERE = os.path.dirname(os.path.dirname(os.path.abspath(__file__)))

BASELINE = "cd /repo && /venv/bin/python -m pytest -ra -q -p no:cacheprovider --timeout=900 --continue-on-collection-errors"

COMMON_NOTE = (
    "Trusted base: Python's ast parser; the rsa engine (callee resolution from the repo's own annotations plus "
    "class-hierarchy analysis, statement CFG with explicit exception edges only, effect summaries with Ray put/get as a "
    "deep-copy boundary); the frozen third-party semantics table in DESIGN.md section 1; the anchor tables of Appendix A "
    "(a vanished anchor or an instance count below its floor is exit 2, never a pass)."
)

P = {
    "C01": dict(
        technique="static analysis: symbolic normal forms of window bounds over the clock state (provenance), exhaustive weak-ordering evaluation of comparison-only predicates, discarded-pure-result lint, dispatch/registry exhaustiveness, effect liveness",
        text="Decides, for all paths and all inputs of the comparison-only predicates, the structural necessary conditions of C01: per-step event windows tile by provenance (R1), the SQL window is the half-open (lb, ub] predicate (R2), events are dispatched by scope_instance_id through an effective filter (R3), every scope/event/config has exactly one handling site (R4), delivery and retention conventions of both queues agree on every weak ordering (R5), handler effects are live (R6), payload slots agree (R7). It does NOT decide which step a boundary event lands in (binary rounding of three Julian dates) nor integrator root finding; level 'other' because the behavioural property is not proved. Later additions: the effect chain of delivered events including events that are due when the integrator stops for another one (R8), and ownership of the two event queues - created per agent, grown only by their append method, shrunk only by their prune method (R9).",
        ref="DESIGN.md section 4, C01",
    ),
    "C05": dict(
        technique="static analysis: dataflow of the float seconds component through rounding / truncation operators, exact rational folding of unit constants, provenance of the step-count quotient",
        text="Decides the structural necessary conditions of C05: the float seconds of a Julian date are rounded (never truncated) before reaching a datetime and carry through timedelta (R1); the timed-run target date is julianDateToDatetime(start)+delta with calendar fields in order (R2); every seconds<->days constant folds to exactly 86400 or 1/86400 and the two scenario-time directions are exact reciprocals (R3); the step count is floor(round(delta)/physics step) with one stepForward per iteration and a common `+ dt_step` accumulation (R4). Does NOT decide monotonicity or sub-millisecond exactness of the calendar algorithm over 1901-2099 (float arithmetic). Later additions: no expression mixes quantities derived from two generations of the corrected year, the calendar algorithms agree with the cited ones, and the leap-year test is tabulated over 1901-2099 (R5).",
        ref="DESIGN.md section 4, C05",
    ),
    "C08": dict(
        technique="static analysis: interprocedural effect summaries (rebind / keyed store / accumulate / delete) of every Registration.processResults closure, key-provenance of keyed stores, CFG dominance of per-step resets over enqueue sites, slot agreement along the pointing payload chain",
        text="Decides the structural necessary conditions of C08 for every schedule at once: merges into a registrant shared by the jobs of a batch are commutative (in-place accumulation, job-disjoint keyed stores, no rebind) (R1); every results-derived element is accumulated exactly once (R2); per-step buffers are reset at assess entry before the first enqueue and saved buffers are drained by their accessors (R3); every pointing update is applied to its sensor and every observation routed to its own target's update job, with payload slots preserved from sensor to agent (R4). Does NOT decide numerical identity across schedules (float reduction order, unseeded worker noise). Later additions: each job result reaches its own registration exactly once (R5); a grouping helper used for routing must keep every observation (itertools.groupby only over input sorted by the same key) (R4).",
        ref="DESIGN.md section 4, C08",
    ),
    "C11": dict(
        technique="static analysis: provenance of the ground dynamics' time base (shared rounding-discipline rule), instant-consistency of the capture expression, confinement of Terrestrial.propagate's return expression",
        text="Decides the structural necessary conditions of C11: the ground dynamics' start datetime is the scenario start instant exactly (the JD->datetime conversion must round) (R1); the configured state is captured Earth-fixed at one instant, the clock's start (R2); Terrestrial.propagate depends only on the captured Earth-fixed state and start + elapsed seconds (R3); geodetic configuration slots and degree conversion (R4). Does NOT decide the metre-level accuracy of the reduction nor the inertial velocity values. Later additions: alternative constructors of the ground dynamics are inlined before the capture-instant comparison (R2); the calendar inversion used for the start date is a shared instance of C05.R5 (R5).",
        ref="DESIGN.md section 4, C11",
    ),
    "C02": dict(
        technique="static analysis: CFG must-pass-through / control-dependence of every observation and miss on its constraint atoms, comparator-polarity table over semantic operand kinds, path counting of primary records",
        text="Decides the structural necessary conditions of C02 on every path of the observation pipeline: reported and predicted observations are dominated by the passing slew, field-of-view and visibility checks (R1); each sensor class' isVisible passes every constraint atom of that class before `return True` (R2); each miss reason is control-dependent on its own constraint failing (R3); guards compare the documented operands with the documented operator (R4); exactly one record of the tasked target per path (R5); background targets exclude the primary, share the pointing and are slew-gated (R6); the measurement is taken from the tested geometry and noise is drawn only when requested (R7). Does NOT decide that each predicate equals the exact geometry, nor the noise magnitude. Later additions: operands of every optical helper call compared in fully inlined form (R4), the field-of-view rules of C14 shared as R8 / R9, and the configured order of the mask limits preserved from configuration to sensor (R10).",
        ref="DESIGN.md section 4, C02",
    ),
    "C04": dict(
        technique="static analysis: normal forms of rotation chains (rot_i, transposes, named reduction matrices) and duality check between inverse pairs, call-tree reversal of composites, matrix-literal algebra, sibling agreement",
        text="Decides the structural necessary conditions of C04: each primitive conversion pair is the reversed chain of inverse factors with opposite transport terms (R1); composites are reversed compositions of inverse primitives with identical parameter slots (R2); rot1-3, skewSymmetric and dotRot literals have their algebraic shape (R3); reduction parameters are mutual transposes in both builders (R4); the two sidereal-rotation siblings agree (R5); calendar tables (R6). Does NOT decide inverse accuracy to rounding, continuity in time, or the geodetic closed form (numerics).",
        ref="DESIGN.md section 4, C04",
    ),
    "C06": dict(
        technique="static analysis: path-sensitive generation typestate over self-fields with inlined self-method calls; normal-form comparison with the documented unscented-transform formulas",
        text="Decides the structural necessary conditions of C06 on every path of predict/forecast/update for both resampling modes: state and measurement residuals paired in the cross covariance come from one sigma-point generation and the prediction/forecast products are the documented formulas (R1); the no-observation path returns the propagated mean and covariance untouched (R2); all stacked quantities iterate the same observation sequence in order and the update is x = pred_x + K nu (R3); unscented weights and sigma-point construction follow the documented formulas (R4). Does NOT decide equality with the Kalman filter as numbers, PSD-ness, or weight sums. Later additions: the state a prediction writes is carried through the result-application path (R5); every producer of the covariance square root yields the lower Cholesky (or a symmetric) factor, which is what the column-wise sigma-point spread needs (R6).",
        ref="DESIGN.md section 4, C06",
    ),
    "C14": dict(
        technique="static analysis: angle-kind dataflow (wrap discipline), exhaustive weak-ordering evaluation of the mask predicates against an independent circular-interval specification, comparator-polarity and operand checks of helpers",
        text="Decides the structural necessary conditions of C14: azimuth differences are wrapped to (-pi, pi] before use (R1); the azimuth-mask accept condition equals the circular-interval specification and the elevation mask equals e0 <= el <= e1 on every weak ordering of their symbols - an exhaustive finite case split valid for all inputs (R2); polarity and operands of lineOfSight and the lighting / limb / exclusion helpers (R3); conic and rectangular field-of-view tests are functions of the angular offsets with the documented widths (R4). Does NOT decide geometric exactness as values or the Sun-fraction range. Later additions: hand-written wraps must be two-sided (R1); mask limits keep their configured order from configuration to sensor (R6).",
        ref="DESIGN.md section 4, C14",
    ),
    "C19": dict(
        technique="static analysis: override exhaustiveness from the session-writing closure, who-may-call, propositional implication of the raise condition, remote-handle typing (ray.put provenance) with attribute resolution",
        text="Decides the structural necessary conditions of C19: every public mutating method of the data interface is overridden by a raise in the importer, private writers are unreachable from run-path modules and run paths use only the non-committing getData (R1); the condition of the MissingEphemerisError raise is implied by 'registered minus retrieved is non-empty' for every value of the other atoms (R2); records are imported into the registrant of their own id, which is then removed (R3); imported observations flow to saveObservations and every attribute read on a ray.get value resolves in the class its handle was put with (R4). Does NOT decide the contents of arbitrary importer files. Later additions: the duplicate key of imported observations contains the target and the sensor (R4); every agent is dispatched on its own realtime flag (R3).",
        ref="DESIGN.md section 4, C19",
    ),
    "C03": dict(
        technique="static analysis: slice arithmetic of the strided (6, K) batch layout in both derivative siblings, dataflow confinement of the elapsed time to the absolute epoch, normal-form agreement of the two-body acceleration and the f/g closed form",
        text="Deliberately narrow: decides that both derivative implementations and the restart loop use one strided (6, K) layout (R1), that the perturbed derivative depends on time only through init_julian_date + t/86400 (R2), and that the two-body acceleration and the universal Kepler f/g closed form with its consistency guard are the documented expressions (R3). Does NOT decide split/restart equality within tolerance, Kepler exactness or conservation - integrator numerics, which no static argument in reach bounds. Later additions: the Stumpff functions are checked branch by branch - closed forms by normal form, any polynomial branch by exact rational coefficients against the series (R3).",
        ref="DESIGN.md section 4, C03",
    ),
    "C07": dict(
        technique="static analysis: closure of the public decision path (override / who-may-call / writer enumeration), dependence of the optimiser input on the mask, registry totality and injectivity, store-shape checks, normal-form agreement of the reward formulas",
        text="Decides the structural necessary conditions of C07: the only public decision path ends in `& visibility_matrix`, nothing overrides or bypasses it, the engine stores the result unmodified and visibility is set only by successful predicted observations - so a sensor is only ever tasked to a target it can see, for all matrices (R1); whether the assignment optimiser sees the mask (R2, known finding K4); label registries total and injective (R3); store shapes and optimiser arguments of the four policies (R4); documented reward combination and per-metric normalisation (R5). Does NOT decide optimality of the assignment, argmax correctness, equivariance or metric values. Later additions: reward formulas are compared after inlining small pure helpers; the normalisation may not hang on a guard over all metrics at once (R5).",
        ref="DESIGN.md section 4, C07",
    ),
    "C09": dict(
        technique="static analysis: provenance of every epoch key, single-transaction / who-may-write enumeration, AST typestate of the session scope, drain-accessor shapes, epoch-coverage obligation over stepForward / saveDatabaseOutput, column-slot agreement from column names",
        text="Decides the structural necessary conditions of C09: every row built on a run path is keyed by a canonical epoch source (R1); one list and one final bulkSave per step, closed set of database writers (R2); session scope commits only after a clean yield, rolls back and re-raises otherwise, always closes (R3); one ephemeris per agent per output and drained buffers (R4); agent rows are ensured before events referencing them (R5); the epoch of every step whose rows are buffered is ensured before the bulk save (R6); Julian date / timestamp pairing of Epoch rows (R7); the 6 state and 36 covariance columns are written and read back at the index their name encodes (R8). Does NOT decide numeric values read back or row counts over all step / output-step combinations. Later additions: snapshot result fields replace driver buffers (R9); the Julian date recorded for a pending epoch is the clock's own value, the float the rows carry as foreign key (R6).",
        ref="DESIGN.md section 4, C09",
    ),
    "C10": dict(
        technique="static analysis: non-interference by writer enumeration of truth fields, interprocedural effect summaries of the step closure with Ray put/get as a copy boundary, aliasing and configuration-flow checks, CFG dominance of the propagation join",
        text="Decides the non-interference conditions behind C10: a closed set of writers of truth state and of callers of the truth setters (R1); the step's closure after the propagation join writes nothing of a driver agent but sensor pointing and the time-bias queue, estimation / tasking / sensor code never calls a truth writer (R2); propagation jobs are built from and merged into their own agent only (R3); no dynamics object is shared between agents (R4); only propagation / geopotential / perturbation / time settings reach truth dynamics and the estimate's settings are a deep copy (R5); propagation is unconditional and precedes estimation / tasking (R6); output and call splitting keep no state (R7). Does NOT decide bit-for-bit determinism of SciPy and Ray. Later additions: the estimate's propagation settings are an isolating copy of the scenario's (deep copy, or a shallow copy when only top-level fields are rebound; pydantic model_validate of an instance is an alias) (R5).",
        ref="DESIGN.md section 4, C10",
    ),
    "C12": dict(
        technique="static analysis: path-condition case tables of the four sibling case splits, unit-conversion counting at the configuration boundary, decorator / closed-form checks of the anomaly conversions",
        text="Narrow: decides that eci2coe, singularityCheck, ClassicalElements.fromConfig and COEStateConfig.validate_elements agree on the (inclined, eccentric) case partition, on which slots are zero and on the slot of each singular case's defining angle (R1); that angular configuration fields are converted to radians exactly once (R2); that every anomaly conversion is range-wrapped, guards the circular case and has its documented closed form (R3). Does NOT decide any round trip as numbers. Later additions: every configuration field is consumed by the element constructor (R2); every arc-cosine of a normalised dot product in the element code is domain-safe (R4).",
        ref="DESIGN.md section 4, C12",
    ),
    "C13": dict(
        technique="static analysis: def-use / switch coverage of perturbation terms, frame-kind and slot checks of the helper calls, normal-form agreement of each perturbation formula with its cited reference",
        text="Decides the structural necessary conditions of C13: each perturbation is defined under its own switch and summed once with the point-mass term, configuration fields map one-to-one onto switches (R1); the geopotential is evaluated on R^T r and rotated back, helper slots and the Sun position are consistent, one epoch (R2); degree / order slots, loop ranges, unit conversions (R3); third-body, SRP, relativistic, Cunningham recursion and acceleration partials equal their cited reference expressions as normal forms (R4). Does NOT decide the value of any formula, the Chebyshev ephemerides or continuity of Sun / Moon positions. Later additions: the third-body set is created afresh per object and no force-model function fills in a mutable default argument (R1).",
        ref="DESIGN.md section 4, C13",
    ),
    "C15": dict(
        technique="static analysis: taint of the burn end time through the integrator event function, weak-ordering evaluation of the re-arm / retention predicates, sibling agreement of the orbital derivatives on applying the armed thrust",
        text="Decides the structural necessary conditions of C15: whether the burn's end time can produce a sign change or an integration bound (R1, known finding K2: it cannot unless step-aligned); re-arm iff start < t0 < end, retention while now < end, callback / restart loop / registries / payload slots (R2); every orbital derivative applies the armed thrust (R3, defect fixed for two-body). Does NOT decide the delivered delta-v. Later additions: the restart increment after an event is at least the absolute zero-zone tolerance of the event functions (R4).",
        ref="DESIGN.md section 4, C15",
    ),
    "C16": dict(
        technique="static analysis: angle-kind dataflow in the filters, shape checks of the wrap / residual / circular-mean helpers, order agreement of labels, flags and values, iteration-order checks of stacked quantities",
        text="Decides the structural necessary conditions of C16: measurement vectors never meet in a raw subtraction or linear mean in the filters (R1); every angular residual ends in a true modulo wrap of (first - second), the wrap helpers reduce modulo 2pi with the documented closed end, the circular mean reads angles only through sin / cos with common weights (R2); labels, flags and values share one order and each measurement type declares the angular kind matching its range (R3); stacked quantities iterate the observation list in order (R4). Does NOT decide numerical invariance to turns and permutations.",
        ref="DESIGN.md section 4, C16",
    ),
    "C17": dict(
        technique="static analysis: protocol agreement over all detector classes (CFG must-pass-through of the metric store), normal-form agreement of the three statistics, polarity of the chi-square test, control dependence of the flags",
        text="Decides the structural necessary conditions of C17: every detector stores the statistic it tests and returns `not test(metric, threshold, dof)` (R1); the three statistics and their degrees of freedom are the documented expressions, windows are paired deques of the configured length, the fading recursion advances before it is read (R2); the chi-square test is the strict upper-tail comparison and the quadratic form r^T P^-1 r (R3); flags are raised iff the detector fired (R4). Does NOT decide chi-square values or monotonicity as numbers. Later additions: rules are independent of local spellings; a running degrees-of-freedom total is accepted only when the oldest dimension is subtracted before the bounded window evicts it (R2).",
        ref="DESIGN.md section 4, C17",
    ),
    "C18": dict(
        technique="static analysis: path-sensitive normalised / raw typestate of the model weights with inlined self / super calls and a tracked truthiness atom, dominance of model removal by its guard, parallel-array pairing, normal-form agreement of the mixture formulas",
        text="Decides the structural necessary conditions of C18: every public exit of update / prune / initialize and every mixture read sees weights assigned a normalising form, and the zero-mass reset precedes the division (R1, R2); model removal is guarded by `more than one model`, shrinks all parallel arrays with the same index, back to front (R3); the mixture mean is refreshed before the covariance, and mean / covariance / likelihood / Bayes step / handed-back filter are the documented expressions (R4). Does NOT decide Bayes-rule values, underflow beyond the reset, or PSD-ness. Later additions: closure hands back the surviving model - the mixture is recompiled before the hand-over, nothing changes it afterwards, and the pruning filter reaches it with one model left (R5).",
        ref="DESIGN.md section 4, C18",
    ),
    "C20": dict(
        technique="static analysis: inverse-chain and slot-kind check of the radar-observation inversion, vector-shape (3 vs 6 elements) discipline of the IOD pipeline, slot / epoch agreement of the Lambert call and f-g velocity reconstruction",
        text="Narrow: decides that radarObs2eciPosition is the reversed inverse chain of the measurement model with each observed quantity in the slot of its kind (R1); that no certainly-3-element position reaches an unguarded velocity slice in the IOD pipeline (R2, defect fixed); that the pipeline hands the solver (r1, r2, t2 - t1, sense) of exactly the two observations used and returns (r2, v2), with the documented f-g velocity reconstruction (R3). Does NOT decide both Lambert iterations nor the accuracy of the IOD result (boundary-value numerics) - the larger part of the property; an honest partial claim. Later additions: sense / quadrant corrections in the Lambert solvers precede every use of the corrected quantity (R4).",
        ref="DESIGN.md section 4, C20",
    ),
}

# rules added in the third session (round-5 seeds, blind-spot map): appended to the claim text / technique
ADD = {
    "C01": ("; load-time event filters evaluated on all weak orderings against the simulated span (t0, t1] (R10); stored event times reach the integration event un-quantised and in their own slot (R11)", "; weak-ordering evaluation of load-time filters; provenance of event times without lossy operators"),
    "C02": ("; the reported measurement components are the exact recoveries of the spherical model that defines the SEZ vector - quadrant agreement of the azimuth, elevation, range and range rate (R11); measurement noise is drawn with a factor F satisfying F F^T = R (R12)", "; rational-function normal forms and quadrant (atan2 slot / sign) agreement; matrix-factor convention table"),
    "C03": ("; solve_ivp's per-event result lists are read per event in both restart loops (R4); the restart loop of propagate is read through a symbolic loop summary, so R1 does not depend on statement shape", "; symbolic loop summaries; ragged-collection discipline of the event lists"),
    "C04": ("; RSW / NTW triads are orthonormal and right-handed for every state, decided algebraically from how the rows are built (R9); the spherical model: documented position rows, velocity rows equal to their formal time derivative, and every angle recovery (cartesian2spherical, getAzimuth / getElevation / getRange / getRangeRate) agrees with it slot by slot and quadrant by quadrant, quotients compared by cross multiplication (R10); no conversion function hands back a result stored for another argument - memo soundness (R11)", "; abstract vector algebra of basis triads; rational-function normal forms with formal differentiation; memo-soundness analysis of state that outlives a call"),
    "C05": ("; memo soundness of the time conversions (R7); the step count, the clock tick and the agents' step all come from the configured physics step, unmodified (R8)", "; memo-soundness analysis; provenance agreement of the step size across scenario, clock and agents"),
    "C06": ("; a matrix rebuilt from svd / eigh / eig outputs uses each factor in the orientation the decomposition returns it (R7)", "; decomposition-output orientation table"),
    "C08": ("; every tasked sensor-target pair is handed to a task-execution job: row-wise index sets of the decision matrix, emptiness test by size not by truth of the indices, own target, all tasked sensors (R6)", "; index-kind / mask-kind discipline of the job-construction loop"),
    "C09": ("; the epoch-key sources may be cached only coherently: every writer of a cached input resets the cache (R10)", "; lazy-cache coherence over the class hierarchy"),
    "C10": ("; nothing assigns class-level or module-level state of dynamics.* / physics.* from run-time arguments (R8)", "; package-wide scan of class-object and module-global writes with parameter dependence"),
    "C11": ("; shared Earth-orientation rules: reduction-parameter transposes and the sidereal-rotation siblings (R8, R9)", ""),
    "C12": ("; memo soundness of the element conversions (R5); coe2eqe equals the equinoctial definition on every path as a function of its parameters, eqe2coe recovers the angles with the sine-carrying component first (R6)", "; path-wise symbolic return expressions compared as rational functions; memo-soundness analysis"),
    "C13": ("; memo soundness of the force-model support modules (R6); the rotation to the Earth-fixed frame is the shared sidereal rotation over a correct day-of-year (R7, R8)", "; memo-soundness analysis"),
    "C14": ("; memo soundness of the visibility helpers (R7); every sensor class applies each visibility predicate with its documented sense before reporting a target visible (R8-R10, shared with C02)", "; memo-soundness analysis"),
    "C15": ("; every registered thrust law puts the configured acceleration in slots [:3] on its documented NTW / inertial axis with the documented sign cases (R5); ntw2eci is the orthonormal right-handed NTW triad of the state (R6); configured burn times reach the integration event un-quantised, start and end in their own slots (R7)", "; path-wise return expressions of the thrust laws; abstract vector algebra of the NTW triad; provenance of event times without lossy operators"),
    "C16": ("; the angle-kind discipline (R1) also covers the multiple-model filters' compiled innovation", ""),
    "C18": ("; the stacking function is evaluated abstractly over row / column stacks and weights: on every path it is the weighted mean over the MODELS, never a product that is shape-correct only when the model count equals the state dimension (R4)", "; abstract shape evaluation of weighted means"),
    "C20": ("; the forward spherical model and the measurement recoveries it is inverted against (R5, shared with C04.R10)", "; rational-function normal forms and quadrant agreement"),
}

# rules added in the continuation of the third session (DESIGN 5.4)
ADD2 = {
    "C01": ("; every event of the step's window query is delivered unconditionally (R3 extended); Celestial._prepEvents hands every scheduled event to the integrator - no conditional append (R12)", "; must-pass analysis of the delivery loops"),
    "C03": ("; the thrust state is cleared on every path of _prepEvents, which precedes the integrator on every path (R5); a batched segment that contains no requested time: solve_ivp's empty-list `t` / `y` are never used as arrays unguarded (R6)", "; must-pass analysis; API-contract (typestate) reading of solve_ivp results"),
    "C04": ("; mirror symmetry of the geodetic and spherical conversions on every return path by a parity dataflow analysis (R12); ecef2lla equals the cited closed form (Vallado Alg. 13) path-wise as rational functions (R13); dayOfYear through the standard library only for the given date (R6)", "; parity (even / odd) abstract interpretation; path-wise rational-function comparison with a reference transcription"),
    "C05": ("; the requested run duration reaches the stop date without a truncating operation, unit times value = requested hours (R9)", "; lossy-operator provenance"),
    "C06": ("; linear measurement components are never flagged angular (R8, shared with C16.R1)", ""),
    "C08": ("; an executed tasking writes boresight and time_last_tasked on every path of the feasible-slew branch (R7)", "; must-write analysis through helpers"),
    "C09": ("; one clock per agent: every ScenarioTime field of a job submission is the registrant's own time (+ step), builders pass the clock expression the agent starts from (R11)", "; type-directed provenance of time fields"),
    "C11": ("; the calendar table / day-of-year rule behind the sidereal rotation (R10, shared with C04.R6)", ""),
    "C14": ("; the arccos domain guard clips at least 1 + 2 ulp, read off its path conditions with numpy's finfo constants folded (R11); Sun-fraction and line-of-sight formulas as reference-definition comparisons", "; interval reading of guard conditions; reference-definition agreement"),
    "C15": ("; delivery of the step's events to the addressed agent for any start (R8, shared with C01.R3)", ""),
    "C18": ("; the normalisation typestate covers every public method that transitively writes the weights (R1 entry discovery)", ""),
    "C19": ("; every observation routed to a target's update job reaches the filter: registration -> submission -> update, whole list at every hop (R4 update hop)", ""),
    "C20": ("; the universal-variable and Battin Lambert solvers are the cited algorithms definition by definition, guards included (Vallado Alg. 58 / 59, Battin), and Battin's continued-fraction coefficient tables follow their closed forms (R6, R7)", "; reference-definition agreement (rational-function normal forms under dominating conditions); constant folding of literal tables"),
}

# rules added after the seventh seed round / fourth neutral round (DESIGN 5.5)
ADD3 = {
    "C01": ("; the datetime -> Julian date conversion behind event times never consults the host's time zone (R13, shared with C05.R10)", ""),
    "C02": ("; the pointing state reported back by a task-execution job is built in the iteration that collected it, sensor by sensor (R13, shared with C08.R4)", ""),
    "C03": ("; the batch is flattened and restored in C order only (R1)", ""),
    "C04": ("; Earth-orientation values are the table record of the UTC day - never combined across days, which would smear the leap-second jump (R14)", "; provenance of the table lookup through builder, getter and loader"),
    "C05": ("; no time conversion calls a host-dependent function - astimezone on naive datetimes, fromtimestamp, mktime, now (R10)", "; forbidden-call scan with an embedded positive example"),
    "C07": ("; the metric index tables describe the metric matrix's column layout: positions are taken from the very sequence that is stored and iterated (R5)", ""),
    "C10": ("; no validator of a configuration class derives a propagation parameter (physics step, model, degree / order, perturbation switches) from another setting (R9)", "; field-write provenance inside the pydantic configuration classes"),
    "C11": ("; host-independent time conversions (R11, shared with C05.R10)", ""),
    "C12": ("; coe2eci, eci2eqe, eqe2eci and the orbit vector utilities agree with the cited constructions definition by definition, quadrant-fixing components included (R7); singularityCheck path-wise (R1)", "; reference-definition agreement"),
    "C13": ("; the iteration domain of the geopotential accumulation(s) - read off loop bounds and guards as comparison-only predicates - equals 2 <= n <= degree, 0 <= m <= min(n, order), each pair once, on every weak ordering of (n, m, degree, order, 0, 1, 2) (R3)", "; iteration-domain analysis by exhaustive weak orderings"),
    "C16": ("; no method on the measurement-update path re-orders the observation list it is handed (R5)", ""),
    "C19": ("; a failed read of the database is never reported as an empty result: no path from an exception handler of getData to a return without re-raising or a completed read (R5)", "; must-pass analysis over exception handlers"),
}

ADD4 = {
    "C02": ("; the optical constraint predicates keep their documented operands and polarity (R14, shared with C14.R3)", ""),
    "C03": ("; inside the column loop of every derivative nothing computed once per evaluation, nor the solver's state or a view of it, is changed in place - directly or through a resolved callee that modifies the corresponding parameter (R7)", "; parameter-mutation summaries with alias / view tracking (rsa/inplace.py)"),
    "C04": ("; a result buffer created like a parameter and filled element-wise has an explicit float dtype (R15)", ""),
    "C07": ("; the visibility and metric matrices are re-created on every path of assess() before the reward jobs, or rewritten on every path of processResults (R1)", ""),
    "C08": ("; the observation list routed to an estimate reaches its filter whole - no hop keeps a position-dependent subset (R8, shared with C19.R4)", "; selection analysis of list-valued expressions and helpers"),
    "C11": ("; Terrestrial.propagate hands ecef2eci nothing computed from an attribute captured at construction - an Earth-orientation reduction is the one of the instant itself (R3)", ""),
    "C12": ("; the Kepler residuals equal their closed forms, both solvers run Newton on their own residual / derivative / argument order or the recognised reduction through arctan2(h, k), every arctan2 over (h, k) / (p, q) takes the sine component first, and same-named arguments between siblings are not transposed (R8)", ""),
    "C14": ("; azimuth / elevation recoveries are the exact inverses of the spherical model (R12, shared with C04.R10)", ""),
    "C17": ("; no detector re-binds its configured threshold in __init__, subclasses forward it unchanged (R1)", ""),
    "C18": ("; the agent installs a started multiple-model filter whenever initialize() succeeded, looks for the CLOSE flag after the start attempt, installs converged_filter and clears the flag (R6)", "; control-dependence of the installation on the start result alone"),
}

# rules added in the ninth and tenth seed rounds (DESIGN 5.7, 5.8)
ADD5 = {
    "C01": ("; every consumer of a sensor's time-bias queue applies the bias of a queued event under no condition that a retained event can fail, on all weak orderings of (start, end, now) against the retention predicate (R14)", "; accessor analysis of queue consumers"),
    "C03": ("; the time of flight reaches the universal-variable iteration without being re-bound to anything but a reduction by the orbital period (R3)", ""),
    "C04": ("; no conversion of physics.transforms / maths / measurements / orbits modifies the array it is given, directly, through a view or alias, or through a resolved callee (R16)", "; parameter-mutation summaries (rsa/inplace.py)"),
    "C06": ("; no method of the unscented filter picks an array axis or orientation by comparing lengths (R9); the filter factories hand every estimate an object created by that call (R10)", "; forbidden-idiom scan with embedded positive examples; freshness provenance (rsa/fresh.py)"),
    "C07": ("; the id -> row / column maps are the enumeration of the id lists after every add / remove (R6)", ""),
    "C08": ("; the engine keeps every record a task-execution job hands back, in both buffers (R9)", ""),
    "C09": ("; every create_engine / sessionmaker / Session / execution_options call of resonaate.data carries transaction-neutral options only, so that commit / rollback of the session scope are real (R12)", "; frozen option table of the SQLAlchemy / pysqlite transaction switches"),
    "C10": ("; no agent, dynamics or event class shares a mutable class-level default that a method modifies in place (R10); validators write a setting neither from nor under a test of another setting (R9, flow and control dependence); dynamicsFactory hands every agent a dynamics object created by that call (R11)", "; freshness provenance (rsa/fresh.py)"),
    "C11": ("; the inertial state of a configured site is computed from its latitude / longitude / altitude fields on every call - no private cache that copies carry along (R12)", ""),
    "C12": ("; a special-case form of the perifocal rotation selected by isInclined agrees with R3(-raan) R1(-inc) R3(-argp) at both ends of the inclination domain read off isInclined (R9)", "; rotation-chain algebra with degenerate R1 factors"),
    "C13": ("; perturbation switches are what the user wrote (R10, shared with C10.R9)", ""),
    "C14": ("; FieldOfView.fromConfig hands each constructor parameter the configuration field of the same name (R13)", ""),
    "C16": ("; between the Observation record and the filter an angle is only re-represented by period-preserving maps (R6); an observation list re-bound to a keyed / stateful selection made while iterating over it is reported as order-dependent (R5)", ""),
    "C17": ("; checkManeuverDetection calls the detector unconditionally and raises the flag iff it fired (R4); every filter gets a detector created by its own factory call - never one kept in a module-level / class-level container or behind a memoising decorator (R5)", "; freshness provenance (rsa/fresh.py)"),
    "C18": ("; adaptiveEstimationFactory hands every estimate a multiple-model filter created by that call (R7); model weights computed as shares of a total never pass their terms through a clipping / rounding / masking operation that makes all-zero terms (0 / 0 = NaN) an ordinary input (R8)", "; freshness provenance (rsa/fresh.py); def-use scan of share-of-total computations"),
    "C19": ("; every database interface creates its engine in its own construction, through helper overrides of every subclass, for the URL it was given (R6)", "; freshness provenance (rsa/fresh.py)"),
    "C20": ("; the second Lambert position of the IOD is the inversion of one radar observation of the step or a mean over exactly the inverted ones (R3)", ""),
}

NA_PENDING = "check not built yet in this session (design in DESIGN.md section 4); will be claimed once its rule module exists"


def main():
    checks = []
    na = []
    for i in range(1, 21):
        pid = f"C{i:02d}"
        have = os.path.exists(os.path.join(HERE, "rules", f"{pid}.py"))
        if have and pid in P:
            d = P[pid]
            checks.append(
                dict(
                    property_id=pid,
                    quick_cmd=f"./check {pid} --tier quick",
                    thorough_cmd=f"./check {pid} --tier thorough",
                    evidence_file=f"/verif/evidence/{pid}.json",
                    replay_cmd_template=f"./check {pid} --replay {{path}}",
                    engine="rsa",
                    level_claimed=dict(category="other", text=d["text"] + (" Added later" + ADD[pid][0] + "." if pid in ADD else "") + (" Added in the continuation" + ADD2[pid][0] + "." if pid in ADD2 else "") + (" Added after the seventh seed round" + ADD3[pid][0] + "." if pid in ADD3 else "") + (" Added after the eighth seed round" + ADD4[pid][0] + "." if pid in ADD4 else "") + (" Added in the ninth / tenth seed rounds" + ADD5[pid][0] + "." if pid in ADD5 else ""), design_ref=d["ref"]),
                    level_note=COMMON_NOTE + (" " + d["note"] if d.get("note") else ""),
                    technique=d["technique"] + (ADD[pid][1] if pid in ADD else "") + (ADD2[pid][1] if pid in ADD2 else "") + (ADD3[pid][1] if pid in ADD3 else "") + (ADD4[pid][1] if pid in ADD4 else "") + (ADD5[pid][1] if pid in ADD5 else ""),
                )
            )
        else:
            na.append(dict(property_id=pid, reason=P.get(pid, {}).get("na") or NA_PENDING))
    m = dict(
        version=1,
        setup_cmd='/venv/bin/python -c "import ast, json, fractions, concurrent.futures; print(\'rsa: nothing to build\')"',
        hooks=dict(
            guard="RESONAATE_VERIF",
            enable="none needed: static checks read the sources of /repo; the guard name is reserved and unused",
            baseline_off_cmd=BASELINE,
            source_commits=[],
            add_only=True,
        ),
        engines=[
            dict(
                name="rsa",
                path="/verif/rsa",
                serves_properties=[c["property_id"] for c in checks],
                kind_free_text="repository-specific static analyser (stdlib ast): program model, callee/type resolution, statement CFG with condition atoms, effect summaries, expression normal forms, weak-ordering evaluation of comparison-only predicates; rule tables per property under /verif/rules",
            )
        ],
        checks=checks,
        notes="All checks are static: they parse /repo/src/resonaate on every run and never import or execute it. Exit 0 = all rule instances PASS or KNOWN-FINDING; exit 1 + 'VIOLATION property=<id> replay=<path>' = a rule instance is violated; exit 2 = UNDECIDED / ANALYSIS-ERROR (unknown shape or vanished anchor: fail-closed, not a violation). Known findings: /verif/known_findings.json. Checker validation corpus: /verif/selftest (run by the thorough tier).",
        not_applicable=na,
    )
    with open(os.path.join(HERE, "MANIFEST.json"), "w") as fh:
        json.dump(m, fh, indent=1)
        fh.write("\n")
    print(f"MANIFEST: {len(checks)} checks, {len(na)} not_applicable")


if __name__ == "__main__":
    main()
