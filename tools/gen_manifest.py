#!/venv/bin/python
"""Generate /verif/MANIFEST.json from the per-property tables below and the rule modules present."""

import json
import os

HERE = os.path.dirname(os.path.dirname(os.path.abspath(__file__)))

BASELINE = "cd /repo && /venv/bin/python -m pytest -ra -q -p no:cacheprovider --timeout=900 --continue-on-collection-errors"

COMMON_NOTE = (
    "Trusted base: Python's ast parser; the rsa engine (callee resolution from the repo's own annotations plus "
    "class-hierarchy analysis, statement CFG with explicit exception edges only, effect summaries with Ray put/get as a "
    "deep-copy boundary); the frozen third-party semantics table in DESIGN.md section 1; the anchor tables of Appendix A "
    "(a vanished anchor or an instance count below its floor is exit 2, never a pass)."
)

P = {
    "C01": dict(
        technique="static analysis: symbolic normal forms of window bounds over the clock state (provenance), exhaustive weak-ordering evaluation of comparison-only predicates, discarded-pure-result lint, dispatch/registry exhaustiveness, effect liveness",
        text="Decides, for all paths and all inputs of the comparison-only predicates, the structural necessary conditions of C01: per-step event windows tile by provenance (R1), the SQL window is the half-open (lb, ub] predicate (R2), events are dispatched by scope_instance_id through an effective filter (R3), every scope/event/config has exactly one handling site (R4), delivery and retention conventions of both queues agree on every weak ordering (R5), handler effects are live (R6), payload slots agree (R7). It does NOT decide which step a boundary event lands in (binary rounding of three Julian dates) nor integrator root finding; level 'other' because the behavioural property is not proved.",
        ref="DESIGN.md section 4, C01",
    ),
}

NA_PENDING = "check not built yet in this session (design in DESIGN.md section 4); will be claimed once its rule module exists"


def main():
    checks = []
    na = []
    for i in range(1, 21):
        pid = f"C{i:02d}"
        have = os.path.exists(os.path.join(HERE, "rules", f"{pid}.py"))
        if have and pid in P:
            d = P[pid]
            checks.append(
                dict(
                    property_id=pid,
                    quick_cmd=f"./check {pid} --tier quick",
                    thorough_cmd=f"./check {pid} --tier thorough",
                    evidence_file=f"/verif/evidence/{pid}.json",
                    replay_cmd_template=f"./check {pid} --replay {{path}}",
                    engine="rsa",
                    level_claimed=dict(category="other", text=d["text"], design_ref=d["ref"]),
                    level_note=COMMON_NOTE + (" " + d["note"] if d.get("note") else ""),
                    technique=d["technique"],
                )
            )
        else:
            na.append(dict(property_id=pid, reason=P.get(pid, {}).get("na") or NA_PENDING))
    m = dict(
        version=1,
        setup_cmd='/venv/bin/python -c "import ast, json, fractions, concurrent.futures; print(\'rsa: nothing to build\')"',
        hooks=dict(
            guard="RESONAATE_VERIF",
            enable="none needed: static checks read the sources of /repo; the guard name is reserved and unused",
            baseline_off_cmd=BASELINE,
            source_commits=[],
            add_only=True,
        ),
        engines=[
            dict(
                name="rsa",
                path="/verif/rsa",
                serves_properties=[c["property_id"] for c in checks],
                kind_free_text="repository-specific static analyser (stdlib ast): program model, callee/type resolution, statement CFG with condition atoms, effect summaries, expression normal forms, weak-ordering evaluation of comparison-only predicates; rule tables per property under /verif/rules",
            )
        ],
        checks=checks,
        notes="All checks are static: they parse /repo/src/resonaate on every run and never import or execute it. Exit 0 = all rule instances PASS or KNOWN-FINDING; exit 1 + 'VIOLATION property=<id> replay=<path>' = a rule instance is violated; exit 2 = UNDECIDED / ANALYSIS-ERROR (unknown shape or vanished anchor: fail-closed, not a violation). Known findings: /verif/known_findings.json. Checker validation corpus: /verif/selftest (run by the thorough tier).",
        not_applicable=na,
    )
    with open(os.path.join(HERE, "MANIFEST.json"), "w") as fh:
        json.dump(m, fh, indent=1)
        fh.write("\n")
    print(f"MANIFEST: {len(checks)} checks, {len(na)} not_applicable")


if __name__ == "__main__":
    main()
