#!/venv/bin/python
"""Behaviour-preserving stress transformation: mirror every comparison (`a < b` -> `b > a`,
`a <= x <= b` -> `b >= x >= a`) whose operands contain no call, await or walrus (so that evaluation
order cannot matter).  usage: flip_comparisons.py <scratch repo copy>"""

import ast
import os
import sys

MIRROR = {ast.Lt: ast.Gt, ast.LtE: ast.GtE, ast.Gt: ast.Lt, ast.GtE: ast.LtE, ast.Eq: ast.Eq, ast.NotEq: ast.NotEq}


class Flip(ast.NodeTransformer):
    n = 0

    def visit_Compare(self, node):
        self.generic_visit(node)
        if not all(type(o) in MIRROR for o in node.ops):
            return node
        operands = [node.left] + node.comparators
        if any(isinstance(x, (ast.Call, ast.Await, ast.NamedExpr, ast.Yield, ast.YieldFrom)) for o in operands for x in ast.walk(o)):
            return node
        ops = [MIRROR[type(o)]() for o in reversed(node.ops)]
        operands = list(reversed(operands))
        Flip.n += 1
        return ast.copy_location(ast.Compare(left=operands[0], ops=ops, comparators=operands[1:]), node)


root = os.path.join(sys.argv[1], "src", "resonaate")
for dp, dn, fns in os.walk(root):
    for f in fns:
        if f.endswith(".py"):
            path = os.path.join(dp, f)
            tree = ast.parse(open(path).read())
            before = Flip.n
            tree = Flip().visit(tree)
            if Flip.n != before:
                ast.fix_missing_locations(tree)
                out = ast.unparse(tree)
                compile(out, path, "exec")
                open(path, "w").write(out + "\n")
print(f"mirrored {Flip.n} comparisons", file=sys.stderr)
