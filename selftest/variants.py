"""Checker-validation corpus: breaking variants (expect VIOLATION from the named rule) and neutral
refactors (expect PASS).  Edits are exact-once text replacements on a scratch copy of the package;
an anchor text that no longer occurs exactly once makes the variant STALE (reported, never silent).
"""

VARIANTS = []


def V(name, prop, expect, rule=None, edits=None, revert=None, paths=None, note=""):
    VARIANTS.append(dict(name=name, property=prop, expect=expect, rule=rule, edits=edits or [], revert_commit=revert, paths=paths, note=note))


SC = "scenario/scenario.py"
EV = "data/events/__init__.py"
CE = "tasking/engine/centralized_engine.py"
EB = "tasking/engine/engine_base.py"
AB = "agents/agent_base.py"
SA = "agents/sensing_agent.py"

# ------------------------------------------------------------------------------------ C01
V("c01-revert-F1-discarded-filter", "C01", "violation", "C01.R3", revert="3d07094")
V("c01-revert-F2-next-jd", "C01", "violation", "C01.R1", revert="7475ce8")
V("c01-revert-F9-priority-before-rewards", "C01", "violation", "C01.R6", revert="be91150")
V("c01-window-start-strict", "C01", "violation", "C01.R2", edits=[(EV, "event_alias.start_time_jd <= julian_date_ub", "event_alias.start_time_jd < julian_date_ub")])
V("c01-window-end-inclusive", "C01", "violation", "C01.R2", edits=[(EV, "event_alias.end_time_jd > julian_date_lb", "event_alias.end_time_jd >= julian_date_lb")])
V("c01-deliver-to-first-agent", "C01", "violation", "C01.R3", edits=[(SC, "event.handleEvent(self.target_agents[event.scope_instance_id])", "event.handleEvent(next(iter(self.target_agents.values())))")])
V("c01-planned-guard-dropped", "C01", "violation", "C01.R3", edits=[(SC, "            if event.planned:\n", "            if True:\n")])
V("c01-engine-id-dropped", "C01", "violation", "C01.R3", edits=[(CE, "                self.logger,\n                scope_instance_id=self.unique_id,\n", "                self.logger,\n")])
V("c01-prune-drops-future-impulse", "C01", "violation", "C01.R5", edits=[(AB, "elif self._time < itr_event.time or fpe_equals(itr_event.time, self._time):", "elif self._time > itr_event.time:")])
V("c01-impulse-start-from-end-time", "C01", "violation", "C01.R4", edits=[("data/events/scheduled_impulse.py", "start_time_jd=datetimeToJulianDate(config.start_time)", "start_time_jd=datetimeToJulianDate(config.end_time)")])
V("c01-thrust-slot-swapped-write", "C01", "violation", "C01.R7", edits=[("data/events/scheduled_impulse.py", "thrust_vec_1=config.thrust_vector[1]", "thrust_vec_1=config.thrust_vector[2]")])
V("c01-thrust-slot-swapped-read", "C01", "violation", "C01.R7", edits=[("data/events/scheduled_impulse.py", "array([self.thrust_vec_0, self.thrust_vec_1, self.thrust_vec_2])", "array([self.thrust_vec_0, self.thrust_vec_2, self.thrust_vec_1])")])
V("c01-queue-not-submitted", "C01", "violation", "C01.R6", edits=[("parallel/agent_propagation.py", "scheduled_events=self._registrant.propagate_event_queue,", "scheduled_events=None,")])
V("c01-scope-site-wrong-scope", "C01", "violation", "C01.R4", edits=[(SC, "                EventScope.OBSERVATION_GENERATION,\n", "                EventScope.AGENT_PROPAGATION,\n")])
V("c01-bias-prune-strict-start", "C01", "violation", "C01.R5", edits=[(SA, "and self.julian_date_epoch >= event.start_time_jd", "and self.julian_date_epoch > event.start_time_jd")])
V("c01-ub-from-prior-plus-dt", "C01", "violation", "C01.R1", edits=[(SC, "                prior_jd,\n                self.clock.julian_date_epoch,\n", "                prior_jd,\n                JulianDate(float(prior_jd) + self.clock.dt_step / 86400.0),\n")])
V("c01-n-obsgen-ub-is-next-jd", "C01", "pass", edits=[(SC, "                prior_jd,\n                self.clock.julian_date_epoch,\n", "                prior_jd,\n                next_jd,\n")])
V("c01-n-store-ub-and-reuse", "C01", "pass", edits=[(SC, "        self.current_julian_date = self.clock.julian_date_epoch\n", "        self.current_julian_date = next_jd\n")])
V("c01-n-swap-comparison-sides", "C01", "pass", edits=[(EV, "event_alias.start_time_jd <= julian_date_ub", "julian_date_ub >= event_alias.start_time_jd")])
V("c01-n-rename-local", "C01", "pass", edits=[(SC, "        next_jd = (self.clock.time", "        upper_jd = (self.clock.time"), (SC, "            prior_jd,\n            next_jd,\n            self.logger,", "            prior_jd,\n            upper_jd,\n            self.logger,"), (SC, "            prior_jd,\n            next_jd,\n        )", "            prior_jd,\n            upper_jd,\n        )")])
