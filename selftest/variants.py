"""Checker-validation corpus: breaking variants (expect VIOLATION from the named rule) and neutral
refactors (expect PASS).  Edits are exact-once text replacements on a scratch copy of the package;
an anchor text that no longer occurs exactly once makes the variant STALE (reported, never silent).
"""

VARIANTS = []


def V(name, prop, expect, rule=None, edits=None, revert=None, paths=None, note="", patch=None, transforms=None):
    VARIANTS.append(dict(name=name, property=prop, expect=expect, rule=rule, edits=edits or [], revert_commit=revert, paths=paths, note=note, patch=patch, transforms=transforms))


SC = "scenario/scenario.py"
EV = "data/events/__init__.py"
CE = "tasking/engine/centralized_engine.py"
EB = "tasking/engine/engine_base.py"
AB = "agents/agent_base.py"
SA = "agents/sensing_agent.py"

# ------------------------------------------------------------------------------------ C01
V("c01-revert-F1-discarded-filter", "C01", "violation", "C01.R3", revert="3d07094")
V("c01-revert-F2-next-jd", "C01", "violation", "C01.R1", revert="7475ce8")
V("c01-revert-F9-priority-before-rewards", "C01", "violation", "C01.R6", revert="be91150")
V("c01-window-start-strict", "C01", "violation", "C01.R2", edits=[(EV, "event_alias.start_time_jd <= julian_date_ub", "event_alias.start_time_jd < julian_date_ub")])
V("c01-window-end-inclusive", "C01", "violation", "C01.R2", edits=[(EV, "event_alias.end_time_jd > julian_date_lb", "event_alias.end_time_jd >= julian_date_lb")])
V("c01-deliver-to-first-agent", "C01", "violation", "C01.R3", edits=[(SC, "event.handleEvent(self.target_agents[event.scope_instance_id])", "event.handleEvent(next(iter(self.target_agents.values())))")])
V("c01-planned-guard-dropped", "C01", "violation", "C01.R3", edits=[(SC, "            if event.planned:\n", "            if True:\n")])
V("c01-engine-id-dropped", "C01", "violation", "C01.R3", edits=[(CE, "                self.logger,\n                scope_instance_id=self.unique_id,\n", "                self.logger,\n")])
V("c01-prune-drops-future-impulse", "C01", "violation", "C01.R5", edits=[(AB, "elif self._time < itr_event.time or fpe_equals(itr_event.time, self._time):", "elif self._time > itr_event.time:")])
V("c01-impulse-start-from-end-time", "C01", "violation", "C01.R4", edits=[("data/events/scheduled_impulse.py", "start_time_jd=datetimeToJulianDate(config.start_time)", "start_time_jd=datetimeToJulianDate(config.end_time)")])
V("c01-thrust-slot-swapped-write", "C01", "violation", "C01.R7", edits=[("data/events/scheduled_impulse.py", "thrust_vec_1=config.thrust_vector[1]", "thrust_vec_1=config.thrust_vector[2]")])
V("c01-thrust-slot-swapped-read", "C01", "violation", "C01.R7", edits=[("data/events/scheduled_impulse.py", "array([self.thrust_vec_0, self.thrust_vec_1, self.thrust_vec_2])", "array([self.thrust_vec_0, self.thrust_vec_2, self.thrust_vec_1])")])
V("c01-queue-not-submitted", "C01", "violation", "C01.R6", edits=[("parallel/agent_propagation.py", "scheduled_events=self._registrant.propagate_event_queue,", "scheduled_events=None,")])
V("c01-scope-site-wrong-scope", "C01", "violation", "C01.R4", edits=[(SC, "                EventScope.OBSERVATION_GENERATION,\n", "                EventScope.AGENT_PROPAGATION,\n")])
V("c01-bias-prune-strict-start", "C01", "violation", "C01.R5", edits=[(SA, "and self.julian_date_epoch >= event.start_time_jd", "and self.julian_date_epoch > event.start_time_jd")])
V("c01-ub-from-prior-plus-dt", "C01", "violation", "C01.R1", edits=[(SC, "                prior_jd,\n                self.clock.julian_date_epoch,\n", "                prior_jd,\n                JulianDate(float(prior_jd) + self.clock.dt_step / 86400.0),\n")])
SBF = "scenario/scenario_builder.py"
_LOOP = "        for event_config in sorted(self._config.events, key=lambda x: x.start_time):\n"
V("c01-load-filter-excludes-stop", "C01", "violation", "C01.R10", edits=[(SBF, _LOOP, _LOOP + "            if event_config.start_time.replace(tzinfo=None) >= self._config.time.stop_timestamp:\n                continue\n")])
V("c01-load-filter-excludes-running-at-start", "C01", "violation", "C01.R10", edits=[(SBF, _LOOP, _LOOP + "            if event_config.start_time.replace(tzinfo=None) <= self._config.time.start_timestamp:\n                continue\n")])
V("c01-load-first-ten-events", "C01", "violation", "C01.R10", edits=[(SBF, _LOOP, "        for event_config in sorted(self._config.events, key=lambda x: x.start_time)[:10]:\n")])
V("c01-n-load-filter-exact", "C01", "pass", edits=[(SBF, _LOOP, _LOOP + "            if event_config.start_time.replace(tzinfo=None) > self._config.time.stop_timestamp or event_config.end_time.replace(tzinfo=None) <= self._config.time.start_timestamp:\n                continue\n")])
V("c01-n-obsgen-ub-is-next-jd", "C01", "pass", edits=[(SC, "                prior_jd,\n                self.clock.julian_date_epoch,\n", "                prior_jd,\n                next_jd,\n")])
V("c01-n-store-ub-and-reuse", "C01", "pass", edits=[(SC, "        self.current_julian_date = self.clock.julian_date_epoch\n", "        self.current_julian_date = next_jd\n")])
V("c01-n-swap-comparison-sides", "C01", "pass", edits=[(EV, "event_alias.start_time_jd <= julian_date_ub", "julian_date_ub >= event_alias.start_time_jd")])
V("c01-n-rename-local", "C01", "pass", edits=[(SC, "        next_jd = (self.clock.time", "        upper_jd = (self.clock.time"), (SC, "            prior_jd,\n            next_jd,\n            self.logger,", "            prior_jd,\n            upper_jd,\n            self.logger,"), (SC, "            prior_jd,\n            next_jd,\n        )", "            prior_jd,\n            upper_jd,\n        )")])

SB_ = "sensors/sensor_base.py"
_BQ = "        if self.host.sensor_time_bias_event_queue:\n            tgt_eci_state = self._applyTimeBias(target_agent)\n"
V("c01-bias-applied-half-open", "C01", "violation", "C01.R14", edits=[(SB_, _BQ, "        if self.host.sensor_time_bias_event_queue and self.host.julian_date_epoch < self.host.sensor_time_bias_event_queue[0].end_time_jd:\n            tgt_eci_state = self._applyTimeBias(target_agent)\n")])
V("c01-bias-applied-guard-clause-strict-start", "C01", "violation", "C01.R14", edits=[(SB_, "        # [NOTE][parallel-time-bias-event-handling] Step three: Check if a sensor has bias events\n", "        if self.host.sensor_time_bias_event_queue[0].start_time_jd >= self.host.julian_date_epoch:\n            return target_agent.eci_state\n")])
V("c01-n-bias-applied-closed-interval", "C01", "pass", edits=[(SB_, _BQ, "        if self.host.sensor_time_bias_event_queue and self.host.sensor_time_bias_event_queue[0].start_time_jd <= self.host.julian_date_epoch <= self.host.sensor_time_bias_event_queue[0].end_time_jd:\n            tgt_eci_state = self._applyTimeBias(target_agent)\n")])
V("c01-n-bias-queue-len-test", "C01", "pass", edits=[(SB_, _BQ, "        if len(self.host.sensor_time_bias_event_queue) > 0:\n            tgt_eci_state = self._applyTimeBias(target_agent)\n")])

# ------------------------------------------------------------------------------------ C08
TE = "parallel/tasking_execution.py"
V("c08-revert-F6-bookkeeping", "C08", "violation", "C08.R1", revert="310bbe3")
V("c08-reset-in-merge", "C08", "violation", "C08.R1", edits=[(EB, "        for sensor_info in sensor_info_list:\n            self.sensor_changes[", "        self.sensor_changes = {}\n        for sensor_info in sensor_info_list:\n            self.sensor_changes[")])
V("c08-observations-rebound-in-merge", "C08", "violation", "C08.R1", edits=[(EB, "        self._observations.extend(observations)\n", "        self._observations = list(observations)\n")])
V("c08-n-squared-misses", "C08", "violation", "C08.R2", edits=[(EB, "        valid_misses = [miss for miss in missed_observations if miss]\n        self._missed_observations.extend(valid_misses)\n        self._saved_missed_observations.extend(valid_misses)\n", "        for miss in missed_observations:\n            if miss:\n                self._missed_observations.extend(missed_observations)\n                self._saved_missed_observations.extend(missed_observations)\n")])
V("c08-double-extend", "C08", "violation", "C08.R2", edits=[(EB, "        self._saved_observations.extend(observations)\n", "        self._saved_observations.extend(observations)\n        self._saved_observations.extend(observations)\n")])
V("c08-missed-not-reset", "C08", "violation", "C08.R3", edits=[(CE, "        self._missed_observations = []\n", "")])
V("c08-sensor-changes-not-reset", "C08", "violation", "C08.R3", edits=[(CE, "        self.sensor_changes = {}\n", "")])
V("c08-reset-after-merge", "C08", "violation", "C08.R3", edits=[(CE, "        self._observations = []\n", ""), (CE, "        # Load imported observations\n", "        self._observations = []\n        # Load imported observations\n")])
V("c08-saved-not-drained", "C08", "violation", "C08.R3", edits=[(EB, "        observations = self._saved_observations\n        self._saved_observations = []\n", "        observations = self._saved_observations\n")])
V("c08-apply-first-change-only", "C08", "violation", "C08.R4", edits=[(SC, "                    self.sensor_agents[sensor_change].updateInfo(\n                        tasking_engine.sensor_changes[sensor_change],\n                    )\n", "                    self.sensor_agents[sensor_change].updateInfo(\n                        tasking_engine.sensor_changes[sensor_change],\n                    )\n                    break\n")])
V("c08-worker-swaps-pointing-slots", "C08", "violation", "C08.R4", edits=[(TE, '"boresight": boresight,\n                "time_last_tasked": time_last_tasked,', '"boresight": time_last_tasked,\n                "time_last_tasked": boresight,')])
V("c08-obs-routed-by-sensor", "C08", "violation", "C08.R4", edits=[(SC, "obs_dict[observation.target_id].append(observation)", "obs_dict[observation.sensor_id].append(observation)")])
V("c08-merge-misses-as-observations", "C08", "violation", "C08.R4", edits=[(TE, "self._registrant.saveMissedObservations(results.missed_observations)", "self._registrant.saveMissedObservations(results.observations)")])
V("c08-reward-row-from-sensor-count", "C08", "violation", "C08.R1", edits=[("parallel/tasking_reward_generation.py", "row = self._registrant.target_list.index(results.estimate_id)", "row = len(results.visibility) - 1")])
V("c08-job-guard-truthy-indices", "C08", "violation", "C08.R6", edits=[(CE, "                if len(tasked_sensor_indices) > 0:", "                if tasked_sensor_indices.any():")])
V("c08-job-guard-min-two", "C08", "violation", "C08.R6", edits=[(CE, "                if len(tasked_sensor_indices) > 0:", "                if len(tasked_sensor_indices) > 1:")])
V("c08-job-target-of-other-row", "C08", "violation", "C08.R6", edits=[(CE, "                            self._estimate_store[target_id],\n                            self._target_store,", "                            self._estimate_store[self.target_list[0]],\n                            self._target_store,")])
V("c08-job-first-sensor-only", "C08", "violation", "C08.R6", edits=[(CE, "[self._sensor_store[sensor_id] for sensor_id in tasked_sensor_ids],", "[self._sensor_store[sensor_id] for sensor_id in tasked_sensor_ids[:1]],")])
V("c08-job-column-of-matrix", "C08", "violation", "C08.R6", edits=[(CE, "where(self.decision_matrix[target_index, :])[0]", "where(self.decision_matrix[:, target_index])[0]")])
V("c08-n-job-flatnonzero-size", "C08", "pass", edits=[(CE, "                tasked_sensor_indices = where(self.decision_matrix[target_index, :])[0]\n                if len(tasked_sensor_indices) > 0:", "                tasked_sensor_indices = flatnonzero(self.decision_matrix[target_index])\n                if tasked_sensor_indices.size > 0:"), (CE, "from numpy import array, where, zeros", "from numpy import array, flatnonzero, zeros")])
V("c08-n-job-mask-any", "C08", "pass", edits=[(CE, "                if len(tasked_sensor_indices) > 0:", "                if self.decision_matrix[target_index, :].any():")])
V("c08-n-job-continue-form", "C08", "pass", edits=[(CE, "                if len(tasked_sensor_indices) > 0:", "                if len(tasked_sensor_indices) != 0:")])
V("c08-n-extend-as-iadd", "C08", "pass", edits=[(EB, "        self._observations.extend(observations)\n", "        self._observations += observations\n")])
V("c08-n-changes-via-update", "C08", "pass", edits=[(EB, "        for sensor_info in sensor_info_list:\n            self.sensor_changes[sensor_info[\"sensor_id\"]] = {\n                \"boresight\": sensor_info[\"boresight\"],\n                \"time_last_tasked\": sensor_info[\"time_last_tasked\"],\n            }\n", "        for sensor_info in sensor_info_list:\n            entry = {\n                \"boresight\": sensor_info[\"boresight\"],\n                \"time_last_tasked\": sensor_info[\"time_last_tasked\"],\n            }\n            self.sensor_changes[sensor_info[\"sensor_id\"]] = entry\n")])
V("c08-n-items-loop", "C08", "pass", edits=[(SC, "                for sensor_change in tasking_engine.sensor_changes:\n                    self.sensor_agents[sensor_change].updateInfo(\n                        tasking_engine.sensor_changes[sensor_change],\n                    )\n", "                for sensor_change, change in tasking_engine.sensor_changes.items():\n                    self.sensor_agents[sensor_change].updateInfo(change)\n")])

# ------------------------------------------------------------------------------------ C05
SD = "physics/time/stardate.py"
V("c05-revert-F3-truncation", "C05", "violation", "C05.R1", revert="c27d9fd")
V("c05-rounded-into-datetime", "C05", "violation", "C05.R1", edits=[(SD, "    return datetime(int(year), int(month), int(day)) + timedelta(seconds=seconds_of_day)", "    return datetime(int(year), int(month), int(day), 0, 0, seconds_of_day)")])
V("c05-no-rounding", "C05", "violation", "C05.R1", edits=[(SD, "    seconds_of_day = round(float(hour) * 3600 + float(minute) * 60 + float(second))", "    seconds_of_day = float(hour) * 3600 + float(minute) * 60 + float(second)")])
V("c05-steps-rounded-up", "C05", "violation", "C05.R4", edits=[(SC, "            for _ in range(int(steps)):", "            for _ in range(round(steps)):")])
V("c05-delta-not-rounded", "C05", "violation", "C05.R4", edits=[(SC, "        rounded_delta = around(target_scenario_time - self.clock.time)", "        rounded_delta = target_scenario_time - self.clock.time")])
V("c05-steps-plus-one", "C05", "violation", "C05.R4", edits=[(SC, "            for _ in range(int(steps)):", "            for _ in range(int(steps) + 1):")])
V("c05-reciprocal-edited", "C05", "violation", "C05.R3", edits=[(SD, "float(self * (1 / (24 * 3600)))", "float(self * (1 / (24 * 3500)))")])
V("c05-target-fields-swapped", "C05", "violation", "C05.R2", edits=[("physics/time/conversions.py", "        target_calendar_date.hour,\n        target_calendar_date.minute,\n", "        target_calendar_date.minute,\n        target_calendar_date.hour,\n")])
V("c05-near-miss-day", "C05", "violation", "C05.R3", edits=[("dynamics/special_perturbations.py", "self.init_julian_date + time / 86400", "self.init_julian_date + time / 86000")])
V("c05-epoch-loop-excludes-last", "C05", "violation", "C05.R4", edits=[("scenario/clock.py", "while sim_time_iter <= self.time_span:", "while sim_time_iter < self.time_span:")])
V("c05-microsecond-scale", "C05", "violation", "C05.R2", edits=[(SD, "date_time.second + date_time.microsecond / 1e6", "date_time.second + date_time.microsecond / 1e5")])
V("c05-clock-step-min-output", "C05", "violation", "C05.R8", edits=[("scenario/clock.py", "        return cls(config.start_timestamp, time_span, config.physics_step_sec)", "        return cls(config.start_timestamp, time_span, min(config.physics_step_sec, config.output_step_sec))")])
V("c05-physics-step-from-output", "C05", "violation", "C05.R8", edits=[(SC, "        return self.scenario_config.time.physics_step_sec", "        return self.scenario_config.time.output_step_sec\n\n    def _unused(self):\n        return self.scenario_config.time.physics_step_sec")])
V("c05-agent-step-halved", "C05", "violation", "C05.R8", edits=[(AB, "        self._dt_step = clock.dt_step", "        self._dt_step = clock.dt_step / 2")])
V("c05-n-clock-step-local", "C05", "pass", edits=[("scenario/clock.py", "        return cls(config.start_timestamp, time_span, config.physics_step_sec)", "        step = config.physics_step_sec\n        return cls(config.start_timestamp, time_span, step)")])
V("c05-n-clock-step-keyword", "C05", "pass", edits=[("scenario/clock.py", "        return cls(config.start_timestamp, time_span, config.physics_step_sec)", "        return cls(config.start_timestamp, time_span, dt_step=config.physics_step_sec)")])
V("c05-n-floor-division", "C05", "pass", edits=[(SC, "            steps = rounded_delta / self.physics_time_step\n", "            steps = rounded_delta // self.physics_time_step\n")])
V("c05-n-round-seconds-then-timedelta", "C05", "pass", edits=[(SD, "    seconds_of_day = round(float(hour) * 3600 + float(minute) * 60 + float(second))\n    return datetime(int(year), int(month), int(day)) + timedelta(seconds=seconds_of_day)", "    return datetime(int(year), int(month), int(day), int(hour), int(minute)) + timedelta(seconds=round(second))")])
V("c05-n-literal-86400", "C05", "pass", edits=[(SD, "float(self * (1 / (24 * 3600)))", "float(self * (1 / 86400))")])

# ------------------------------------------------------------------------------------ C11
TR = "dynamics/terrestrial.py"
V("c11-revert-F3-truncation", "C11", "violation", "C11.R1", revert="c27d9fd")
V("c11-propagate-uses-initial-time", "C11", "violation", "C11.R3", edits=[(TR, "timedelta(seconds=final_time)", "timedelta(seconds=final_time - initial_time)")])
V("c11-propagate-minutes", "C11", "violation", "C11.R3", edits=[(TR, "timedelta(seconds=final_time)", "timedelta(minutes=final_time)")])
V("c11-propagate-from-initial-state", "C11", "violation", "C11.R3", edits=[(TR, "return ecef2eci(self.x_ecef, final_datetime)", "return ecef2eci(initial_state, final_datetime)")])
V("c11-capture-two-instants", "C11", "violation", "C11.R2", edits=[("dynamics/__init__.py", "eci2ecef(agent_cfg.state.toECI(clock.datetime_start), clock.datetime_start)", "eci2ecef(agent_cfg.state.toECI(clock.datetime_start), clock.datetime_epoch)")])
V("c11-lla-lon-lat-swapped", "C11", "violation", "C11.R4", edits=[("scenario/config/state_config.py", "array([self.latitude * DEG2RAD, self.longitude * DEG2RAD, self.altitude])", "array([self.longitude * DEG2RAD, self.latitude * DEG2RAD, self.altitude])")])
V("c11-lla-degrees-not-converted", "C11", "violation", "C11.R4", edits=[("scenario/config/state_config.py", "array([self.latitude * DEG2RAD, self.longitude * DEG2RAD, self.altitude])", "array([self.latitude * DEG2RAD, self.longitude, self.altitude])")])
V("c11-n-inline-final-datetime", "C11", "pass", edits=[(TR, "        final_datetime = self.datetime_start + timedelta(seconds=final_time)\n        return ecef2eci(self.x_ecef, final_datetime)", "        return ecef2eci(self.x_ecef, self.datetime_start + timedelta(seconds=final_time))")])

# ------------------------------------------------------------------------------------ C04
TM = "physics/transforms/methods.py"
MA = "physics/maths.py"
RD = "physics/transforms/reductions.py"
V("c04-revert-F4-skew", "C04", "violation", "C04.R3", revert="8e969bf")
V("c04-rot2-sign", "C04", "violation", "C04.R3", edits=[(MA, "            [cos(angle), 0, -sin(angle)],\n            [0, 1, 0],\n            [sin(angle), 0, cos(angle)],", "            [cos(angle), 0, sin(angle)],\n            [0, 1, 0],\n            [-sin(angle), 0, cos(angle)],")])
V("c04-sez2ecef-lon-sign", "C04", "violation", "C04.R1", edits=[(TM, "sez_2_ecef_rotation = matmul(rot3(-lon), rot2(lat - const.PI / 2))", "sez_2_ecef_rotation = matmul(rot3(lon), rot2(lat - const.PI / 2))")])
V("c04-sez2ecef-chain-order", "C04", "violation", "C04.R1", edits=[(TM, "sez_2_ecef_rotation = matmul(rot3(-lon), rot2(lat - const.PI / 2))", "sez_2_ecef_rotation = matmul(rot2(lat - const.PI / 2), rot3(-lon))")])
V("c04-ecef2eci-transport-sign", "C04", "violation", "C04.R1", edits=[(TM, "matmul(reduction.rot_w, x_ecef[3:]) + v_correction", "matmul(reduction.rot_w, x_ecef[3:]) - v_correction")])
V("c04-eci2ecef-wrong-matrix", "C04", "violation", "C04.R1", edits=[(TM, "r_ecef = matmul(reduction.rot_wt, matmul(reduction.rot_rnp, x_eci[:3]))", "r_ecef = matmul(reduction.rot_w, matmul(reduction.rot_rnp, x_eci[:3]))")])
V("c04-rsw-dropped-T", "C04", "violation", "C04.R1", edits=[(TM, "rsw_2_eci_rotation = array([r_hat, s_hat, w_hat]).T", "rsw_2_eci_rotation = array([r_hat, s_hat, w_hat])")])
V("c04-razel-flip-differs", "C04", "violation", "C04.R1", edits=[(TM, "    return cartesian2spherical(slant_range_sez.dot(diagflat([-1, 1, 1, -1, 1, 1])))", "    return cartesian2spherical(slant_range_sez.dot(diagflat([1, -1, 1, 1, -1, 1])))")])
V("c04-razel2sez-el-az-swapped", "C04", "violation", "C04.R1", edits=[(TM, "spherical2cartesian(rng, el, az, rng_rate, el_rate, az_rate)", "spherical2cartesian(rng, az, el, rng_rate, az_rate, el_rate)")])
V("c04-sez2eci-lat-lon-swapped", "C04", "violation", "C04.R2", edits=[(TM, "    return ecef2eci(sez2ecef(x_sez, lat, lon), utc_date)", "    return ecef2eci(sez2ecef(x_sez, lon, lat), utc_date)")])
V("c04-slant-range-reversed", "C04", "violation", "C04.R2", edits=[(TM, "return ecef2sez(target_ecef - sensor_ecef, lla_state[0], lla_state[1])", "return ecef2sez(sensor_ecef - target_ecef, lla_state[0], lla_state[1])")])
V("c04-slant-range-lon-lat", "C04", "violation", "C04.R2", edits=[(TM, "return ecef2sez(target_ecef - sensor_ecef, lla_state[0], lla_state[1])", "return ecef2sez(target_ecef - sensor_ecef, lla_state[1], lla_state[0])")])
V("c04-rnp-not-transposed", "C04", "violation", "C04.R4", edits=[(RD, "        rot_pef2tod = getRotR(utc_date, eops.delta_ut1, prec_nut.eq_equinox)\n        rot_pnr = matmul(prec_nut.rot_pn, rot_pef2tod)\n\n        return cls(\n            rot_pn=prec_nut.rot_pn,\n            rot_pnr=rot_pnr,\n            rot_rnp=rot_pnr.T,\n            rot_w=polar_motion.rot_w,\n            rot_wt=polar_motion.rot_w.T,\n            lod=eops.length_of_day,\n            eq_equinox=prec_nut.eq_equinox,\n            dut1=eops.delta_ut1,\n            date_time=utc_date,\n        )\n\n\ndef getRotR", "        rot_pef2tod = getRotR(utc_date, eops.delta_ut1, prec_nut.eq_equinox)\n        rot_pnr = matmul(prec_nut.rot_pn, rot_pef2tod)\n\n        return cls(\n            rot_pn=prec_nut.rot_pn,\n            rot_pnr=rot_pnr,\n            rot_rnp=rot_pnr,\n            rot_w=polar_motion.rot_w,\n            rot_wt=polar_motion.rot_w.T,\n            lod=eops.length_of_day,\n            eq_equinox=prec_nut.eq_equinox,\n            dut1=eops.delta_ut1,\n            date_time=utc_date,\n        )\n\n\ndef getRotR")])
V("c04-sidereal-minus-one-dropped", "C04", "violation", "C04.R5", edits=[("dynamics/special_perturbations.py", "elapsed_days = dayOfYear(year, month, day, hours, minutes, seconds + reduction.dut1) - 1", "elapsed_days = dayOfYear(year, month, day, hours, minutes, seconds + reduction.dut1)")])
V("c04-sidereal-dut1-dropped", "C04", "violation", "C04.R5", edits=[(RD, "            seconds + delta_ut1,\n", "            seconds,\n")])
V("c04-month-length-edited", "C04", "violation", "C04.R6", edits=[("physics/time/conversions.py", "days_in_month = [31, 28, 31, 30, 31, 30, 31, 31, 30, 31, 30, 31]", "days_in_month = [31, 28, 31, 30, 31, 30, 31, 30, 31, 31, 30, 31]")])
V("c04-doy-loop-bound", "C04", "violation", "C04.R6", edits=[("physics/time/conversions.py", "while (count < month) and (count < 12):", "while (count <= month) and (count < 12):")])
V("c04-dotrot-wrong-axis", "C04", "violation", "C04.R3", edits=[(MA, "    return rot2(angle).dot(skewSymmetric(omega))", "    return rot1(angle).dot(skewSymmetric(omega))")])
V("c04-n-sez2ecef-as-transpose", "C04", "pass", edits=[(TM, "sez_2_ecef_rotation = matmul(rot3(-lon), rot2(lat - const.PI / 2))", "sez_2_ecef_rotation = matmul(rot2(const.PI / 2 - lat), rot3(lon)).T")])
V("c04-n-neg-form", "C04", "pass", edits=[(TM, "sez_2_ecef_rotation = matmul(rot3(-lon), rot2(lat - const.PI / 2))", "sez_2_ecef_rotation = matmul(rot3(-lon), rot2(-(const.PI / 2 - lat)))")])
V("c04-n-matmul-operator", "C04", "pass", edits=[(TM, "r_ecef = matmul(reduction.rot_wt, matmul(reduction.rot_rnp, x_eci[:3]))", "r_ecef = reduction.rot_wt @ (reduction.rot_rnp @ x_eci[:3])")])
PM = "physics/measurements.py"
V("c04-az-args-swapped", "C04", "violation", "C04.R10", edits=[(PM, "        azimuth = arctan2(slant_range_sez[1], -1.0 * slant_range_sez[0])", "        azimuth = arctan2(-1.0 * slant_range_sez[0], slant_range_sez[1])")])
V("c04-az-sign-lost", "C04", "violation", "C04.R10", edits=[(PM, "        azimuth = arctan2(slant_range_sez[1], -1.0 * slant_range_sez[0])", "        azimuth = arctan2(slant_range_sez[1], slant_range_sez[0])")])
V("c04-az-zenith-wrong-slot", "C04", "violation", "C04.R10", edits=[(PM, "        azimuth = arctan2(slant_range_sez[4], -1.0 * slant_range_sez[3])", "        azimuth = arctan2(slant_range_sez[4], -1.0 * slant_range_sez[5])")])
V("c04-az-not-wrapped", "C04", "violation", "C04.R10", edits=[(PM, "    return wrapAngle2Pi(azimuth)", "    return azimuth")])
V("c04-el-from-arccos", "C04", "violation", "C04.R10", edits=[(PM, "    return arcsin(slant_range_sez[2] / norm(slant_range_sez[:3]))", "    return arcsin(slant_range_sez[1] / norm(slant_range_sez[:3]))")])
V("c04-range-full-vector", "C04", "violation", "C04.R10", edits=[(PM, "    return norm(slant_range_sez[:3])", "    return norm(slant_range_sez)")])
V("c04-range-rate-by-speed", "C04", "violation", "C04.R10", edits=[(PM, "    return vdot(slant_range_sez[:3], slant_range_sez[3:]) / getRange(slant_range_sez)", "    return vdot(slant_range_sez[:3], slant_range_sez[3:]) / norm(slant_range_sez[3:])")])
V("c04-c2s-phi-swapped", "C04", "violation", "C04.R10", edits=[(TM, "        phi = arctan2(r_j / temp1, r_i / temp1)", "        phi = arctan2(r_i / temp1, r_j / temp1)")])
V("c04-c2s-phi-mixed-scale", "C04", "violation", "C04.R10", edits=[(TM, "        phi = arctan2(r_j / temp1, r_i / temp1)", "        phi = arctan2(r_j / temp1, r_i / rng)")])
V("c04-c2s-phidot-sign", "C04", "violation", "C04.R10", edits=[(TM, "        phi_dot = (v_i * r_j - v_j * r_i) / (-(r_j**2) - r_i**2)", "        phi_dot = (v_i * r_j - v_j * r_i) / (r_j**2 + r_i**2)")])
V("c04-c2s-thetadot-term", "C04", "violation", "C04.R10", edits=[(TM, "        theta_dot = (v_k - rng_dot * temp3) / temp1", "        theta_dot = (v_k - rng_dot * temp3) / rng")])
V("c04-c2s-return-order", "C04", "violation", "C04.R10", edits=[(TM, "    return rng, theta, wrapAngle2Pi(phi), rng_dot, theta_dot, phi_dot", "    return rng, wrapAngle2Pi(phi), theta, rng_dot, phi_dot, theta_dot")])
V("c04-s2c-velocity-term-sign", "C04", "violation", "C04.R10", edits=[(TM, "            rho_dot * c_th * s_phi - rho * s_th * s_phi * theta_dot + rho * c_th * c_phi * phi_dot,", "            rho_dot * c_th * s_phi - rho * s_th * s_phi * theta_dot - rho * c_th * c_phi * phi_dot,")])
V("c04-s2c-z-from-cos", "C04", "violation", "C04.R10", edits=[(TM, "            rho * s_th,\n", "            rho * c_th,\n")])
V("c04-n-c2s-phi-unscaled", "C04", "pass", edits=[(TM, "        phi = arctan2(r_j / temp1, r_i / temp1)", "        phi = arctan2(r_j, r_i)")])
V("c04-n-c2s-phidot-tidy", "C04", "pass", edits=[(TM, "        phi_dot = (v_i * r_j - v_j * r_i) / (-(r_j**2) - r_i**2)", "        phi_dot = (r_i * v_j - r_j * v_i) / (r_i**2 + r_j**2)")])
V("c04-n-c2s-thetadot-regrouped", "C04", "pass", edits=[(TM, "        theta_dot = (v_k - rng_dot * temp3) / temp1", "        theta_dot = (v_k - r_k * rng_dot / rng) / temp1")])
V("c04-n-az-neg-literal", "C04", "pass", edits=[(PM, "        azimuth = arctan2(slant_range_sez[1], -1.0 * slant_range_sez[0])", "        azimuth = arctan2(slant_range_sez[1], -slant_range_sez[0])")])
V("c04-n-range-rate-norm", "C04", "pass", edits=[(PM, "    return vdot(slant_range_sez[:3], slant_range_sez[3:]) / getRange(slant_range_sez)", "    return vdot(slant_range_sez[:3], slant_range_sez[3:]) / norm(slant_range_sez[:3])")])
V("c04-n-s2c-factored", "C04", "pass", edits=[(TM, "            rho_dot * c_th * s_phi - rho * s_th * s_phi * theta_dot + rho * c_th * c_phi * phi_dot,", "            s_phi * (rho_dot * c_th - rho * s_th * theta_dot) + rho * c_th * c_phi * phi_dot,")])
V("c04-ntw-left-handed", "C04", "violation", "C04.R9", edits=[(TM, "n_hat: ndarray[float, float, float] = cross(t_hat, w_hat)", "n_hat: ndarray[float, float, float] = cross(w_hat, t_hat)")])
V("c04-ntw-t-from-position", "C04", "violation", "C04.R9", edits=[(TM, "t_hat: ndarray[float, float, float] = x_eci[3:] / norm(x_eci[3:])", "t_hat: ndarray[float, float, float] = x_eci[:3] / norm(x_eci[:3])")])
V("c04-ntw-not-transposed", "C04", "violation", "C04.R9", edits=[(TM, "ntw_2_eci_rotation = array([n_hat, t_hat, w_hat]).T", "ntw_2_eci_rotation = array([n_hat, t_hat, w_hat])")])
V("c04-ntw-rows-reordered", "C04", "violation", "C04.R9", edits=[(TM, "ntw_2_eci_rotation = array([n_hat, t_hat, w_hat]).T", "ntw_2_eci_rotation = array([t_hat, n_hat, w_hat]).T")])
V("c04-ntw-velocity-by-position-slot", "C04", "violation", "C04.R9", edits=[(TM, "matmul(ntw_2_eci_rotation, x_ntw[3:]),  # Convert velocity", "matmul(ntw_2_eci_rotation, x_ntw[:3]),  # Convert velocity")])
V("c04-rsw2eci-w-reversed", "C04", "violation", "C04.R9", edits=[(TM, "    w_hat: ndarray[float, float, float] = cross(x_eci[:3], x_eci[3:]) / norm(\n        cross(x_eci[:3], x_eci[3:]),\n    )\n    s_hat: ndarray[float, float, float] = cross(w_hat, r_hat)\n\n    rsw_2_eci_rotation", "    w_hat: ndarray[float, float, float] = cross(x_eci[3:], x_eci[:3]) / norm(\n        cross(x_eci[3:], x_eci[:3]),\n    )\n    s_hat: ndarray[float, float, float] = cross(w_hat, r_hat)\n\n    rsw_2_eci_rotation")])
V("c04-rsw2eci-s-along-velocity", "C04", "violation", "C04.R9", edits=[(TM, "    s_hat: ndarray[float, float, float] = cross(w_hat, r_hat)\n\n    rsw_2_eci_rotation", "    s_hat: ndarray[float, float, float] = x_eci[3:] / norm(x_eci[3:])\n\n    rsw_2_eci_rotation")])
V("c04-ntw-w-unnormalised-norm-of-other", "C04", "violation", "C04.R9", edits=[(TM, "    w_hat: ndarray[float, float, float] = cross(x_eci[:3], x_eci[3:]) / norm(\n        cross(x_eci[:3], x_eci[3:]),\n    )\n    n_hat", "    w_hat: ndarray[float, float, float] = cross(x_eci[:3], x_eci[3:]) / norm(\n        x_eci[:3],\n    )\n    n_hat")])
V("c04-n-ntw-named-h", "C04", "pass", edits=[(TM, "    t_hat: ndarray[float, float, float] = x_eci[3:] / norm(x_eci[3:])\n    w_hat: ndarray[float, float, float] = cross(x_eci[:3], x_eci[3:]) / norm(\n        cross(x_eci[:3], x_eci[3:]),\n    )\n    n_hat", "    t_hat: ndarray[float, float, float] = x_eci[3:] / norm(x_eci[3:])\n    ang_mom = cross(x_eci[:3], x_eci[3:])\n    w_hat: ndarray[float, float, float] = ang_mom / norm(ang_mom)\n    n_hat")])
V("c04-n-ntw-transpose-call", "C04", "pass", edits=[(TM, "ntw_2_eci_rotation = array([n_hat, t_hat, w_hat]).T", "ntw_2_eci_rotation = transpose(array([n_hat, t_hat, w_hat]))"), (TM, "from numpy import (\n", "from numpy import (\n    transpose,\n")])

# ------------------------------------------------------------------------------------ C06
UK = "estimation/kalman/unscented_kalman_filter.py"
V("c06-revert-F5-stale-xres", "C06", "violation", "C06.R1", revert="aa5567c")
V("c06-predict-substeps-swapped", "C06", "violation", "C06.R1", edits=[(UK, "        self.predictStateEstimate(final_time, scheduled_events=scheduled_events)\n\n        # STEP 2: Calculate the predicted covariance at t(k) (P(k + 1|k))\n        self.predictCovariance(final_time)\n", "        self.predictCovariance(final_time)\n\n        # STEP 2: Calculate the predicted covariance at t(k) (P(k + 1|k))\n        self.predictStateEstimate(final_time, scheduled_events=scheduled_events)\n")])
V("c06-resample-after-measurement-matrix", "C06", "violation", "C06.R1", edits=[(UK, "        # STEP 1: Calculate the Measurement Matrix (H)\n        self.calculateMeasurementMatrix(observations)\n", "        # STEP 1: Calculate the Measurement Matrix (H)\n        self.calculateMeasurementMatrix(observations)\n        if self._resample:\n            self.sigma_points = self.generateSigmaPoints(self.pred_x, self.pred_p)\n            self.sigma_x_res = self.sigma_points - self.sigma_points[:, :1]\n")])
V("c06-posterior-sign", "C06", "violation", "C06.R1", edits=[(UK, "self.est_p = self.pred_p - self.kalman_gain.dot(self.innov_cvr.dot(self.kalman_gain.T))", "self.est_p = self.pred_p + self.kalman_gain.dot(self.innov_cvr.dot(self.kalman_gain.T))")])
V("c06-innov-cvr-without-R", "C06", "violation", "C06.R1", edits=[(UK, "self.sigma_y_res.dot(self.cvr_weight.dot(self.sigma_y_res.T)) + self.r_matrix", "self.sigma_y_res.dot(self.cvr_weight.dot(self.sigma_y_res.T))")])
V("c06-noobs-uses-pred-x", "C06", "violation", "C06.R2", edits=[(UK, "            self.est_x = self.sigma_points[:, 0]\n", "            self.est_x = self.pred_x + self.kalman_gain.dot(self.innovation)\n")])
V("c06-noobs-covariance-est-p", "C06", "violation", "C06.R2", edits=[(UK, "            self.est_p = self.pred_p\n        else:", "            self.est_p = self.pred_p - self.kalman_gain.dot(self.innov_cvr.dot(self.kalman_gain.T))\n        else:")])
V("c06-rmatrix-sorted", "C06", "violation", "C06.R3", edits=[(UK, "block_diag(*[ob.r_matrix for ob in observations])", "block_diag(*[ob.r_matrix for ob in sorted(observations, key=lambda o: o.sensor_id)])")])
V("c06-update-minus-gain", "C06", "violation", "C06.R3", edits=[(UK, "self.est_x = self.pred_x + self.kalman_gain.dot(self.innovation)", "self.est_x = self.pred_x - self.kalman_gain.dot(self.innovation)")])
V("c06-weight-formula", "C06", "violation", "C06.R4", edits=[(UK, "weight = 1 / (2.0 * (lambda_kf + self.x_dim))", "weight = 1 / (2.0 * lambda_kf + self.x_dim)")])
V("c06-cvr-weight-correction", "C06", "violation", "C06.R4", edits=[(UK, "self.cvr_weight[0, 0] += 1 - alpha**2.0 + beta", "self.cvr_weight[0, 0] += 1 - alpha**2.0 - beta")])
V("c06-n-recompute-residuals-always", "C06", "pass", edits=[(UK, "        if self._resample:\n            self.sigma_points = self.generateSigmaPoints(self.pred_x, self.pred_p)\n            # The re-sampled points", "        if self._resample:\n            self.sigma_points = self.generateSigmaPoints(self.pred_x, self.pred_p)\n            # the re-sampled points"), (UK, "            self.sigma_x_res = self.sigma_points - self.sigma_points[:, :1]\n\n        # STEP 1", "        self.sigma_x_res = self.sigma_points - self.sigma_points[:, :1]\n\n        # STEP 1")])
V("c06-n-commuted-sum", "C06", "pass", edits=[(UK, "self.est_x = self.pred_x + self.kalman_gain.dot(self.innovation)", "self.est_x = self.kalman_gain.dot(self.innovation) + self.pred_x")])

# ------------------------------------------------------------------------------------ C14
FV = "sensors/field_of_view.py"
SB = "sensors/sensor_base.py"
SU = "physics/sensor_utils.py"
SUF = "physics/sensor_utils.py"
V("c14-galactic-cosine-form-polarity-flipped", "C14", "violation", "C14.R3", edits=[(SUF, "    return boresight_belt_angle >= cone_angle", "    return dot(GALACTIC_CENTER_ECI[:3], boresight_eci_vector) >= cos(cone_angle) * norm(GALACTIC_CENTER_ECI[:3]) * norm(boresight_eci_vector)")], note="the predicate rewritten on cosines WITHOUT flipping the comparison")
V("c14-space-lighting-cosine-form-half-cone", "C14", "violation", "C14.R3", edits=[(SUF, "    return boresight_sun_angle >= cone_angle", "    return dot(sun_eci_unit_vector, boresight_eci_vector) / norm(boresight_eci_vector) <= cos(cone_angle / 2)")], note="cosine form with another threshold")
V("c14-n-space-lighting-cosine-form", "C14", "pass", edits=[(SUF, "    return boresight_sun_angle >= cone_angle", "    return dot(sun_eci_unit_vector, boresight_eci_vector) / norm(boresight_eci_vector) <= cos(cone_angle)")])
V("c14-revert-F7-raw-azimuth", "C14", "violation", "C14.R1", revert="2994fe8")
V("c14-az-mask-and-for-or", "C14", "violation", "C14.R2", edits=[(SB, "            azimuth >= self.az_mask[0] or azimuth <= self.az_mask[1]\n", "            azimuth >= self.az_mask[0] and azimuth <= self.az_mask[1]\n")])
V("c14-az-mask-wrap-branch-dropped", "C14", "violation", "C14.R2", edits=[(SB, "        if self.az_mask[0] > self.az_mask[1] and (\n", "        if self.az_mask[0] > self.az_mask[1] and azimuth < 0 and (\n")])
V("c14-az-mask-strict", "C14", "violation", "C14.R2", edits=[(SB, "self.az_mask[0] <= azimuth <= self.az_mask[1]", "self.az_mask[0] < azimuth <= self.az_mask[1]")])
V("c14-el-mask-flipped", "C14", "violation", "C14.R2", edits=[(SB, "if elevation < self.el_mask[0] or elevation > self.el_mask[1]:", "if elevation < self.el_mask[0] and elevation > self.el_mask[1]:")])
V("c14-los-comparator", "C14", "violation", "C14.R3", edits=[(SU, "return (1 - tau) * r1sq + r1_dot_r2 * tau >= Earth.radius**2", "return (1 - tau) * r1sq + r1_dot_r2 * tau <= Earth.radius**2")])
V("c14-los-tau-asymmetric", "C14", "violation", "C14.R3", edits=[(SU, "tau = (r1sq - r1_dot_r2) / (r1sq + r2sq - 2 * r1_dot_r2)", "tau = (r1sq - r1_dot_r2) / (r1sq + r2sq - r1_dot_r2)")])
V("c14-limb-polarity", "C14", "violation", "C14.R3", edits=[(SU, "    return limb_elevation > target_elevation", "    return limb_elevation < target_elevation")])
V("c14-ground-lighting-buffer-sign", "C14", "violation", "C14.R3", edits=[(SU, "return satellite_sun_angle >= PI / 2 + buffer_angle", "return satellite_sun_angle >= PI / 2 - buffer_angle")])
V("c14-conic-full-angle", "C14", "violation", "C14.R4", edits=[(FV, "        return angle <= self.cone_angle / 2", "        return angle <= self.cone_angle")])
V("c14-rect-widths-swapped", "C14", "violation", "C14.R4", edits=[(FV, "azimuth_angle <= self.azimuth_angle / 2 and elevation_angle <= self.elevation_angle / 2", "azimuth_angle <= self.elevation_angle / 2 and elevation_angle <= self.azimuth_angle / 2")])
V("c14-n-az-mask-demorgan", "C14", "pass", edits=[(SB, "        if self.az_mask[0] > self.az_mask[1] and (\n            azimuth >= self.az_mask[0] or azimuth <= self.az_mask[1]\n        ):", "        if self.az_mask[0] > self.az_mask[1] and not (\n            azimuth < self.az_mask[0] and azimuth > self.az_mask[1]\n        ):")])
V("c14-n-az-branches-reordered", "C14", "pass", edits=[(SB, "        if self.az_mask[0] <= self.az_mask[1] and self.az_mask[0] <= azimuth <= self.az_mask[1]:\n            return True, Explanation.VISIBLE\n\n", ""), (SB, "        # Default: target satellite is not in view\n", "        if self.az_mask[0] <= self.az_mask[1] and self.az_mask[0] <= azimuth <= self.az_mask[1]:\n            return True, Explanation.VISIBLE\n\n        # Default: target satellite is not in view\n")])
V("c14-n-el-mask-positive-form", "C14", "pass", edits=[(SB, "if elevation < self.el_mask[0] or elevation > self.el_mask[1]:", "if not (self.el_mask[0] <= elevation <= self.el_mask[1]):")])

# ------------------------------------------------------------------------------------ C02
OP = "sensors/optical.py"
RA = "sensors/radar.py"
V("c02-revert-F10-background-not-slew-gated", "C02", "violation", "C02.R1", revert="a1166c1")
V("c02-los-check-deleted", "C02", "violation", "C02.R2", edits=[(SB, "        if not lineOfSight(tgt_eci_state[:3], self.host.eci_state[:3]):\n            return False, Explanation.LINE_OF_SIGHT\n", "")])
V("c02-max-range-comparator-flipped", "C02", "violation", None, edits=[(SB, "getRange(slant_range_sez) > self.maximum_range:", "getRange(slant_range_sez) < self.maximum_range:")])
V("c02-min-range-boundary-moved", "C02", "violation", "C02.R4", edits=[(SB, "getRange(slant_range_sez) < self.minimum_range:", "getRange(slant_range_sez) <= self.minimum_range:")])
V("c02-reasons-swapped", "C02", "violation", "C02.R3", edits=[(SB, "            return False, Explanation.MINIMUM_RANGE\n", "            return False, Explanation.MAXIMUM_RANGE\n"), (SB, "            return False, Explanation.MAXIMUM_RANGE\n\n        # Early exit if a Line", "            return False, Explanation.MINIMUM_RANGE\n\n        # Early exit if a Line")])
V("c02-limb-polarity-inverted", "C02", "violation", None, edits=[(OP, "            if target_is_obscured:\n", "            if not target_is_obscured:\n")])
V("c02-vismag-comparator", "C02", "violation", None, edits=[(OP, "if rso_apparent_vismag > self.detectable_vismag:", "if rso_apparent_vismag < self.detectable_vismag:")])
V("c02-radar-sensitivity-dropped", "C02", "violation", "C02.R2", edits=[(RA, "        if getRange(slant_range_sez) > self.maximumRangeTo(viz_cross_section):\n            return False, Explanation.RADAR_SENSITIVITY\n", "")])
V("c02-optical-ignores-base-check", "C02", "violation", "C02.R2", edits=[(OP, "        if not line_of_sight:\n            return False, explanation\n\n        if tgt_solar_flux <= 0:", "        if tgt_solar_flux <= 0:")])
V("c02-miss-appended-twice", "C02", "violation", "C02.R5", edits=[(SB, "            else:\n                missed_observation_list.append(observation)\n", "            else:\n                missed_observation_list.append(observation)\n            if observation.reason != Explanation.VISIBLE:\n                missed_observation_list.append(observation)\n")])
V("c02-fov-check-after-visibility-dropped", "C02", "violation", "C02.R1", edits=[(SB, "        if not self.field_of_view.inFieldOfView(pointing_sez, slant_range_sez):", "        if False and not self.field_of_view.inFieldOfView(pointing_sez, slant_range_sez):")])
V("c02-values-before-del", "C02", "violation", "C02.R6", edits=[(TE, "    primary_tgt_handle = submission.target_handles[estimate_agent.simulation_id]\n    del submission.target_handles[estimate_agent.simulation_id]\n\n    primary_tgt = ray.get(primary_tgt_handle)\n    background_targets = ray.get(list(submission.target_handles.values()))\n", "    primary_tgt_handle = submission.target_handles[estimate_agent.simulation_id]\n    background_targets = ray.get(list(submission.target_handles.values()))\n    del submission.target_handles[estimate_agent.simulation_id]\n\n    primary_tgt = ray.get(primary_tgt_handle)\n")])
V("c02-measure-unbiased-state", "C02", "violation", "C02.R7", edits=[(SB, "            tgt_eci_state=tgt_eci_state,\n            sensor_id=self.host.simulation_id,", "            tgt_eci_state=target_agent.eci_state,\n            sensor_id=self.host.simulation_id,")])
V("c02-prediction-noisy", "C02", "violation", "C02.R7", edits=[("tasking/predictions.py", "        noisy=False,  # Don't add noise for prospective observations", "        noisy=True,")])
V("c02-ground-platform-branch-swapped", "C02", "violation", None, edits=[(OP, "if self.host.agent_type == PlatformLabel.SPACECRAFT:", "if self.host.agent_type != PlatformLabel.SPACECRAFT:")])
V("c02-n-reorder-range-checks", "C02", "pass", edits=[(SB, "        # Early exit if target not in sensor's minimum range\n        if self.minimum_range is not None and getRange(slant_range_sez) < self.minimum_range:\n            return False, Explanation.MINIMUM_RANGE\n\n", ""), (SB, "        # Early exit if a Line of Sight doesn't exist\n", "        if self.minimum_range is not None and getRange(slant_range_sez) < self.minimum_range:\n            return False, Explanation.MINIMUM_RANGE\n\n        # Early exit if a Line of Sight doesn't exist\n")])
V("c02-n-swapped-sides", "C02", "pass", edits=[(SB, "getRange(slant_range_sez) > self.maximum_range:", "self.maximum_range < getRange(slant_range_sez):")])
V("c02-n-range-local", "C02", "pass", edits=[(SB, "        # Early exit if target not in sensor's minimum range\n        if self.minimum_range is not None and getRange(slant_range_sez) < self.minimum_range:", "        rng = getRange(slant_range_sez)\n        if self.minimum_range is not None and rng < self.minimum_range:")])

# ------------------------------------------------------------------------------------ C19
IM = "dynamics/importer.py"
ID = "data/importer_database.py"
V("c19-revert-F8-count-compare", "C19", "violation", "C19.R2", revert="347daba")
V("c19-revert-F12-missing-attribute", "C19", "violation", "C19.R4", revert="d098a73")
V("c19-guard-and-count", "C19", "violation", "C19.R2", edits=[(IM, "        if missing_ids := registerd_ids - retrieved_ids:", "        if (missing_ids := registerd_ids - retrieved_ids) and len(current_ephemerides) < len(self._registrants):")])
V("c19-guard-direction-reversed", "C19", "violation", "C19.R2", edits=[(IM, "        if missing_ids := registerd_ids - retrieved_ids:", "        if missing_ids := retrieved_ids - registerd_ids:")])
V("c19-override-deleted", "C19", "violation", "C19.R1", edits=[(ID, "    def bulkSave(self, data):\n        \"\"\"Override :class:`.DataInterface` implementation.\n\n        Raises:\n            NotImplementedError: this is a read-only database\n        \"\"\"\n        raise NotImplementedError(\"ImporterDatabase is read-only, so inserting data is prohibited\")\n\n", "")])
V("c19-run-path-calls-private-writer", "C19", "violation", "C19.R1", edits=[(IM, "        current_ephemerides = self._importer_db.getData(query)\n", "        current_ephemerides = self._importer_db.getData(query)\n        self._importer_db._insertData(*current_ephemerides)\n")])
V("c19-getdata-commits", "C19", "violation", "C19.R1", edits=[("data/data_interface.py", "                retval = query.with_session(cur_session).all()\n", "                retval = query.with_session(cur_session).all()\n                cur_session.commit()\n")])
V("c19-import-into-wrong-registrant", "C19", "violation", "C19.R3", edits=[(IM, "                self._registrants[ephem.agent_id].importState(ephem)", "                next(iter(self._registrants.values())).importState(ephem)")])
V("c19-registrant-not-removed", "C19", "violation", "C19.R3", edits=[(IM, "                del self._registrants[ephem.agent_id]\n", "")])
V("c19-importstate-keeps-time", "C19", "violation", "C19.R3", edits=[("agents/target_agent.py", "        self._time = JulianDate(ephemeris.julian_date).convertToScenarioTime(\n            self.julian_date_start,\n        )\n", "        self._time = self._time + self._dt_step\n")])
V("c19-imported-obs-not-saved", "C19", "violation", "C19.R4", edits=[(CE, "            self.saveObservations(self.loadImportedObservations(datetime_epoch))", "            self.loadImportedObservations(datetime_epoch)")])
V("c19-metadata-from-first-sensor", "C19", "violation", "C19.R4", edits=[(CE, "sensor_agent = ray.get(self._sensor_store[observation.sensor_id])", "sensor_agent = ray.get(self._sensor_store[self.sensor_list[0]])")])
V("c19-n-subset-test", "C19", "pass", edits=[(IM, "        if missing_ids := registerd_ids - retrieved_ids:", "        missing_ids = registerd_ids.difference(retrieved_ids)\n        if len(missing_ids) > 0:")])

# ------------------------------------------------------------------------------------ C09
EP = "data/ephemeris.py"
DI = "data/data_interface.py"
V("c09-revert-F11-epochs-never-inserted", "C09", "violation", "C09.R6", revert="24e157a")
V("c09-adhoc-epoch-key", "C09", "violation", "C09.R1", edits=[("agents/target_agent.py", "            julian_date=self.julian_date_epoch,\n            eci=self.eci_state.tolist(),", "            julian_date=datetimeToJulianDate(self.datetime_epoch),\n            eci=self.eci_state.tolist(),")])
V("c09-agent-epoch-different-expression", "C09", "violation", "C09.R1", edits=[(AB, "        return self._time.convertToJulianDate(self.julian_date_start)", "        return JulianDate(float(self.julian_date_start) + float(self._time) / 86400.0)")])
V("c09-observations-saved-separately", "C09", "violation", "C09.R2", edits=[(SC, "                output_data.extend(observations)\n", "                self.database.bulkSave(list(observations))\n")])
V("c09-engine-writes-db", "C09", "violation", "C09.R2", edits=[(EB, "        self._observations.extend(observations)\n        self._saved_observations.extend(observations)\n", "        self._observations.extend(observations)\n        self._database.bulkSave(list(observations))\n")])
V("c09-commit-in-finally", "C09", "violation", "C09.R3", edits=[(DI, "            yield current_session\n            current_session.commit()\n", "            yield current_session\n"), (DI, "        finally:\n            current_session.close()\n\n    def resetData", "        finally:\n            current_session.commit()\n            current_session.close()\n\n    def resetData")])
V("c09-exception-swallowed", "C09", "violation", "C09.R3", edits=[(DI, "            current_session.rollback()\n            raise\n", "            current_session.rollback()\n")])
V("c09-no-rollback", "C09", "violation", "C09.R3", edits=[(DI, "            current_session.rollback()\n            raise\n", "            raise\n")])
V("c09-estimates-collected-twice", "C09", "violation", "C09.R4", edits=[(SC, "            # Grab `DetectedManeuver`s from the estimate\n", "            output_data.extend(est.getCurrentEphemeris() for est in self.estimate_agents.values())\n            # Grab `DetectedManeuver`s from the estimate\n")])
V("c09-maneuvers-not-drained", "C09", "violation", "C09.R4", edits=[("agents/estimate_agent.py", "        detections = self._detected_maneuvers\n        self._detected_maneuvers = []\n", "        detections = self._detected_maneuvers\n")])
V("c09-removal-dependency-dropped", "C09", "violation", "C09.R5", edits=[("scenario/config/event_configs.py", "            DataDependency(\n                AgentModel,\n                Query(AgentModel).filter(AgentModel.unique_id == self.agent_id),\n            ),\n", "            DataDependency(\n                AgentModel,\n                Query(AgentModel).filter(AgentModel.name == str(self.agent_id)),\n            ),\n")])
V("c09-events-before-agents", "C09", "violation", "C09.R5", edits=[("scenario/scenario_builder.py", "        self._loadAgentsIntoDatabase(shared_database)\n        self._loadEventsIntoDatabase(shared_database)\n", "        self._loadEventsIntoDatabase(shared_database)\n        self._loadAgentsIntoDatabase(shared_database)\n")])
V("c09-pending-cleared-before-ensure", "C09", "violation", "C09.R6", edits=[(SC, "        for timestamp_iso, julian_date in self._pending_epochs.items():", "        self._pending_epochs = {}\n        for timestamp_iso, julian_date in self._pending_epochs.items():")])
V("c09-pending-recorded-conditionally", "C09", "violation", "C09.R6", edits=[(SC, "        self._pending_epochs[self.clock.datetime_epoch.isoformat(timespec=\"microseconds\")] = (\n            self.current_julian_date\n        )\n", "        if self.clock.time % self.output_time_step == 0:\n            self._pending_epochs[self.clock.datetime_epoch.isoformat(timespec=\"microseconds\")] = (\n                self.current_julian_date\n            )\n")])
V("c09-epoch-pair-mixed", "C09", "violation", "C09.R7", edits=[(SC, "                self.database.insertData(Epoch(julian_date=julian_date, timestampISO=timestamp_iso))", "                self.database.insertData(Epoch(julian_date=self.clock.julian_date_epoch, timestampISO=timestamp_iso))")])
V("c09-covariance-transposed-write", "C09", "violation", "C09.R8", edits=[(EP, '        kwargs["covar_01"] = kwargs["covariance"][0][1]\n', '        kwargs["covar_01"] = kwargs["covariance"][1][0]\n')])
V("c09-covariance-read-misplaced", "C09", "violation", "C09.R8", edits=[(EP, "                self.covar_21,\n                self.covar_22,", "                self.covar_12,\n                self.covar_22,")])
V("c09-state-slot-swapped", "C09", "violation", "C09.R8", edits=[(EP, '        kwargs["pos_y_km"] = kwargs["eci"][1]\n        kwargs["pos_z_km"] = kwargs["eci"][2]\n        kwargs["vel_x_km_p_sec"] = kwargs["eci"][3]\n        kwargs["vel_y_km_p_sec"] = kwargs["eci"][4]\n        kwargs["vel_z_km_p_sec"] = kwargs["eci"][5]\n\n        # Remove state vector from kwargs\n        del kwargs["eci"]\n\n        return cls(**kwargs)\n\n\nclass EstimateEphemeris', '        kwargs["pos_y_km"] = kwargs["eci"][2]\n        kwargs["pos_z_km"] = kwargs["eci"][1]\n        kwargs["vel_x_km_p_sec"] = kwargs["eci"][3]\n        kwargs["vel_y_km_p_sec"] = kwargs["eci"][4]\n        kwargs["vel_z_km_p_sec"] = kwargs["eci"][5]\n\n        # Remove state vector from kwargs\n        del kwargs["eci"]\n\n        return cls(**kwargs)\n\n\nclass EstimateEphemeris')])
V("c09-n-ensure-epoch-every-step", "C09", "pass", edits=[(SC, "        self._pending_epochs[self.clock.datetime_epoch.isoformat(timespec=\"microseconds\")] = (\n            self.current_julian_date\n        )\n\n        # Propagate truth model", "        if not self.database.getData(Query(Epoch).filter(Epoch.timestampISO == self.clock.datetime_epoch.isoformat(timespec=\"microseconds\")), multi=False):\n            self.database.insertData(Epoch(julian_date=self.clock.julian_date_epoch, timestampISO=self.clock.datetime_epoch.isoformat(timespec=\"microseconds\")))\n\n        # Propagate truth model")])

# ------------------------------------------------------------------------------------ C07
DB = "tasking/decisions/decision_base.py"
DD = "tasking/decisions/decisions.py"
RW = "tasking/rewards/rewards.py"
V("c07-mask-removed", "C07", "violation", "C07.R1", edits=[(DB, "        return decision_matrix & visibility_matrix", "        return decision_matrix")])
V("c07-policy-overrides-calculate", "C07", "violation", "C07.R1", edits=[(DD, "class AllVisibleDecision(Decision):\n    \"\"\"Optimizes for each sensor independently and tasks all AllVisibleDecision options.\"\"\"\n", "class AllVisibleDecision(Decision):\n    \"\"\"Optimizes for each sensor independently and tasks all AllVisibleDecision options.\"\"\"\n\n    def calculate(self, reward_matrix, visibility_matrix):\n        \"\"\"Shortcut.\"\"\"\n        return reward_matrix > 0.0\n")])
V("c07-engine-calls-_calculate", "C07", "violation", "C07.R1", edits=[(CE, "self.decision_matrix = self.decision.calculate(self.reward_matrix, self.visibility_matrix)", "self.decision_matrix = self.decision._calculate(self.reward_matrix, self.visibility_matrix)")])
V("c07-decision-mutated-after", "C07", "violation", "C07.R1", edits=[(CE, "            self.generateTasking()\n", "            self.generateTasking()\n            self.decision_matrix[0, :] = True\n")])
V("c07-visibility-marked-always", "C07", "violation", "C07.R1", edits=[("parallel/tasking_reward_generation.py", "            visibility[sensor_index] = True\n", ""), ("parallel/tasking_reward_generation.py", "        # Attempt predicted observations, in order to perform sensor tasking\n", "        visibility[sensor_index] = True\n        # Attempt predicted observations, in order to perform sensor tasking\n")])
V("c07-args-swapped-in-engine", "C07", "violation", "C07.R1", edits=[(CE, "self.decision.calculate(self.reward_matrix, self.visibility_matrix)", "self.decision.calculate(self.visibility_matrix, self.reward_matrix)")])
V("c07-label-without-class", "C07", "violation", "C07.R3", edits=[("tasking/decisions/__init__.py", "    DecisionLabel.ALL_VISIBLE: AllVisibleDecision,\n", "")])
V("c07-two-labels-one-class", "C07", "violation", "C07.R3", edits=[("tasking/decisions/__init__.py", "    DecisionLabel.RANDOM: RandomDecision,\n", "    DecisionLabel.RANDOM: MyopicNaiveGreedyDecision,\n")])
V("c07-greedy-argmin", "C07", "violation", "C07.R4", edits=[(DD, "            tgt_ind = argmax(reward_matrix[:, sen_ind])", "            tgt_ind = argmax(-reward_matrix[:, sen_ind])")])
V("c07-greedy-row-col-swapped", "C07", "violation", "C07.R4", edits=[(DD, "            tgt_ind = argmax(reward_matrix[:, sen_ind])\n            decision_matrix[tgt_ind, sen_ind] = True", "            tgt_ind = argmax(reward_matrix[:, sen_ind])\n            decision_matrix[sen_ind, tgt_ind] = True")])
V("c07-munkres-minimised", "C07", "violation", "C07.R4", edits=[(DD, "linear_sum_assignment(reward_matrix, maximize=True)", "linear_sum_assignment(reward_matrix)")])
V("c07-random-among-all", "C07", "violation", "C07.R4", edits=[(DD, "self._seed.choice(visibility_matrix[:, sen_ind].nonzero()[0], 1)", "self._seed.choice(visibility_matrix.shape[0], 1)")])
V("c07-reward-sign", "C07", "violation", "C07.R5", edits=[(RW, "        return self._delta * (sign(stability) + information) - (1 - self._delta) * sensor\n", "        return self._delta * (sign(stability) + information) + (1 - self._delta) * sensor\n")])
V("c07-normalise-by-global-max", "C07", "violation", "C07.R5", edits=[("tasking/rewards/reward_base.py", "                metric_matrix[..., met] /= metric_matrix[..., met].max()", "                metric_matrix[..., met] /= metric_matrix.max()")])
V("c07-n-mask-inside-too", "C07", "pass", edits=[(DD, "        return where(visibility_matrix > 0.0, True, False)", "        return where(visibility_matrix > 0.0, True, False) & visibility_matrix")])
V("c07-n-and-sides-swapped", "C07", "pass", edits=[(DB, "        return decision_matrix & visibility_matrix", "        return visibility_matrix & decision_matrix")])

# ------------------------------------------------------------------------------------ C10
EA = "agents/estimate_agent.py"
AP = "parallel/agent_propagation.py"
SBD = "scenario/scenario_builder.py"
V("c10-sensor-rewinds-target", "C10", "violation", "C10.R1", edits=[(SB, "            tgt_eci_state = self._applyTimeBias(target_agent)\n", "            tgt_eci_state = self._applyTimeBias(target_agent)\n            target_agent.eci_state = tgt_eci_state\n")])
V("c10-scenario-resets-agent-time", "C10", "violation", "C10.R1", edits=[(SC, "            for target_id, target in self.target_agents.items():\n                self._target_store[target_id] = ray.put(target)\n", "            for target_id, target in self.target_agents.items():\n                target.time = self.clock.time\n                self._target_store[target_id] = ray.put(target)\n")])
V("c10-update-info-moves-sensor", "C10", "violation", "C10.R1", edits=[(SA, "        self.sensors.time_last_tasked = sensor_change[\"time_last_tasked\"]\n", "        self.sensors.time_last_tasked = sensor_change[\"time_last_tasked\"]\n        self._time = sensor_change[\"time_last_tasked\"]\n")])
V("c10-shared-dynamics", "C10", "violation", "C10.R4", edits=[(SC, "            dynamics=filter_dynamics,\n            time_cfg=self.scenario_config.time,", "            dynamics=target_dynamics,\n            time_cfg=self.scenario_config.time,")])
V("c10-estimate-config-model-copy", "C10", "neutral", edits=[(SC, "        est_prop_cfg = deepcopy(self.scenario_config.propagation)\n", "        est_prop_cfg = self.scenario_config.propagation.model_copy()\n")], note="a shallow pydantic copy isolates a top-level field rebind")
V("c10-estimate-config-model-validate-alias", "C10", "violation", "C10.R5", edits=[(SC, "        est_prop_cfg = deepcopy(self.scenario_config.propagation)\n", "        est_prop_cfg = type(self.scenario_config.propagation).model_validate(self.scenario_config.propagation)\n")], note="pydantic model_validate returns the same instance")
V("c10-estimate-config-not-copied", "C10", "violation", "C10.R5", edits=[(SC, "        est_prop_cfg = deepcopy(self.scenario_config.propagation)\n", "        est_prop_cfg = self.scenario_config.propagation\n")])
V("c10-truth-dynamics-from-estimation-model", "C10", "violation", "C10.R5", edits=[(SBD, "            dynamics = dynamicsFactory(\n                target_cfg,\n                self.config.propagation,", "            dynamics = dynamicsFactory(\n                target_cfg,\n                self.config.estimation.sequential_filter,")])
V("c10-join-after-predict", "C10", "violation", "C10.R6", edits=[(SC, "        self._agent_propagator.join()\n\n        if not self.scenario_config.propagation.truth_simulation_only:\n            self.logger.debug(\"Predict estimates...\")", "        if not self.scenario_config.propagation.truth_simulation_only:\n            self.logger.debug(\"Predict estimates...\")"), (SC, "        # Flush events from event stack\n", "        self._agent_propagator.join()\n        # Flush events from event stack\n")])
V("c10-propagate-only-when-tasking", "C10", "violation", "C10.R6", edits=[(SC, "            if target_agent.realtime:\n                self._agent_propagator.enqueueJob(PropagateRegistration(target_agent))", "            if target_agent.realtime and self._tasking_engines:\n                self._agent_propagator.enqueueJob(PropagateRegistration(target_agent))")])
V("c10-submission-from-other-state", "C10", "violation", "C10.R3", edits=[(AP, "            init_eci=self._registrant.eci_state,", "            init_eci=self._registrant.previous_state,")])
V("c10-result-slots", "C10", "violation", "C10.R3", edits=[(AP, "        self._registrant.eci_state = results.final_eci", "        self._registrant.eci_state = results.prev_state")])
V("c10-propagate-to-keeps-state", "C10", "violation", "C10.R7", edits=[(SC, "            for _ in range(int(steps)):\n                self.stepForward()\n", "            for _ in range(int(steps)):\n                self._steps_taken = getattr(self, \"_steps_taken\", 0) + 1\n                self.stepForward()\n")])
V("c10-output-resets-previous-state", "C10", "violation", "C10.R1", edits=[("agents/target_agent.py", "        return TruthEphemeris.fromECIVector(\n            agent_id=self.simulation_id,", "        self._previous_state = self._truth_state\n        return TruthEphemeris.fromECIVector(\n            agent_id=self.simulation_id,")])
V("c10-n-rename-dynamics-local", "C10", "pass", edits=[(SC, "        target_dynamics = dynamicsFactory(", "        truth_dynamics = dynamicsFactory("), (SC, "            dynamics=target_dynamics,\n", "            dynamics=truth_dynamics,\n")])

# ------------------------------------------------------------------------------------ C16
ME = "physics/measurements.py"
GP = "estimation/particle/genetic_particle_filter.py"
V("c16-innovation-raw-difference", "C16", "violation", "C16.R1", edits=[(UK, "self.innovation = residuals(self.true_y, self.mean_pred_y, self.is_angular)", "self.innovation = self.true_y - self.mean_pred_y")])
V("c16-sigma-residual-raw", "C16", "violation", "C16.R1", edits=[(UK, "            self.sigma_y_res[:, item] = residuals(\n                sigma_obs[:, item],\n                self.mean_pred_y,\n                self.is_angular,\n            )", "            self.sigma_y_res[:, item] = sigma_obs[:, item] - self.mean_pred_y")])
V("c16-angular-rows-linear-mean", "C16", "violation", "C16.R1", edits=[(UK, "                mean = angularMean(meas, weights=self.mean_weight, low=low, high=high)", "                mean = meas.dot(self.mean_weight)")])
V("c16-particle-raw-difference", "C16", "violation", "C16.R1", edits=[(GP, "        self.particle_residuals = vecResiduals(\n            population_obs,\n            true_y[..., np.newaxis],\n            self.is_angular[..., np.newaxis],\n        )", "        self.particle_residuals = population_obs - true_y[..., np.newaxis]")])
V("c16-wrap-closed-end-moved", "C16", "violation", "C16.R2", edits=[(MA, "    if fabs(angle) > const.PI:", "    if fabs(angle) >= const.PI:")])
V("c16-wrap-modulo-dropped", "C16", "violation", "C16.R2", edits=[(MA, "    angle = remainder(angle, const.TWOPI)\n", "")])
V("c16-residual-last-op-partial", "C16", "violation", "C16.R2", edits=[(MA, "    return wrapAngleNegPiPi(wrapAngle2Pi(val1) - wrapAngle2Pi(val2)) if angular else val1 - val2", "    return (wrapAngle2Pi(val1) - wrapAngle2Pi(val2)) if angular else val1 - val2")])
V("c16-residual-operands-swapped", "C16", "violation", "C16.R2", edits=[(MA, "    return wrapAngleNegPiPi(wrapAngle2Pi(val1) - wrapAngle2Pi(val2)) if angular else val1 - val2", "    return wrapAngleNegPiPi(wrapAngle2Pi(val2) - wrapAngle2Pi(val1)) if angular else val1 - val2")])
V("c16-vecwrap-partial", "C16", "violation", "C16.R2", edits=[(MA, "    return (angles + const.PI) % const.TWOPI - const.PI", "    return np.where(angles > const.PI, angles - const.TWOPI, angles)")])
V("c16-angular-mean-different-weights", "C16", "violation", "C16.R2", edits=[(MA, "        cos_mean = cos_angles.dot(weights)", "        cos_mean = cos_angles.sum()")])
V("c16-angular-mean-arctan-args", "C16", "violation", "C16.R2", edits=[(MA, "wrapAngle2Pi(arctan2(sin_mean, cos_mean))", "wrapAngle2Pi(arctan2(cos_mean, sin_mean))")])
V("c16-elevation-kind-wrong", "C16", "violation", "C16.R3", edits=[(ME, "        r\"\"\":class:`.IsAngle`: This angular value is valid: :math:`\\beta \\in [0, 2\\pi]`.\"\"\"\n        return IsAngle.ANGLE_NEG_PI_PI", "        r\"\"\":class:`.IsAngle`: This angular value is valid: :math:`\\beta \\in [0, 2\\pi]`.\"\"\"\n        return IsAngle.NOT_ANGLE")])
V("c16-flags-sorted", "C16", "violation", "C16.R3", edits=[(ME, "        self._angular_values = [meas.is_angular for meas in self._measurements]", "        self._angular_values = sorted(meas.is_angular for meas in self._measurements)")])
V("c16-true-y-reversed", "C16", "violation", "C16.R4", edits=[(UK, "concatenate([ob.measurement_states for ob in observations], axis=0)", "concatenate([ob.measurement_states for ob in reversed(observations)], axis=0)")])
V("c16-n-use-vector-residual", "C16", "pass", edits=[(UK, "self.innovation = residuals(self.true_y, self.mean_pred_y, self.is_angular)", "self.innovation = vecResiduals(self.true_y, self.mean_pred_y, self.is_angular)")])

# ------------------------------------------------------------------------------------ C17
MDF = "estimation/maneuver_detection.py"
STF = "physics/statistics.py"
SF = "estimation/sequential_filter.py"
V("c17-not-dropped", "C17", "violation", "C17.R1", edits=[(MDF, "        dof = sum(self.dim_list)\n        self.metric = sum(self.nis_list)\n        return not test(self.metric, self.threshold, dof)", "        dof = sum(self.dim_list)\n        self.metric = sum(self.nis_list)\n        return test(self.metric, self.threshold, dof)")])
V("c17-tests-other-value", "C17", "violation", "C17.R1", edits=[(MDF, "        self.metric = self.prior_nis * (1 + self.delta)\n        return not test(self.metric, self.threshold, dof)", "        self.metric = self.prior_nis * (1 + self.delta)\n        return not test(self.prior_nis, self.threshold, dof)")])
V("c17-dim-append-dropped", "C17", "violation", "C17.R2", edits=[(MDF, "        self.dim_list.append(residual.shape[0])\n", "")])
V("c17-window-unbounded", "C17", "violation", "C17.R2", edits=[(MDF, "        self.dim_list = deque(maxlen=window_size)", "        self.dim_list = deque()")])
V("c17-fading-scale", "C17", "violation", "C17.R2", edits=[(MDF, "        self.metric = self.prior_nis * (1 + self.delta)", "        self.metric = self.prior_nis * (1 - self.delta)")])
V("c17-fading-recursion", "C17", "violation", "C17.R2", edits=[(MDF, "self.prior_nis = self.delta * self.prior_nis + chiSquareQuadraticForm(residual, innov_cvr)", "self.prior_nis = self.delta * (self.prior_nis + chiSquareQuadraticForm(residual, innov_cvr))")])
V("c17-sliding-dof-current-only", "C17", "violation", "C17.R2", edits=[(MDF, "        dof = sum(self.dim_list)", "        dof = residual.shape[0]")])
V("c17-test-inclusive", "C17", "violation", "C17.R3", edits=[(STF, "    upper_bound = chi2.isf(alpha, dof * runs) / runs\n    return metric < upper_bound", "    upper_bound = chi2.isf(alpha, dof * runs) / runs\n    return metric <= upper_bound")])
V("c17-lower-tail", "C17", "violation", "C17.R3", edits=[(STF, "    upper_bound = chi2.isf(alpha, dof * runs) / runs\n    return metric < upper_bound", "    upper_bound = chi2.ppf(alpha, dof * runs) / runs\n    return metric < upper_bound")])
V("c17-flag-unconditional", "C17", "violation", "C17.R4", edits=[(SF, "        if not self.maneuver_detected:\n            return\n\n        self.flags |= FilterFlag.MANEUVER_DETECTION", "        self.flags |= FilterFlag.MANEUVER_DETECTION\n        if not self.maneuver_detected:\n            return\n")])
V("c17-detector-gets-cross-cvr", "C17", "violation", "C17.R4", edits=[(SF, "self.maneuver_detection(self.innovation, self.innov_cvr)", "self.maneuver_detection(self.innovation, self.cross_cvr)")])
V("c17-n-swapped-sides", "C17", "pass", edits=[(STF, "    return metric < upper_bound", "    return upper_bound > metric")])

# ------------------------------------------------------------------------------------ C18
ADF = "estimation/adaptive/adaptive_filter.py"
SMF = "estimation/adaptive/smm.py"
GPF1 = "estimation/adaptive/gpb1.py"
V("c18-prune-normalisation-removed", "C18", "violation", "C18.R1", edits=[(ADF, "        self.model_weights = self.model_weights / np_sum(self.model_weights)\n        self._compileUpdateStep(observations)", "        self._compileUpdateStep(observations)")])
V("c18-smm-normalisation-after-mixture", "C18", "violation", "C18.R2", edits=[(SMF, "            # Nastasi, K.N. Dissertation: Section 4.5 Algorithm 4.3 eq 4.11 pg 64\n            self.model_weights = self.model_weights / np_sum(self.model_weights)\n\n        # Compile model data into \"stacked\" estimate & covariances\n        self._compileUpdateStep(observations)\n", "\n        # Compile model data into \"stacked\" estimate & covariances\n        self._compileUpdateStep(observations)\n        if observations:\n            self.model_weights = self.model_weights / np_sum(self.model_weights)\n")])
V("c18-smm-normalise-by-max", "C18", "violation", "C18.R1", edits=[(SMF, "            # Nastasi, K.N. Dissertation: Section 4.5 Algorithm 4.3 eq 4.11 pg 64\n            self.model_weights = self.model_weights / np_sum(self.model_weights)", "            # Nastasi, K.N. Dissertation: Section 4.5 Algorithm 4.3 eq 4.11 pg 64\n            self.model_weights = self.model_weights / self.model_weights.max()")])
V("c18-zero-mass-reset-removed", "C18", "violation", "C18.R1", edits=[(SMF, "            if fpe_equals(0.0, np_sum(self.model_weights)):\n                self.model_weights = ones_like(self.model_weights)\n", "")])
V("c18-gpb1-wrong-normaliser", "C18", "violation", "C18.R1", edits=[(GPF1, "            self.model_weights = (self.model_likelihoods * self.mode_probabilities) / c", "            self.model_weights = (self.model_likelihoods * self.mode_probabilities) / np_sum(self.model_likelihoods)")])
V("c18-last-model-guard-removed", "C18", "violation", "C18.R3", edits=[(ADF, "            if len(self.models) != 1:\n                self.models.pop(index)", "            if len(self.models) != 0:\n                self.models.pop(index)")])
V("c18-likelihoods-not-shrunk", "C18", "violation", "C18.R3", edits=[(ADF, "                self.model_likelihoods = delete(self.model_likelihoods, index)\n", "")])
V("c18-forward-removal", "C18", "violation", "C18.R3", edits=[(ADF, "        for index in reversed(prune_index):", "        for index in prune_index:")])
V("c18-covariance-about-stale-mean", "C18", "violation", "C18.R4", edits=[(ADF, "        self.pred_x, self.est_x = self.stacking_method(self.models, self.model_weights)\n\n        self.pred_p = zeros((self.x_dim, self.x_dim))\n        self.est_p = zeros((self.x_dim, self.x_dim))\n        for model, weight in zip(self.models, self.model_weights):\n            x_diff_pred = model.pred_x - self.pred_x\n            x_diff_est = model.est_x - self.est_x\n            self.pred_p += weight * (model.pred_p + outer(x_diff_pred, x_diff_pred))\n            self.est_p += weight * (model.est_p + outer(x_diff_est, x_diff_est))\n", "        self.pred_p = zeros((self.x_dim, self.x_dim))\n        self.est_p = zeros((self.x_dim, self.x_dim))\n        for model, weight in zip(self.models, self.model_weights):\n            x_diff_pred = model.pred_x - self.pred_x\n            x_diff_est = model.est_x - self.est_x\n            self.pred_p += weight * (model.pred_p + outer(x_diff_pred, x_diff_pred))\n            self.est_p += weight * (model.est_p + outer(x_diff_est, x_diff_est))\n        self.pred_x, self.est_x = self.stacking_method(self.models, self.model_weights)\n")])
V("c18-spread-term-dropped", "C18", "violation", "C18.R4", edits=[(ADF, "            self.pred_p += weight * (model.pred_p + outer(x_diff_pred, x_diff_pred))\n            self.est_p += weight * (model.est_p + outer(x_diff_est, x_diff_est))\n\n        if observations:\n            self.true_y", "            self.pred_p += weight * (model.pred_p + outer(x_diff_pred, x_diff_pred))\n            self.est_p += weight * model.est_p\n\n        if observations:\n            self.true_y")])
V("c18-likelihood-sign", "C18", "violation", "C18.R4", edits=[(GPF1, "self.model_likelihoods[num] = exp(-0.5 * model.nis) / sqrt(", "self.model_likelihoods[num] = exp(0.5 * model.nis) / sqrt(")])
V("c18-converged-filter-from-prediction", "C18", "violation", "C18.R4", edits=[(ADF, "            est_x=self.est_x,\n            est_p=self.est_p,\n            dynamics=self.dynamics,", "            est_x=self.pred_x,\n            est_p=self.est_p,\n            dynamics=self.dynamics,")])
V("c18-resume-before-prune", "C18", "violation", "C18.R5", edits=[(SMF, "                self.prune(incorrect_indices, observations)\n                self._resumeSequentialFiltering()\n", "                self._resumeSequentialFiltering()\n                self.prune(incorrect_indices, observations)\n")])
V("c18-resume-with-two-models", "C18", "violation", "C18.R5", edits=[(SMF, "        if len(self.models) == 1:\n            # All, but a single model were pruned", "        if len(self.models) <= 2:\n            # All, but a single model were pruned")])
V("c18-closing-prunes-below-threshold-only", "C18", "violation", "C18.R5", edits=[(SMF, "incorrect_indices = argwhere(self.model_weights < self.prune_percentage).flatten()", "incorrect_indices = argwhere(self.model_weights < self.prune_threshold).flatten()")])
V("c18-gpb1-resume-before-compile", "C18", "violation", "C18.R5", edits=[(GPF1, "        self._compileUpdateStep(observations)\n        # No need to recheck maneuver detection if no obs\n        if not observations:", "        if observations and oneSidedChiSquareTest(self.nis, 1 - self.prune_percentage, self.true_y.shape[0]):\n            self._resumeSequentialFiltering()\n        self._compileUpdateStep(observations)\n        # No need to recheck maneuver detection if no obs\n        if not observations:")])
V("c18-n-log-after-resume", "C18", "pass", edits=[(SMF, "                self._resumeSequentialFiltering()\n                msg = f\"SMM converged for {self.target_id} at {self.time}\"\n                self.logger.info(msg)\n", "                msg = f\"SMM converged for {self.target_id} at {self.time}\"\n                self.logger.info(msg)\n                self._resumeSequentialFiltering()\n")])
V("c18-n-normalise-twice", "C18", "pass", edits=[(ADF, "        self.model_weights = self.model_weights / np_sum(self.model_weights)\n        self._compileUpdateStep(observations)", "        self.model_weights = self.model_weights / np_sum(self.model_weights)\n        self.model_weights = self.model_weights / np_sum(self.model_weights)\n        self._compileUpdateStep(observations)")])
V("c18-n-inplace-division", "C18", "pass", edits=[(ADF, "        self.model_weights = self.model_weights / np_sum(self.model_weights)\n        self._compileUpdateStep(observations)", "        self.model_weights /= np_sum(self.model_weights)\n        self._compileUpdateStep(observations)")])

# ------------------------------------------------------------------------------------ C15
FTF = "dynamics/integration_events/finite_thrust.py"
FB = "data/events/finite_burn.py"
V("c15-burn-end-rounded", "C15", "violation", "C15.R7", edits=[(FB, "        end_sim_time = end_jd.convertToScenarioTime(scope_instance.julian_date_start)", "        end_sim_time = round(end_jd.convertToScenarioTime(scope_instance.julian_date_start))")])
V("c15-burn-slots-swapped", "C15", "violation", "C15.R7", edits=[(FB, "            start_sim_time,\n            end_sim_time,\n            thrust_func,", "            end_sim_time,\n            start_sim_time,\n            thrust_func,")])
V("c15-burn-against-clock-zero", "C15", "violation", "C15.R7", edits=[(FB, "        start_sim_time = start_jd.convertToScenarioTime(scope_instance.julian_date_start)", "        start_sim_time = start_jd.convertToScenarioTime(scope_instance.julian_date_epoch)")])
V("c15-n-burn-times-inline", "C15", "pass", edits=[(FB, "        start_jd = JulianDate(self.start_time_jd)\n        end_jd = JulianDate(self.end_time_jd)\n        start_sim_time = start_jd.convertToScenarioTime(scope_instance.julian_date_start)\n        end_sim_time = end_jd.convertToScenarioTime(scope_instance.julian_date_start)", "        start_sim_time = JulianDate(self.start_time_jd).convertToScenarioTime(scope_instance.julian_date_start)\n        end_sim_time = JulianDate(self.end_time_jd).convertToScenarioTime(scope_instance.julian_date_start)")])
V("c01-impulse-time-truncated", "C01", "violation", "C01.R11", edits=[("data/events/scheduled_impulse.py", "        start_sim_time = start_jd.convertToScenarioTime(scope_instance.julian_date_start)", "        start_sim_time = int(start_jd.convertToScenarioTime(scope_instance.julian_date_start))")])
V("c15-spiral-on-radial-axis", "C15", "violation", "C15.R5", edits=[(FTF, "    delta_a = array([0, magnitude, 0])\n", "    delta_a = array([magnitude, 0, 0])\n")])
V("c15-plane-change-hemisphere-flipped", "C15", "violation", "C15.R5", edits=[(FTF, "if state[2] >= 0 else array([0, 0, -magnitude])", "if state[2] < 0 else array([0, 0, -magnitude])")])
V("c15-plane-change-no-sign", "C15", "violation", "C15.R5", edits=[(FTF, "    delta_a = array([0, 0, magnitude]) if state[2] >= 0 else array([0, 0, -magnitude])\n", "")])
V("c15-ntw-burn-in-velocity-slots", "C15", "violation", "C15.R5", edits=[(FTF, "    full_a_vec = concatenate((acc_vector, zeros(3)))", "    full_a_vec = concatenate((zeros(3), acc_vector))")])
V("c15-eci-burn-negated", "C15", "violation", "C15.R5", edits=[(FTF, "    return concatenate((acc_vector, zeros(3)))", "    return concatenate((-acc_vector, zeros(3)))")])
V("c15-ntw-triad-left-handed", "C15", "violation", "C15.R6", edits=[("physics/transforms/methods.py", "n_hat: ndarray[float, float, float] = cross(t_hat, w_hat)", "n_hat: ndarray[float, float, float] = cross(w_hat, t_hat)")])
V("c15-n-ntw-burn-inline", "C15", "pass", edits=[(FTF, "    full_a_vec = concatenate((acc_vector, zeros(3)))\n    return ntw2eci(state, full_a_vec)", "    return ntw2eci(state, concatenate((acc_vector, zeros(3))))")])
V("c15-n-plane-change-if-statement", "C15", "pass", edits=[(FTF, "    delta_a = array([0, 0, magnitude]) if state[2] >= 0 else array([0, 0, -magnitude])\n", "    if state[2] >= 0:\n        delta_a = array([0, 0, magnitude])\n    else:\n        delta_a = array([0, 0, -magnitude])\n")])
CLF = "dynamics/celestial.py"
V("c15-revert-F13-twobody-thrust", "C15", "violation", "C15.R3", revert="43d5466")
V("c15-revert-F15-restart-increment", "C15", "violation", "C15.R4", edits=[(CLF, "            initial_time = solution.t[-1] + _restartIncrement(solution.t[-1])", "            initial_time = solution.t[-1] + spacing(solution.t[-1])"), (CLF, "            current_time += _restartIncrement(current_time)", "            current_time += spacing(current_time)")])  # the reversed fix 40f63cb as edits (the reverse patch no longer applies after a8f827e)
V("c15-n-restart-constant-increment", "C15", "pass", edits=[(CLF, "    return max(spacing(time), 2 * finfo(float).resolution)", "    return max(spacing(time), 1e-14)")])
V("c15-restart-half-tolerance", "C15", "violation", "C15.R4", edits=[(CLF, "    return max(spacing(time), 2 * finfo(float).resolution)", "    return max(spacing(time), 0.5 * finfo(float).resolution)")])
V("c15-rearm-inclusive-end", "C15", "violation", "C15.R2", edits=[(CLF, "and event.start_time < initial_time < event.end_time", "and event.start_time < initial_time <= event.end_time")])
V("c15-rearm-any-event", "C15", "violation", "C15.R2", edits=[(CLF, "                    isinstance(event, ScheduledFiniteThrust)\n                    and event.start_time", "                    True\n                    and event.start_time")])
V("c15-thrust-not-cleared", "C15", "violation", "C15.R2", edits=[(CLF, "        events = []\n        self.finite_thrust = None\n", "        events = []\n")])
V("c15-callback-never-ends", "C15", "violation", "C15.R2", edits=[(FTF, "        if fpe_equals(self.end_time - time, 0.0):\n            EventStack.pushEvent(EventRecord(f\"Finite thrust ended at {time}\", self.agent_id))\n            return None\n", "        if fpe_equals(self.end_time - time, 0.0):\n            EventStack.pushEvent(EventRecord(f\"Finite thrust ended at {time}\", self.agent_id))\n            return self.thrust_func\n")])
V("c15-prune-keeps-ended-burn", "C15", "violation", "C15.R2", edits=[(AB, "                if not self._time < itr_event.end_time or fpe_equals(", "                if not self._time <= itr_event.end_time or not fpe_equals(")])
V("c15-restart-from-first-column", "C15", "violation", "C15.R2", edits=[(CLF, "            initial_state = solution.y[::, -1].reshape(state_shape)", "            initial_state = solution.y[::, 0].reshape(state_shape)")])
V("c15-burn-end-from-start", "C15", "violation", "C15.R2", edits=[("data/events/finite_burn.py", "        end_jd = JulianDate(self.end_time_jd)", "        end_jd = JulianDate(self.start_time_jd)")])
V("c15-thrust-frame-registry-swapped", "C15", "violation", "C15.R2", edits=[("data/events/base.py", "        ECI: eciBurn,\n        NTW: ntwBurn,", "        ECI: ntwBurn,\n        NTW: eciBurn,")])
V("c15-sp-thrust-velocity-slots", "C15", "violation", "C15.R3", edits=[("dynamics/special_perturbations.py", "                a_perturbations += self.finite_thrust(concatenate((r_eci, v_eci)))[:3]", "                a_perturbations += self.finite_thrust(concatenate((r_eci, v_eci)))[3:]")])
V("c15-n-end-selects-value", "C15", "pass", edits=[(FTF, "        if fpe_equals(_ival, 0.0) or fpe_equals(_fval, 0.0):\n            return 0.0\n        return _ival", "        if fpe_equals(_ival, 0.0) or fpe_equals(_fval, 0.0):\n            return 0.0\n        return _ival if time < self.start_time else _fval")])

V("c12-true-anomaly-raw-arccos", "C12", "violation", "C12.R4", edits=[("physics/orbits/utils.py", "    anomaly = safeArccos(vdot(e_unit_vec, r_vec) / norm(r_vec))", "    anomaly = arccos(vdot(e_unit_vec, r_vec) / norm(r_vec))"), ("physics/orbits/utils.py", "from numpy import ", "from numpy import arccos, ")])
V("c12-n-true-anomaly-clipped", "C12", "pass", edits=[("physics/orbits/utils.py", "    anomaly = safeArccos(vdot(e_unit_vec, r_vec) / norm(r_vec))", "    anomaly = arccos(clip(vdot(e_unit_vec, r_vec) / norm(r_vec), -1.0, 1.0))"), ("physics/orbits/utils.py", "from numpy import ", "from numpy import arccos, clip, ")])
V("c12-eqe-config-retro-dropped", "C12", "violation", "C12.R2", edits=[("physics/orbits/elements.py", "            config.mean_longitude * const.DEG2RAD,\n            retro=config.retrograde,\n", "            config.mean_longitude * const.DEG2RAD,\n")])
_C11_ALT = [
    ("dynamics/terrestrial.py", "from ..physics.transforms.methods import ecef2eci\n", "from ..physics.transforms.methods import ecef2eci, eci2ecef\n"),
    ("dynamics/terrestrial.py", "    def propagate(\n", "    @classmethod\n    def fromInertialState(cls, jd_start, x_eci):\n        return cls(jd_start, eci2ecef(x_eci, julianDateToDatetime(jd_start)))\n\n    def propagate(\n"),
]
V("c11-n-alt-constructor-same-instant", "C11", "pass", edits=_C11_ALT + [("dynamics/__init__.py", "        dynamics = Terrestrial(\n            clock.julian_date_start,\n            eci2ecef(agent_cfg.state.toECI(clock.datetime_start), clock.datetime_start),\n        )", "        dynamics = Terrestrial.fromInertialState(\n            clock.julian_date_start,\n            agent_cfg.state.toECI(clock.datetime_start),\n        )")])
V("c11-alt-constructor-current-epoch", "C11", "violation", "C11.R2", edits=_C11_ALT + [("dynamics/__init__.py", "        dynamics = Terrestrial(\n            clock.julian_date_start,\n            eci2ecef(agent_cfg.state.toECI(clock.datetime_start), clock.datetime_start),\n        )", "        dynamics = Terrestrial.fromInertialState(\n            clock.julian_date_start,\n            agent_cfg.state.toECI(clock.datetime_epoch),\n        )")])
FOVF = "sensors/field_of_view.py"
_MW = "        azimuth_angle = abs(wrapAngleNegPiPi(pointing_azimuth - background_azimuth))\n"
V("c14-n-manual-two-sided-wrap", "C14", "pass", edits=[(FOVF, "from ..physics.constants import DEG2RAD\n", "from ..physics.constants import DEG2RAD, PI, TWOPI\n"), (FOVF, _MW, "        delta = pointing_azimuth - background_azimuth\n        if delta > PI:\n            delta -= TWOPI\n        elif delta < -PI:\n            delta += TWOPI\n        azimuth_angle = abs(delta)\n")])
V("c14-manual-one-sided-wrap", "C14", "violation", "C14.R1", edits=[(FOVF, "from ..physics.constants import DEG2RAD\n", "from ..physics.constants import DEG2RAD, PI, TWOPI\n"), (FOVF, _MW, "        delta = pointing_azimuth - background_azimuth\n        if delta > PI:\n            delta -= TWOPI\n        azimuth_angle = abs(delta)\n")])
V("c14-mask-bounds-swapped-via-locals", "C14", "violation", "C14.R2", edits=[("sensors/sensor_base.py", "        if self.az_mask[0] > self.az_mask[1] and (\n            azimuth >= self.az_mask[0] or azimuth <= self.az_mask[1]\n        ):", "        az_lower, az_upper = self.az_mask\n        if az_lower > az_upper and (azimuth >= az_upper or azimuth <= az_lower):")])
V("c14-n-mask-bounds-via-locals", "C14", "pass", edits=[("sensors/sensor_base.py", "        if self.az_mask[0] > self.az_mask[1] and (\n            azimuth >= self.az_mask[0] or azimuth <= self.az_mask[1]\n        ):", "        az_lower, az_upper = self.az_mask\n        if az_lower > az_upper and (azimuth >= az_lower or azimuth <= az_upper):")])
# ------------------------------------------------------------------------------------ C13
SPF = "dynamics/special_perturbations.py"
GPO = "physics/bodies/gravitational_potential.py"
V("c13-term-left-out", "C13", "violation", "C13.R1", edits=[(SPF, "a_perturbations = a_nonspherical + a_third_body + a_srp + a_gr", "a_perturbations = a_nonspherical + a_third_body + a_srp")])
V("c13-switch-wrong-flag", "C13", "violation", "C13.R1", edits=[(SPF, "a_gr = _getGeneralRelativityAcceleration(r_eci, v_eci) if self.use_gr else 0.0", "a_gr = _getGeneralRelativityAcceleration(r_eci, v_eci) if self.use_srp else 0.0")])
V("c13-config-switch-crossed", "C13", "violation", "C13.R1", edits=[(SPF, "        self.use_gr = perturbations.general_relativity", "        self.use_gr = perturbations.solar_radiation_pressure")])
V("c13-term-sign", "C13", "violation", "C13.R1", edits=[(SPF, "a_perturbations = a_nonspherical + a_third_body + a_srp + a_gr", "a_perturbations = a_nonspherical + a_third_body - a_srp + a_gr")])
V("c13-geopotential-on-inertial", "C13", "violation", "C13.R2", edits=[(SPF, "                nonSphericalAcceleration(\n                    r_ecef,", "                nonSphericalAcceleration(\n                    r_eci,")])
V("c13-rotation-not-transposed", "C13", "violation", "C13.R2", edits=[(SPF, "            r_ecef = matmul(ecef_2_eci.T, r_eci)", "            r_ecef = matmul(ecef_2_eci, r_eci)")])
V("c13-degree-order-swapped", "C13", "violation", "C13.R2", edits=[(SPF, "                    self.degree,\n                    self.order,", "                    self.order,\n                    self.degree,")])
V("c13-third-body-slots-swapped", "C13", "violation", "C13.R2", edits=[(SPF, "body.mu * _getThirdBodyAcceleration(r_eci, position)", "body.mu * _getThirdBodyAcceleration(position, r_eci)")])
V("c13-sun-fraction-dropped", "C13", "violation", "C13.R3", edits=[(SPF, "        return a_srp * calculateSunVizFraction(sat_position, sun_eci_position) / 1000.0", "        return a_srp / 1000.0")])
V("c13-harmonics-not-one-higher", "C13", "violation", "C13.R3", edits=[(GPO, "getNonSphericalHarmonics(ecef_pos, cb_radius, max_degree + 1, max_order + 1)", "getNonSphericalHarmonics(ecef_pos, cb_radius, max_degree + 1, max_order)")])
V("c13-gr-speed-of-light-units", "C13", "violation", "C13.R3", edits=[(SPF, "    c_sq = (const.SPEED_OF_LIGHT / 1000) ** 2\n    # Intermediate term\n", "    c_sq = const.SPEED_OF_LIGHT**2\n    # Intermediate term\n")])
V("c13-recursion-index-slip", "C13", "violation", "C13.R4", edits=[(GPO, "(2 * n - 1) * z_bar * v[n - 1, m] - (n + m - 1) * rho_sq * v[n - 2, m]", "(2 * n - 1) * z_bar * v[n - 1, m] - (n + m - 1) * rho_sq * v[n - 1, m]")])
V("c13-partial-sign-slip", "C13", "violation", "C13.R4", edits=[(GPO, "                    + s[n, m] * v[n + 1, m + 1]\n", "                    - s[n, m] * v[n + 1, m + 1]\n")])
V("c13-srp-towards-sun", "C13", "violation", "C13.R4", edits=[(SPF, "            -const.SOLAR_PRESSURE\n", "            const.SOLAR_PRESSURE\n")])
V("c13-third-body-indirect-term", "C13", "violation", "C13.R4", edits=[(SPF, "    return r_sat_3 * q_3 - (r_e_sat / (r_e_3_norm**3))", "    return r_sat_3 * q_3 - (r_e_sat / (r_e_3_norm**2))")])
V("c13-n-terms-reordered", "C13", "pass", edits=[(SPF, "a_perturbations = a_nonspherical + a_third_body + a_srp + a_gr", "a_perturbations = a_gr + a_srp + a_third_body + a_nonspherical")])

# ------------------------------------------------------------------------------------ C03
TBF = "dynamics/two_body.py"
KPF = "physics/orbits/kepler.py"
V("c03-sp-velocity-slice-start", "C03", "violation", "C03.R1", edits=[(SPF, "            v_eci = state[jj + half :: step]", "            v_eci = state[jj + half + 1 :: step]")])
V("c03-twobody-acc-into-other-state", "C03", "violation", "C03.R1", edits=[(TBF, "            derivative[jj + half :: step] = -1.0 * Earth.mu / (r_norm**3.0) * r_vector", "            derivative[(jj + 1) % step + half :: step] = -1.0 * Earth.mu / (r_norm**3.0) * r_vector")])
V("c03-twobody-step-from-half", "C03", "violation", "C03.R1", edits=[(TBF, "        step = int(state.shape[0] / 6)", "        step = int(state.shape[0] / 3)")])
V("c03-restart-not-reshaped", "C03", "violation", None, edits=[(CLF, "            initial_state = solution.y[::, -1].reshape(state_shape)", "            initial_state = solution.y[::, -1].reshape(state_shape[::-1]).T")])
V("c03-time-direct-for-body-position", "C03", "violation", "C03.R2", edits=[(SPF, "        positions = {body: body.getPosition(julian_date) for body in self.third_bodies}", "        positions = {body: body.getPosition(JulianDate(self.init_julian_date + time / 3600)) for body in self.third_bodies}")])
V("c03-epoch-hours", "C03", "violation", "C03.R2", edits=[(SPF, "self.init_julian_date + time / 86400", "self.init_julian_date + time / 3600 / 24 / 2")])
V("c03-twobody-cubed-dropped", "C03", "violation", "C03.R3", edits=[(TBF, "-1.0 * Earth.mu / (r_norm**3.0) * r_vector", "-1.0 * Earth.mu / (r_norm**2.0) * r_vector")])
V("c03-kepler-gdot", "C03", "violation", "C03.R3", edits=[(KPF, "    gdot = 1 - chi**2 / r * c2", "    gdot = 1 - chi**2 / norm(r0) * c2")])
V("c03-kepler-check-removed", "C03", "violation", "C03.R3", edits=[(KPF, "    if not isclose(f * gdot - fdot * g, 1.0, rtol=0.0, atol=min(tol, 1e-6)):", "    if False and not isclose(f * gdot - fdot * g, 1.0, rtol=0.0, atol=min(tol, 1e-6)):")])
V("c03-n-rename-loop-var", "C03", "pass", edits=[(TBF, "        for jj in range(step):\n            # Parse position vector\n            r_vector = state[jj : jj + half : step]", "        for kk in range(step):\n            jj = kk\n            # Parse position vector\n            r_vector = state[jj : jj + half : step]")])

# ------------------------------------------------------------------------------------ C12
CV = "physics/orbits/conversions.py"
OU = "physics/orbits/utils.py"
EL = "physics/orbits/elements.py"
AN = "physics/orbits/anomaly.py"
STC = "scenario/config/state_config.py"
KP = "physics/orbits/kepler.py"
V("c12-kepler-eqe-residual-sign", "C12", "violation", "C12.R8", edits=[(KP, "    return F + h * cos(F) - k * sin(F) - lam", "    return F - h * cos(F) + k * sin(F) - lam")])
V("c12-kepler-eqe-args-transposed", "C12", "violation", "C12.R8", edits=[(KP, "        args=(h, k, lam),", "        args=(k, h, lam),")])
V("c12-kepler-coe-derivative-of-other-residual", "C12", "violation", "C12.R8", edits=[(KP, "        fprime=_keplerEquationDerivative,", "        fprime=_equinoctialKeplerEquationDerivative,")])
V("c12-eqe2coe-argp-angle-complement", "C12", "violation", "C12.R8", edits=[(CV, "    argp = arctan2(h, k) - II * raan", "    argp = arctan2(k, h) - II * raan")])
V("c12-n-kepler-secant", "C12", "pass", edits=[(KP, "        E_0,\n        fprime=_keplerEquationDerivative,\n", "        E_0,\n")])
V("c12-n-kepler-residual-reordered", "C12", "pass", edits=[(KP, "    return E - ecc * sin(E) - M", "    return (E - M) - sin(E) * ecc")])
V("c12-eci2coe-equatorial-slot", "C12", "violation", "C12.R1", edits=[(CV, "        return sma, ecc, inc, 0.0, true_long_periapsis, true_anomaly", "        return sma, ecc, inc, true_long_periapsis, 0.0, true_anomaly")])
V("c12-singularity-circular-drops-argp", "C12", "violation", "C12.R1", edits=[(OU, "        arg_lat = wrapAngle2Pi(anomaly + argp)", "        arg_lat = wrapAngle2Pi(anomaly)")])
V("c12-singularity-unwrapped", "C12", "violation", "C12.R1", edits=[(OU, "        true_long_rp = wrapAngle2Pi(raan + argp)", "        true_long_rp = raan + argp")])
V("c12-fromconfig-latitude-into-argp", "C12", "violation", "C12.R1", edits=[(EL, "            anomaly = config.argument_latitude * const.DEG2RAD", "            argp = config.argument_latitude * const.DEG2RAD")])
V("c12-validate-flags-swapped", "C12", "violation", "C12.R1", edits=[(STC, "        elif self.true_anomaly is not None and self.true_longitude_periapsis is not None:\n            self._eccentric = True\n            self._inclined = False", "        elif self.true_anomaly is not None and self.true_longitude_periapsis is not None:\n            self._eccentric = False\n            self._inclined = True")])
V("c12-inclined-property-returns-eccentric", "C12", "violation", "C12.R1", edits=[(STC, "        \"\"\"bool: Indicates whether this orbit is considered inclined.\"\"\"\n        return self._inclined", "        \"\"\"bool: Indicates whether this orbit is considered inclined.\"\"\"\n        return self._eccentric")])
V("c12-deg2rad-dropped", "C12", "violation", "C12.R2", edits=[(EL, "            raan = config.right_ascension * const.DEG2RAD\n            argp = config.argument_periapsis * const.DEG2RAD", "            raan = config.right_ascension\n            argp = config.argument_periapsis * const.DEG2RAD")])
V("c12-deg2rad-twice", "C12", "violation", "C12.R2", edits=[(EL, "        inc = config.inclination * const.DEG2RAD", "        inc = config.inclination * const.DEG2RAD * const.DEG2RAD")])
V("c12-eqe-component-scaled", "C12", "violation", "C12.R2", edits=[(EL, "            config.h,\n            config.k,", "            config.h * const.DEG2RAD,\n            config.k,")])
V("c12-anomaly-wrapper-lost", "C12", "violation", "C12.R3", edits=[(AN, "@wrap_anomaly\n@check_ecc\ndef eccAnom2MeanAnom", "@check_ecc\ndef eccAnom2MeanAnom")])
V("c12-ecc2true-sign", "C12", "violation", "C12.R3", edits=[(AN, "    return arctan2(sin(E) * sqrt(1 - ecc**2), cos(E) - ecc)", "    return arctan2(sin(E) * sqrt(1 - ecc**2), cos(E) + ecc)")])
V("c12-meanlong-retro-sign", "C12", "violation", "C12.R3", edits=[(AN, "    return meanAnom2TrueAnom(lam - argp - II * raan, ecc)", "    return meanAnom2TrueAnom(lam - argp + II * raan, ecc)")])
V("c12-n-validate-reordered", "C12", "pass", edits=[(STC, "            self._eccentric = True\n            self._inclined = True\n\n        elif self.true_anomaly", "            self._inclined = True\n            self._eccentric = True\n\n        elif self.true_anomaly")])

# ------------------------------------------------------------------------------------ C20
IODF = "estimation/initial_orbit_determination.py"
LMF = "physics/orbit_determination/lambert.py"
V("c20-revert-F14-position-as-state", "C20", "violation", "C20.R2", revert="1312dfd")
V("c20-az-el-swapped", "C20", "violation", "C20.R1", edits=[(TM, "        observation.elevation_rad,\n        observation.azimuth_rad,\n", "        observation.azimuth_rad,\n        observation.elevation_rad,\n")])
V("c20-site-lon-lat-swapped", "C20", "violation", "C20.R1", edits=[(TM, "        lat=sensor_lla[0],\n        lon=sensor_lla[1],", "        lat=sensor_lla[1],\n        lon=sensor_lla[0],")])
V("c20-sensor-position-not-added", "C20", "violation", "C20.R1", edits=[(TM, "    return eci_relative_pos[:3] + observation.sensor_eci[:3]", "    return eci_relative_pos[:3]")])
V("c20-forward-azimuth-sign", "C20", "violation", "C20.R1", edits=[("physics/measurements.py", "        azimuth = arctan2(slant_range_sez[1], -1.0 * slant_range_sez[0])", "        azimuth = arctan2(slant_range_sez[1], slant_range_sez[0])")])
V("c20-solver-positions-swapped", "C20", "violation", "C20.R3", edits=[(IODF, "            initial_position,\n            final_position,\n            transit_time,", "            final_position,\n            initial_position,\n            transit_time,")])
V("c20-initial-velocity-returned", "C20", "violation", "C20.R3", edits=[(IODF, "        _, final_velocity = self.orbit_determination_method(", "        final_velocity, _ = self.orbit_determination_method(")])
V("c20-tof-from-detection-time", "C20", "violation", "C20.R3", edits=[(IODF, "            final_position,\n            previous_observation[-1].julian_date,\n            current_julian_date,", "            final_position,\n            previous_observation[0].julian_date,\n            current_julian_date,")])
V("c20-fg-velocity-sign", "C20", "violation", "C20.R3", edits=[(LMF, "    current_velocity = (gauss_g_dot * current_position - initial_position) / gauss_g", "    current_velocity = (gauss_g_dot * current_position + initial_position) / gauss_g")])
V("c20-universal-gdot", "C20", "violation", "C20.R3", edits=[(LMF, "    gauss_g_dot = 1.0 - y_new / r_mag\n    return _calculateVelocities(initial_position, current_position, gauss_f, gauss_g, gauss_g_dot)", "    gauss_g_dot = 1.0 - y_new / r0_mag\n    return _calculateVelocities(initial_position, current_position, gauss_f, gauss_g, gauss_g_dot)")])
V("c20-n-named-args", "C20", "pass", edits=[(IODF, "        initial_position = radarObs2eciPosition(previous_observation[-1])", "        initial_position = radarObs2eciPosition(previous_observation[-1])  # position only")])

# ------------------------------------------------------------------------------------ C01 (R8)
SIF = "dynamics/integration_events/scheduled_impulse.py"
V("c01-impulse-not-terminal", "C01", "violation", "C01.R8", edits=[("dynamics/integration_events/discrete_state_change_event.py", "    terminal = True\n", "    terminal = False\n")])
V("c01-impulse-in-position-slots", "C01", "violation", "C01.R8", edits=[(SIF, "        self.thrust = concatenate((zeros(3), delta_v))", "        self.thrust = concatenate((delta_v, zeros(3)))")])
V("c01-impulse-time-from-end", "C01", "violation", "C01.R8", edits=[("data/events/scheduled_impulse.py", "        start_jd = JulianDate(self.start_time_jd)", "        start_jd = JulianDate(self.end_time_jd + 1.0 / 86400.0)")])
V("c01-impulse-applied-twice", "C01", "violation", "C01.R8", edits=[(CLF, "                current_state += event.getStateChange(current_time, current_state[:, 0])[\n", "                current_state += 2 * event.getStateChange(current_time, current_state[:, 0])[\n")])
V("c01-removal-kinds-swapped", "C01", "violation", "C01.R8", edits=[("data/events/agent_removal.py", "        if self.agent_type == self.AgentType.TARGET.value:\n            scope_instance.removeTarget(self.agent_id, self.tasking_engine_id)", "        if self.agent_type == self.AgentType.SENSOR.value:\n            scope_instance.removeTarget(self.agent_id, self.tasking_engine_id)")])
V("c01-added-target-no-estimate", "C01", "violation", "C01.R8", edits=[(SC, "        self._estimate_agents[target_spec.id] = estimate_agent\n", "")])
V("c01-ntw-impulse-not-rotated", "C01", "violation", "C01.R8", edits=[(SIF, "        return ntw2eci(state, self.thrust)", "        return self.thrust")])

# ------------------------------------------------------------------------------------ C08 (R5)
PI_ = "parallel/__init__.py"
V("c08-result-to-first-registration", "C08", "violation", "C08.R5", edits=[(PI_, "            self._result_reg_mapping[finished_jobs[0]].processResults(result)", "            next(iter(self._result_reg_mapping.values())).processResults(result)")])
V("c08-wait-two-process-one", "C08", "violation", "C08.R5", edits=[(PI_, "ray.wait(self._unfinished_jobs)", "ray.wait(self._unfinished_jobs, num_returns=min(2, len(self._unfinished_jobs)))")])
V("c08-mapping-keyed-by-submission", "C08", "violation", "C08.R5", edits=[(PI_, "        self._result_reg_mapping[remote_ref] = registration", "        self._result_reg_mapping[remote_ref] = self._result_reg_mapping.get(remote_ref, registration)\n        self._last = registration")])

# ------------------------------------------------------------------------------------ C14 (R5)
V("c14-umbra-test-sum", "C14", "violation", "C14.R5", edits=[(SU, "    if c < abs(b - a):\n        return 0.0", "    if c < abs(b + a):\n        return 0.0")])
V("c14-sunward-test-reversed", "C14", "violation", "C14.R5", edits=[(SU, "    if norm(sun_eci_position) >= norm(sat_sun_vector):", "    if norm(sun_eci_position) <= norm(sat_sun_vector):")])
V("c14-partial-area-sign", "C14", "violation", "C14.R5", edits=[(SU, "        return 1.0 - A / (PI * a**2)", "        return A / (PI * a**2)")])

_TB_OLD = '    third_bodies = {}\n    for body in configuration:\n        if body.lower() == "sun":\n            third_bodies[Sun] = "sun"\n        elif body.lower() == "moon":\n            third_bodies[Moon] = "moon"\n        elif body.lower() == "jupiter":\n            third_bodies[Jupiter] = "jupiter"\n        elif body.lower() == "saturn":\n            third_bodies[Saturn] = "saturn"\n        elif body.lower() == "venus":\n            third_bodies[Venus] = "venus"\n        else:\n            raise ValueError(f"Incorrect option for \'third_bodies\' in config: {body}")\n'
_TB_NEW = '    for body in configuration:\n        name = body.lower()\n        if name not in THIRD_BODY_LOOKUP:\n            raise ValueError(f"Incorrect option for \'third_bodies\' in config: {body}")\n        third_bodies[THIRD_BODY_LOOKUP[name]] = name\n'
_TB_TABLE = 'THIRD_BODY_LOOKUP = {"sun": Sun, "moon": Moon, "jupiter": Jupiter, "saturn": Saturn, "venus": Venus}\n\n\ndef thirdBodyFactory('
V("c13-n-third-body-table", "C13", "pass", edits=[(SPF, "def thirdBodyFactory(", _TB_TABLE), (SPF, _TB_OLD, "    third_bodies = {}\n" + _TB_NEW)])
V("c13-third-body-table-shared-default", "C13", "violation", "C13.R1", edits=[(SPF, "def thirdBodyFactory(configuration: list[str]) -> dict:", _TB_TABLE + "configuration: list[str], third_bodies: dict = {}) -> dict:"), (SPF, _TB_OLD, _TB_NEW)])
V("c13-third-body-table-wrong-class", "C13", "violation", "C13.R1", edits=[(SPF, "def thirdBodyFactory(", _TB_TABLE.replace('"moon": Moon', '"moon": Sun')), (SPF, _TB_OLD, "    third_bodies = {}\n" + _TB_NEW)])

_PE_OLD = "        self._pending_epochs[self.clock.datetime_epoch.isoformat(timespec=\"microseconds\")] = (\n            self.current_julian_date\n        )\n"
_PE_HELPER = "    def _trackCurrentEpoch(self) -> None:\n        self._pending_epochs[self.clock.datetime_epoch.isoformat(timespec=\"microseconds\")] = (\n            self.clock.julian_date_epoch\n        )\n\n    def stepForward(self) -> None:"
V("c09-n-pending-epoch-helper", "C09", "pass", edits=[(SC, _PE_OLD, "        self._trackCurrentEpoch()\n"), (SC, "    def stepForward(self) -> None:", _PE_HELPER)])
V("c09-pending-epoch-recomputed-jd", "C09", "violation", "C09.R6", edits=[(SC, _PE_OLD, "        self._pending_epochs[self.clock.datetime_epoch.isoformat(timespec=\"microseconds\")] = (\n            datetimeToJulianDate(self.clock.datetime_epoch)\n        )\n"), (SC, "from ..physics.time.stardate import JulianDate\n", "from ..physics.time.stardate import JulianDate, datetimeToJulianDate\n")])

SBF = "sensors/sensor_base.py"
V("c14-az-mask-sorted", "C14", "violation", "C14.R6", edits=[(SBF, "        self.az_mask = const.DEG2RAD * az_mask\n", "        self.az_mask = const.DEG2RAD * sort(az_mask)\n"), (SBF, "from numpy import array, cos, sin, zeros_like", "from numpy import array, cos, sin, sort, zeros_like")])
V("c02-az-mask-sorted", "C02", "violation", "C02.R10", edits=[(SBF, "        self.az_mask = const.DEG2RAD * az_mask\n", "        self.az_mask = const.DEG2RAD * sort(az_mask)\n"), (SBF, "from numpy import array, cos, sin, zeros_like", "from numpy import array, cos, sin, sort, zeros_like")])
V("c14-n-el-mask-sorted", "C14", "pass", edits=[(SBF, "        self.el_mask = const.DEG2RAD * el_mask\n", "        self.el_mask = const.DEG2RAD * sort(el_mask)\n"), (SBF, "from numpy import array, cos, sin, zeros_like", "from numpy import array, cos, sin, sort, zeros_like")])
V("c14-az-mask-config-flipped", "C14", "violation", "C14.R6", edits=[("sensors/radar.py", "            az_mask=array(sensor_config.azimuth_range),", "            az_mask=array(sensor_config.azimuth_range)[::-1],")])
V("c06-revert-F16-fallback-upper-factor", "C06", "violation", "C06.R6", revert="a0c7960")
V("c06-ukf-scipy-cholesky-import", "C06", "violation", "C06.R6", edits=[("estimation/kalman/unscented_kalman_filter.py", "from numpy.linalg import LinAlgError, cholesky, inv\nfrom scipy.linalg import block_diag\n", "from scipy.linalg import LinAlgError, block_diag, cholesky, inv\n")])

OPF = "sensors/optical.py"
V("c02-n-host-state-alias", "C02", "pass", edits=[(OPF, "        boresight_eci = tgt_eci_state - self.host.eci_state\n", "        sen_eci_state = self.host.eci_state\n        boresight_eci = tgt_eci_state - sen_eci_state\n"), (OPF, "            tgt_eci_state[:3],\n            self.host.eci_state[:3],\n        )", "            tgt_eci_state[:3],\n            sen_eci_state[:3],\n        )")])
V("c02-limb-test-on-target-state", "C02", "violation", "C02.R4", edits=[(OPF, "            target_is_obscured = checkSpaceSensorEarthLimbObscuration(\n                self.host.eci_state,", "            target_is_obscured = checkSpaceSensorEarthLimbObscuration(\n                tgt_eci_state,")])
V("c02-n-sun-local-renamed", "C02", "pass", edits=[(OPF, "sun_eci_position", "sun_pos", "all")], note="replace-all rename of a local")

# ------------------------------------------------------------------------------------ whole-package neutral transformations
for _i in range(1, 21):
    V(f"c{_i:02d}-n-all-locals-renamed-comparisons-mirrored", f"C{_i:02d}", "pass", transforms=["rename_locals", "flip_comparisons"], note="every function-local renamed, every call-free comparison mirrored, sources re-emitted by ast.unparse")
    V(f"c{_i:02d}-n-single-use-locals-inlined", f"C{_i:02d}", "pass", transforms=["inline_single_use", "rename_locals", "flip_comparisons"], note="every single-use local inlined into the next statement, then renamed / mirrored")
    V(f"c{_i:02d}-n-variables-extracted", f"C{_i:02d}", "pass", transforms=["extract_variables", "rename_locals"], note="every returned expression and every if-test bound to a new local first, then all locals renamed")

OUF = "physics/orbits/utils.py"
_ST_OK = "    if 1e-6 < abs(psi) < 1e-2:\n        c2 = (1 - psi / 12 * (1 - psi / 30 * (1 - psi / 56 * (1 - psi / 90)))) / 2\n        c3 = (1 - psi / 20 * (1 - psi / 42 * (1 - psi / 72 * (1 - psi / 110)))) / 6\n    elif psi > 1e-6:  # Elliptical"
V("c03-n-stumpff-series-window", "C03", "pass", edits=[(OUF, "    if psi > 1e-6:  # Elliptical", _ST_OK)], note="an exact Maclaurin window is the same function")
V("c03-stumpff-series-wrong-coefficient", "C03", "violation", "C03.R3", edits=[(OUF, "    if psi > 1e-6:  # Elliptical", _ST_OK.replace("psi / 20", "psi / 30"))])
V("c03-stumpff-c3-limit", "C03", "violation", "C03.R3", edits=[(OUF, "    c3: float = 1.0 / 6.0", "    c3: float = 1.0 / 3.0")])

SDF = "physics/time/stardate.py"
V("c05-days2mdh-century-rule-without-400", "C05", "violation", "C05.R5", edits=[(SDF, "    if remainder(year - 1900, 4) == 0:\n        days_in_month[1] = 29", "    if remainder(year, 4) == 0 and remainder(year, 100) != 0:\n        days_in_month[1] = 29")])
V("c05-n-days2mdh-full-gregorian-rule", "C05", "pass", edits=[(SDF, "    if remainder(year - 1900, 4) == 0:\n        days_in_month[1] = 29", "    if year % 4 == 0 and (year % 100 != 0 or year % 400 == 0):\n        days_in_month[1] = 29")])

RWF = "tasking/rewards/rewards.py"
_CCT = "def _cct(delta, stability, information, sensor):\n    stab = sign(stability)\n    return delta * (stab + information) - (1 - delta) * sensor\n\n\nclass CostConstrainedReward("
V("c07-n-reward-helper", "C07", "pass", edits=[(RWF, "class CostConstrainedReward(", _CCT), (RWF, "        return self._delta * (sign(stability) + information) - (1 - self._delta) * sensor\n", "        return _cct(self._delta, stability, information, sensor)\n")])
V("c07-reward-helper-gate-instead-of-sign", "C07", "violation", "C07.R5", edits=[(RWF, "class CostConstrainedReward(", _CCT.replace("sign(stability)", "stability > 0.0")), (RWF, "        return self._delta * (sign(stability) + information) - (1 - self._delta) * sensor\n", "        return _cct(self._delta, stability, information, sensor)\n")])
V("c07-normalisation-global-guard", "C07", "violation", "C07.R5", edits=[("tasking/rewards/reward_base.py", "        for met in range(len(self.metrics)):\n            if metric_matrix[..., met].max() > 0.0:\n                metric_matrix[..., met] /= metric_matrix[..., met].max()\n", "        peaks = metric_matrix.reshape(-1, len(self.metrics)).max(axis=0)\n        if (peaks > 0.0).all():\n            metric_matrix /= peaks\n")])
V("c01-revert-F17-simultaneous-events", "C01", "violation", "C01.R8", revert="d10d320")
V("c15-n-revert-F17-leaves-c15-quiet", "C15", "pass", revert="d10d320", note="the pre-F17 shape of _applyEvents is not a C15 violation")

DYI = "dynamics/__init__.py"
V("c10-n-factory-through-helper", "C10", "pass", edits=[(DYI, "            dynamics = TwoBody(method=prop_cfg.integration_method)\n", "            dynamics = _mk2b(prop_cfg)\n"), (DYI, "def dynamicsFactory(", "def _mk2b(prop_cfg):\n    return TwoBody(method=prop_cfg.integration_method)\n\n\ndef dynamicsFactory(")])
V("c10-factory-memoised", "C10", "violation", "C10.R4", edits=[(DYI, "            dynamics = TwoBody(method=prop_cfg.integration_method)\n", "            dynamics = _CACHE.setdefault(prop_cfg.integration_method, TwoBody(method=prop_cfg.integration_method))\n"), (DYI, "def dynamicsFactory(", "_CACHE = {}\n\n\ndef dynamicsFactory(")])
V("c12-check-ecc-on-longitude-conversion", "C12", "violation", "C12.R3", edits=[("physics/orbits/anomaly.py", "@wrap_anomaly\ndef meanLong2TrueAnom(", "@wrap_anomaly\n@check_ecc\ndef meanLong2TrueAnom(")])

V("c15-sp-thrust-on-ecef-position", "C15", "violation", "C15.R3", edits=[("dynamics/special_perturbations.py", "a_perturbations += self.finite_thrust(concatenate((r_eci, v_eci)))[:3]", "a_perturbations += self.finite_thrust(concatenate((r_ecef, v_eci)))[:3]")])

V("c19-importer-path-withheld-when-realtime", "C19", "violation", "C19.R4", edits=[("scenario/scenario_builder.py", "                decision,\n                importer_db_path,\n", "                decision,\n                None if self.config.observation.realtime_observation else importer_db_path,\n")])
V("c19-n-importer-path-alias", "C19", "pass", edits=[("scenario/scenario_builder.py", "                decision,\n                importer_db_path,\n", "                decision,\n                db_path_for_engine,\n"), ("scenario/scenario_builder.py", "            # Create the tasking engine object\n", "            db_path_for_engine = importer_db_path\n            # Create the tasking engine object\n")])
V("c18-gpb1-normaliser-not-recomputed", "C18", "violation", "C18.R4", edits=[("estimation/adaptive/gpb1.py", "                self.model_likelihoods = ones_like(self.mode_probabilities)\n                c = dot(self.model_likelihoods, self.mode_probabilities)\n", "                self.model_likelihoods = ones_like(self.mode_probabilities)\n")])
V("c20-universal-bracket-by-sense", "C20", "violation", "C20.R3", edits=[("physics/orbit_determination/lambert.py", "    psi_up = 4.0 * PI**2\n", "    psi_up = PI**2 if transfer_method > 0 else 4.0 * PI**2\n")])
V("c16-angular-mean-linear-fallback", "C16", "violation", "C16.R2", edits=[("physics/maths.py", "    result_mean = wrapAngle2Pi(arctan2(sin_mean, cos_mean))", "    if abs(sin_mean) + abs(cos_mean) < 1e-8:\n        return sum(angles * weights)\n    result_mean = wrapAngle2Pi(arctan2(sin_mean, cos_mean))")])
V("c15-prune-isclose", "C15", "violation", "C15.R2", edits=[(AB, "                if not self._time < itr_event.end_time or fpe_equals(\n                    itr_event.end_time,\n                    self._time,\n                ):", "                if not self._time < itr_event.end_time or isclose(itr_event.end_time, self._time):"), (AB, "from numpy import ndarray", "from numpy import isclose, ndarray")])

# ------------------------------------------------------------------------------------ seeded changes kept under /verif/seeded
import json as _json
import os as _os

_SEEDED = _os.path.join(_os.path.dirname(_os.path.dirname(_os.path.abspath(__file__))), "seeded")
for _name in sorted(_os.listdir(_SEEDED)) if _os.path.isdir(_SEEDED) else []:
    _mp = _os.path.join(_SEEDED, _name, "meta.json")
    if not _os.path.exists(_mp):
        continue
    _meta = _json.load(open(_mp))
    if not _meta.get("confirmed"):
        continue
    V(f"seed-{_name}", _meta["property"], "violation", patch=f"seeded/{_name}/patch.diff", note="confirmed property-breaking change from a sub-agent: " + (_meta.get("needs_to_manifest") or ""))

# ------------------------------------------------------------------------------------ behaviour-preserving refactorings kept under /verif/neutral
_NEUTRAL = _os.path.join(_os.path.dirname(_os.path.dirname(_os.path.abspath(__file__))), "neutral")
for _name in sorted(_os.listdir(_NEUTRAL)) if _os.path.isdir(_NEUTRAL) else []:
    _mp = _os.path.join(_NEUTRAL, _name, "meta.json")
    if not _os.path.exists(_mp):
        continue
    _meta = _json.load(open(_mp))
    V(f"neutral-{_name}", "ALL", _meta.get("expect", "pass"), patch=f"neutral/{_name}/patch.diff", note="behaviour-preserving refactoring from a sub-agent; every property's check must stay quiet")

# ------------------------------------------------------------------------------------ factor conventions (C06.R7, C02.R12)
V("c06-svd-rows-used-as-columns", "C06", "violation", "C06.R7", edits=[("physics/maths.py", "pol_factor = multi_dot((right_mat.T, diag(singular), right_mat))", "pol_factor = multi_dot((right_mat, diag(singular), right_mat.T))")])
V("c06-n-polar-factor-from-left-vectors", "C06", "pass", edits=[("physics/maths.py", "    _, singular, right_mat = svd(sym_mat)\n    pol_factor = multi_dot((right_mat.T, diag(singular), right_mat))", "    left_mat, singular, _ = svd(sym_mat)\n    pol_factor = multi_dot((left_mat, diag(singular), left_mat.T))")])
V("c06-n-polar-factor-matmul-operator", "C06", "pass", edits=[("physics/maths.py", "pol_factor = multi_dot((right_mat.T, diag(singular), right_mat))", "pol_factor = right_mat.T @ diag(singular) @ right_mat")])
V("c02-noise-factor-numpy-cholesky-transposed", "C02", "violation", "C02.R12", edits=[("physics/measurements.py", "        self._sqrt_noise_covar = real(sqrtm(self._r_matrix))", "        self._sqrt_noise_covar = np_cholesky(self._r_matrix).T"), ("physics/measurements.py", "from scipy.linalg import norm, sqrtm", "from numpy.linalg import cholesky as np_cholesky\nfrom scipy.linalg import norm, sqrtm")])
V("c02-n-noise-factor-lower-cholesky", "C02", "pass", edits=[("physics/measurements.py", "        self._sqrt_noise_covar = real(sqrtm(self._r_matrix))", "        self._sqrt_noise_covar = cholesky(self._r_matrix, lower=True)"), ("physics/measurements.py", "from scipy.linalg import norm, sqrtm", "from scipy.linalg import cholesky, norm, sqrtm")])
V("c02-noise-root-of-input", "C02", "violation", "C02.R12", edits=[("physics/measurements.py", "        self._sqrt_noise_covar = real(sqrtm(self._r_matrix))", "        self._sqrt_noise_covar = real(sqrtm(r_matrix))")])

# ------------------------------------------------------------------------------------ C10.R8 class-level state, C16.R1 in the multiple-model filters
V("c10-class-tolerance-setter", "C10", "violation", "C10.R8", edits=[("dynamics/dynamics_base.py", "    ABSOLUTE_TOL = 10**-12\n", "    ABSOLUTE_TOL = 10**-12\n\n    @classmethod\n    def setTolerances(cls, relative, absolute):\n        cls.RELATIVE_TOL = relative\n        cls.ABSOLUTE_TOL = absolute\n")])
V("c10-class-tolerance-via-type-self", "C10", "violation", "C10.R8", edits=[("dynamics/dynamics_base.py", "    ABSOLUTE_TOL = 10**-12\n", "    ABSOLUTE_TOL = 10**-12\n\n    def loosen(self, factor):\n        type(self).RELATIVE_TOL = self.RELATIVE_TOL * factor\n")])
V("c10-n-instance-tolerance", "C10", "pass", edits=[("dynamics/dynamics_base.py", "    ABSOLUTE_TOL = 10**-12\n", "    ABSOLUTE_TOL = 10**-12\n\n    def setTolerances(self, relative, absolute):\n        self.RELATIVE_TOL = relative\n        self.ABSOLUTE_TOL = absolute\n")])
V("c16-mmae-innovation-raw-difference", "C16", "violation", "C16.R1", edits=[("estimation/adaptive/adaptive_filter.py", "            self.innovation = dot(\n                vstack([[x.innovation for x in self.models]]).T,\n                self.model_weights,\n            )", "            self.innovation = self.true_y - self.mean_pred_y")])

# ------------------------------------------------------------------------------------ C12.R6
OC = "physics/orbits/conversions.py"
V("c12-eqe2coe-raan-quadrant", "C12", "violation", "C12.R6", edits=[(OC, "    raan = arctan2(p, q)\n    argp = arctan2(h, k) - II * raan", "    raan = arctan2(q, p)\n    argp = arctan2(h, k) - II * raan")])
V("c12-eqe2coe-argp-sign", "C12", "violation", "C12.R6", edits=[(OC, "    argp = arctan2(h, k) - II * raan", "    argp = arctan2(h, k) + II * raan")])
V("c12-coe2eqe-h-without-retro-factor", "C12", "violation", "C12.R6", edits=[(OC, "    h = ecc * sin(argp + II * raan)", "    h = ecc * sin(argp + raan)")])
V("c12-coe2eqe-p-q-swapped", "C12", "violation", "C12.R6", edits=[(OC, "    p = tan(inc * 0.5) ** II * sin(raan)\n    q = tan(inc * 0.5) ** II * cos(raan)", "    p = tan(inc * 0.5) ** II * cos(raan)\n    q = tan(inc * 0.5) ** II * sin(raan)")])
V("c12-coe2eqe-longitude-args-swapped", "C12", "violation", "C12.R6", edits=[(OC, "    mean_long = trueAnom2MeanLong(true_anom, ecc, raan, argp, retro=retro)\n    return sma, h, k, p, q, mean_long", "    mean_long = trueAnom2MeanLong(true_anom, ecc, argp, raan, retro=retro)\n    return sma, h, k, p, q, mean_long")])
V("c12-n-coe2eqe-reordered-sum", "C12", "pass", edits=[(OC, "    h = ecc * sin(argp + II * raan)\n    k = ecc * cos(argp + II * raan)", "    lon_peri = II * raan + argp\n    h = sin(lon_peri) * ecc\n    k = cos(lon_peri) * ecc")])
V("c12-n-coe2eqe-half-angle", "C12", "pass", edits=[(OC, "    p = tan(inc * 0.5) ** II * sin(raan)\n    q = tan(inc * 0.5) ** II * cos(raan)", "    tan_half = tan(inc / 2) ** II\n    p = tan_half * sin(raan)\n    q = tan_half * cos(raan)")])

# ------------------------------------------------------------------------------------ C18.R4 stacking (abstract weighted-mean evaluation)
MSU = "estimation/adaptive/mmae_stacking_utils.py"
_STK = "    pred_x = 0\n    est_x = 0\n    for model, weight in zip(models, model_weights):\n        pred_x += model.pred_x * weight\n        est_x += model.est_x * weight\n"
V("c18-n-stack-vectorised-transpose", "C18", "pass", edits=[(MSU, _STK, "    pred_x = array([model.pred_x for model in models]).T.dot(model_weights)\n    est_x = array([model.est_x for model in models]).T.dot(model_weights)\n"), (MSU, "from __future__ import annotations\n", "from __future__ import annotations\n\nfrom numpy import array\n")])
V("c18-n-stack-average", "C18", "pass", edits=[(MSU, _STK, "    pred_x = average([model.pred_x for model in models], axis=0, weights=model_weights)\n    est_x = average([model.est_x for model in models], axis=0, weights=model_weights)\n"), (MSU, "from __future__ import annotations\n", "from __future__ import annotations\n\nfrom numpy import average\n")])
V("c18-stack-rows-times-weights", "C18", "violation", "C18.R4", edits=[(MSU, _STK, "    pred_x = array([model.pred_x for model in models]).dot(model_weights)\n    est_x = array([model.est_x for model in models]).T.dot(model_weights)\n"), (MSU, "from __future__ import annotations\n", "from __future__ import annotations\n\nfrom numpy import array\n")])
V("c18-stack-slots-swapped", "C18", "violation", "C18.R4", edits=[(MSU, "        pred_x += model.pred_x * weight\n        est_x += model.est_x * weight\n", "        pred_x += model.est_x * weight\n        est_x += model.pred_x * weight\n")])

# ------------------------------------------------------------------------------------ C13.R9 constants
PCN = "physics/constants.py"
V("c13-speed-of-light-km", "C13", "violation", "C13.R9", edits=[(PCN, "SPEED_OF_LIGHT = 2.99792458e8", "SPEED_OF_LIGHT = 2.99792458e5")])
V("c13-mu-digit-dropped", "C13", "violation", "C13.R9", edits=[("physics/bodies/earth.py", "    mu = 398600.4415", "    mu = 39860.4415")])
V("c13-j3-sign", "C13", "violation", "C13.R9", edits=[("physics/bodies/earth.py", "    j3 = -2.53241051856772e-6", "    j3 = 2.53241051856772e-6")])
V("c13-deg2rad-inverted", "C13", "violation", "C13.R9", edits=[(PCN, "DEG2RAD = pi / 180.0", "DEG2RAD = 180.0 / pi")])
V("c13-n-mu-other-edition", "C13", "pass", edits=[("physics/bodies/earth.py", "    mu = 398600.4415", "    mu = 398600.4418")])
V("c13-n-twopi-literal", "C13", "pass", edits=[(PCN, "TWOPI = 2.0 * pi", "TWOPI = pi + pi")])

# ------------------------------------------------------------------------------------ C03.R4
V("c03-revert-F18-ragged-event-lists", "C03", "violation", "C03.R4", edits=[
    (CLF, "from numpy import array, finfo, ones_like, spacing, zeros", "from numpy import array, finfo, ones_like, spacing, zeros\nfrom numpy import max as np_max"),
    (CLF, "            fired = [\n                (event_times[-1], event_states[-1])\n                for event_times, event_states in zip(solution.t_events or (), solution.y_events or ())\n                if len(event_times) > 0\n            ]\n            if not fired:", "            if array(solution.t_events).size == 0:"),
    (CLF, "                current_time, stop_state = max(fired, key=lambda item: item[0])", "                current_time = np_max(solution.t_events)"),
    (CLF, "                    current_state=stop_state.reshape(state_shape),", "                    current_state=solution.y_events[0].reshape(state_shape),"),
])  # the reversed fix a8f827e as edits (its reverse patch no longer applies after 056cea2)
SPF = "dynamics/special_perturbations.py"
V("c03-third-body-vector-consumed-in-place", "C03", "violation", "C03.R7", edits=[(SPF, "    r_sat_3 = third_body_position - sat_position\n", "    r_sat_3 = r_e_3\n    r_sat_3 -= sat_position\n")], note="the third-body position (one per evaluation) is turned into the relative vector in place: the second column of a batch sees it displaced")
V("c03-state-view-normalised-in-place", "C03", "violation", "C03.R7", edits=[(SPF, "            r_ecef = matmul(ecef_2_eci.T, r_eci)\n", "            r_eci /= 1.0\n            r_ecef = matmul(ecef_2_eci.T, r_eci)\n")], note="an in-place operation on the per-column VIEW of the solver's state vector")
V("c03-n-relative-vector-in-place-on-own-copy", "C03", "pass", edits=[(SPF, "    r_sat_3 = third_body_position - sat_position\n", "    r_sat_3 = array(third_body_position)\n    r_sat_3 -= sat_position\n")], note="in-place arithmetic on a fresh copy")
V("c03-revert-F19-empty-segment", "C03", "violation", "C03.R6", revert="056cea2")
V("c03-n-empty-segment-guard-by-count", "C03", "pass", edits=[(CLF, "            states = array(states).reshape((*state_shape, n_t)).copy()", "            states = states.reshape((*state_shape, n_t)).copy() if n_t > 0 else zeros((*state_shape, 0))")])
V("c03-empty-segment-last-time-unguarded", "C03", "violation", "C03.R6", edits=[(CLF, "                if n_t > 0 and current_time == solution.t[-1]:", "                if current_time == solution.t[-1]:")])
V("c03-bulk-restart-from-first-event", "C03", "violation", "C03.R4", edits=[("dynamics/celestial.py", "                    current_state=stop_state.reshape(state_shape),", "                    current_state=solution.y_events[0][-1].reshape(state_shape),")])

# ------------------------------------------------------------------------------------ memo soundness / cache coherence
RED = "physics/transforms/reductions.py"
_RED_OLD = "        if not eops:\n            eops = getEarthOrientationParameters(utc_date.date())\n\n        polar_motion = PolarMotion(eops.x_p, eops.y_p)\n        prec_nut = PrecessionNutation(\n            utc_date,"
_RED_RET_OLD = "        rot_pnr = matmul(prec_nut.rot_pn, rot_pef2tod)\n\n        return cls(\n            rot_pn=prec_nut.rot_pn,\n            rot_pnr=rot_pnr,\n            rot_rnp=rot_pnr.T,\n            rot_w=polar_motion.rot_w,\n            rot_wt=polar_motion.rot_w.T,\n            lod=eops.length_of_day,\n            eq_equinox=prec_nut.eq_equinox,\n            dut1=eops.delta_ut1,\n            date_time=utc_date,\n        )\n\n\ndef getRotR"
_RED_RET_NEW = "        rot_pnr = matmul(prec_nut.rot_pn, rot_pef2tod)\n\n        built = cls(\n            rot_pn=prec_nut.rot_pn,\n            rot_pnr=rot_pnr,\n            rot_rnp=rot_pnr.T,\n            rot_w=polar_motion.rot_w,\n            rot_wt=polar_motion.rot_w.T,\n            lod=eops.length_of_day,\n            eq_equinox=prec_nut.eq_equinox,\n            dut1=eops.delta_ut1,\n            date_time=utc_date,\n        )\n        ReductionParams._latest = (eops, built)\n        return built\n\n\ndef getRotR"
V("c04-n-memo-exact-key", "C04", "pass", edits=[(RED, _RED_OLD, "        if not eops:\n            eops = getEarthOrientationParameters(utc_date.date())\n\n        if ReductionParams._latest is not None and ReductionParams._latest[0] is eops and utc_date == ReductionParams._latest[1].date_time:\n            return ReductionParams._latest[1]\n\n        polar_motion = PolarMotion(eops.x_p, eops.y_p)\n        prec_nut = PrecessionNutation(\n            utc_date,"), (RED, _RED_RET_OLD, _RED_RET_NEW), (RED, '    date_time: datetime\n    """The ``datetime`` object that these reduction parameters are valid for."""\n', '    date_time: datetime\n    """The ``datetime`` object that these reduction parameters are valid for."""\n\n    _latest = None\n')])
V("c04-memo-by-minute", "C04", "violation", "C04.R11", edits=[(RED, _RED_OLD, "        if not eops:\n            eops = getEarthOrientationParameters(utc_date.date())\n\n        if ReductionParams._latest is not None and ReductionParams._latest[0] is eops and utc_date.replace(second=0, microsecond=0) == ReductionParams._latest[1].date_time.replace(second=0, microsecond=0):\n            return ReductionParams._latest[1]\n\n        polar_motion = PolarMotion(eops.x_p, eops.y_p)\n        prec_nut = PrecessionNutation(\n            utc_date,"), (RED, _RED_RET_OLD, _RED_RET_NEW), (RED, '    date_time: datetime\n    """The ``datetime`` object that these reduction parameters are valid for."""\n', '    date_time: datetime\n    """The ``datetime`` object that these reduction parameters are valid for."""\n\n    _latest = None\n')])
V("c04-memo-ignores-eops", "C04", "violation", "C04.R11", edits=[(RED, _RED_OLD, "        if not eops:\n            eops = getEarthOrientationParameters(utc_date.date())\n\n        if ReductionParams._latest is not None and utc_date == ReductionParams._latest[1].date_time:\n            return ReductionParams._latest[1]\n\n        polar_motion = PolarMotion(eops.x_p, eops.y_p)\n        prec_nut = PrecessionNutation(\n            utc_date,"), (RED, _RED_RET_OLD, _RED_RET_NEW), (RED, '    date_time: datetime\n    """The ``datetime`` object that these reduction parameters are valid for."""\n', '    date_time: datetime\n    """The ``datetime`` object that these reduction parameters are valid for."""\n\n    _latest = None\n')])
_JD_OLD = "        return self._time.convertToJulianDate(self.julian_date_start)\n\n    @property\n    def datetime_epoch"
_JD_NEW = "        if self._jd_cache is None:\n            self._jd_cache = self._time.convertToJulianDate(self.julian_date_start)\n        return self._jd_cache\n\n    @property\n    def datetime_epoch"
_INIT = ("agents/agent_base.py", "        self._time = clock.time\n", "        self._time = clock.time\n        self._jd_cache = None\n")
V("c09-jd-cache-setter-only", "C09", "violation", "C09.R10", edits=[("agents/agent_base.py", _JD_OLD, _JD_NEW), _INIT, ("agents/agent_base.py", "        self._time = new_time\n", "        self._time = new_time\n        self._jd_cache = None\n")])
V("c09-n-jd-cache-coherent", "C09", "pass", edits=[("agents/agent_base.py", _JD_OLD, _JD_NEW), _INIT, ("agents/agent_base.py", "        self._time = new_time\n", "        self._time = new_time\n        self._jd_cache = None\n"), ("agents/target_agent.py", "        self._time = JulianDate(ephemeris.julian_date).convertToScenarioTime(\n            self.julian_date_start,\n        )\n", "        self.time = JulianDate(ephemeris.julian_date).convertToScenarioTime(\n            self.julian_date_start,\n        )\n"), ("agents/sensing_agent.py", "        self._time = JulianDate(ephemeris.julian_date).convertToScenarioTime(\n            self.julian_date_start,\n        )\n", "        self._time = JulianDate(ephemeris.julian_date).convertToScenarioTime(\n            self.julian_date_start,\n        )\n        self._jd_cache = None\n")])

# ------------------------------------------------------------------------------------ shared spherical-model rule under C02 / C20
V("c02-az-sign-lost", "C02", "violation", "C02.R11", edits=[("physics/measurements.py", "        azimuth = arctan2(slant_range_sez[1], -1.0 * slant_range_sez[0])", "        azimuth = arctan2(slant_range_sez[1], slant_range_sez[0])")])
V("c02-el-wrong-component", "C02", "violation", "C02.R11", edits=[("physics/measurements.py", "    return arcsin(slant_range_sez[2] / norm(slant_range_sez[:3]))", "    return arcsin(slant_range_sez[1] / norm(slant_range_sez[:3]))")])
V("c20-az-args-swapped", "C20", "violation", "C20.R5", edits=[("physics/measurements.py", "        azimuth = arctan2(slant_range_sez[1], -1.0 * slant_range_sez[0])", "        azimuth = arctan2(-1.0 * slant_range_sez[0], slant_range_sez[1])")])
V("c20-s2c-y-from-cos", "C20", "violation", "C20.R5", edits=[("physics/transforms/methods.py", "            rho * c_th * s_phi,\n", "            rho * c_th * c_phi,\n")])

# ------------------------------------------------------------------------------------ C20 (final position provenance)
_IODF = "estimation/initial_orbit_determination.py"
_FS_OLD = "        for observation in observations:\n            if observation.range_km:\n                return radarObs2eciPosition(observation)\n\n        return None\n"
V("c20-n-final-position-mean-of-inverted", "C20", "pass", edits=[(_IODF, _FS_OLD, "        count = 0\n        final_position = None\n        for observation in observations:\n            if observation.range_km:\n                position = radarObs2eciPosition(observation)\n                final_position = position if final_position is None else final_position + position\n                count += 1\n        if final_position is None:\n            return None\n        return final_position / count\n")], note="property-holding (mean over exactly the inverted observations)")
V("c20-final-position-mean-counter-outside-guard", "C20", "violation", "C20.R3", edits=[(_IODF, _FS_OLD, "        count = 0\n        final_position = None\n        for observation in observations:\n            count += 1\n            if observation.range_km:\n                position = radarObs2eciPosition(observation)\n                final_position = position if final_position is None else final_position + position\n        if final_position is None:\n            return None\n        return final_position / count\n")])

# ------------------------------------------------------------------------------------ C12.R9
_CV = "physics/orbits/conversions.py"
_ROT = "    rot_pqw2eci = rot3(-raan).dot(rot1(-inc).dot(rot3(-argp)))\n"
V("c12-equatorial-shortcut-negated-guard", "C12", "violation", "C12.R9", edits=[(_CV, _ROT, "    if not isInclined(inc):\n        rot_pqw2eci = rot3(-raan - argp)\n    else:\n        rot_pqw2eci = rot3(-raan).dot(rot1(-inc).dot(rot3(-argp)))\n")])
V("c12-n-equatorial-shortcut-both-ends", "C12", "no-violation", edits=[(_CV, _ROT, "    if isInclined(inc):\n        rot_pqw2eci = rot3(-raan).dot(rot1(-inc).dot(rot3(-argp)))\n    else:\n        rot_pqw2eci = rot3(-raan).dot(rot1(-(0.0 if inc < 1.0 else inc)).dot(rot3(-argp)))\n")], note="right at both ends; outside the R9 algebra: undecided")

# ------------------------------------------------------------------------------------ round 10 rules
_EST = "estimation/__init__.py"
_UKFF = "estimation/kalman/unscented_kalman_filter.py"
_DI = "data/data_interface.py"
V("c17-detector-factory-memoised", "C17", "violation", "C17.R5", edits=[(_EST, "def maneuverDetectionFactory(", "from functools import cache  # noqa: E402\n\n\n@cache\ndef maneuverDetectionFactory(")])
V("c17-detector-kept-in-class-registry", "C17", "violation", "C17.R5", edits=[(_EST, "    nis_class = _MANEUVER_DETECTION_MAP[config.name]\n    return nis_class.fromConfig(config)\n", "    nis_class = _MANEUVER_DETECTION_MAP[config.name]\n    return _MANEUVER_DETECTION_MAP.setdefault(config.name + \"#instance\", nis_class.fromConfig(config))\n")])
V("c17-n-detector-factory-local", "C17", "pass", edits=[(_EST, "    return nis_class.fromConfig(config)\n", "    detector = nis_class.fromConfig(config)\n    return detector\n")])
V("c19-engine-kept-per-url", "C19", "violation", "C19.R6", edits=[(_DI, "class DataInterface(metaclass=ABCMeta):", "_ENGINES = {}\n\n\nclass DataInterface(metaclass=ABCMeta):"), (_DI, "            self.engine = create_engine(db_path, echo=verbose_echo)\n", "            self.engine = _ENGINES.setdefault(db_path, create_engine(db_path, echo=verbose_echo))\n")])
V("c19-n-engine-through-local", "C19", "pass", edits=[(_DI, "            self.engine = create_engine(db_path, echo=verbose_echo)\n", "            engine = create_engine(db_path, echo=verbose_echo)\n            self.engine = engine\n")])
V("c09-engine-autocommit-isolation", "C09", "violation", "C09.R12", edits=[(_DI, "            self.engine = create_engine(db_path, echo=verbose_echo)\n", "            self.engine = create_engine(db_path, echo=verbose_echo, isolation_level=\"AUTOCOMMIT\")\n")])
V("c09-sessionmaker-autocommit", "C09", "violation", "C09.R12", edits=[(_DI, "sessionmaker(bind=self.engine)", "sessionmaker(bind=self.engine, autocommit=True)")])
V("c09-n-engine-timeout", "C09", "pass", edits=[(_DI, 'connect_args={"check_same_thread": False},', 'connect_args={"check_same_thread": False, "timeout": 30},')])
_MM = "        meas_mean = zeros((measurement_sigma_pts.shape[0],))\n"
V("c06-sigma-axis-by-shape-test", "C06", "violation", "C06.R9", edits=[(_UKFF, _MM, "        if measurement_sigma_pts.shape[0] == self.num_sigmas:\n            measurement_sigma_pts = measurement_sigma_pts.T\n" + _MM)])
V("c06-n-sigma-axis-asserted", "C06", "pass", edits=[(_UKFF, _MM, "        if measurement_sigma_pts.shape[1] != self.num_sigmas:\n            raise ValueError(\"one column per sigma point expected\")\n" + _MM)])
_FC = "            # Performs covariance portion of the update step\n            self.forecast(observations)\n"
V("c16-first-look-per-sensor", "C16", "violation", "C16.R5", edits=[(_UKFF, _FC, "            seen_sensors = set()\n            kept = []\n            for observation in observations:\n                if observation.sensor_id not in seen_sensors:\n                    seen_sensors.add(observation.sensor_id)\n                    kept.append(observation)\n            observations = kept\n" + _FC)])

# ------------------------------------------------------------------------------------ shared freshness rule (C06.R10, C10.R11, C18.R7)
_DYN = "dynamics/__init__.py"
V("c10-two-body-dynamics-singleton", "C10", "violation", "C10.R11", edits=[(_DYN, "def dynamicsFactory(", "_TWO_BODY = {}\n\n\ndef dynamicsFactory("), (_DYN, "            dynamics = TwoBody(method=prop_cfg.integration_method)\n", "            dynamics = _TWO_BODY.setdefault(prop_cfg.integration_method, TwoBody(method=prop_cfg.integration_method))\n")])
V("c06-filter-factory-memoised", "C06", "violation", "C06.R10", edits=[(_EST, "def sequentialFilterFactory(", "from functools import lru_cache  # noqa: E402\n\n\n@lru_cache(maxsize=None)\ndef sequentialFilterFactory(")])
V("c18-adaptive-filter-kept-per-config", "C18", "violation", "C18.R7", edits=[(_EST, "    return _ADAPTIVE_ESTIMATION_MAP[config.name].fromConfig(\n        config,\n        nominal_filter,\n        time_step,\n    )\n", "    kept = _ADAPTIVE_ESTIMATION_MAP.get(config.name + \"#kept\")\n    if kept is None:\n        kept = _ADAPTIVE_ESTIMATION_MAP[config.name].fromConfig(\n            config,\n            nominal_filter,\n            time_step,\n        )\n        _ADAPTIVE_ESTIMATION_MAP[config.name + \"#kept\"] = kept\n    return kept\n")])

# ------------------------------------------------------------------------------------ C18.R8
_SMM = "estimation/adaptive/smm.py"
_APP = "                model_errs.append(abs(measured_range_rate - model_range_rate))\n"
V("c18-preweight-errors-rounded", "C18", "violation", "C18.R8", edits=[(_SMM, _APP, "                model_errs.append(round(abs(measured_range_rate - model_range_rate), 3))\n")])
V("c18-n-preweight-errors-scaled", "C18", "pass", edits=[(_SMM, _APP, "                model_errs.append(1000.0 * abs(measured_range_rate - model_range_rate))\n")])
