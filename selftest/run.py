#!/venv/bin/python
"""Checker validation: run the rules against scratch copies of the package with one instance
broken (expect VIOLATION naming the rule) or neutrally refactored (expect PASS).

Scratch copies live under $TMPDIR/rsa-selftest-<pid>/ (outside /repo and /verif) and are removed
as each variant finishes.  This validates the *checker*; it never changes a property verdict.
"""

import argparse
import concurrent.futures as cf
import json
import os
import shutil
import subprocess
import sys
import tempfile
import time

HERE = os.path.dirname(os.path.abspath(__file__))
VERIF = os.path.dirname(HERE)
sys.path.insert(0, VERIF)
sys.dont_write_bytecode = True


def load_variants():
    from selftest import variants

    return variants.VARIANTS


def apply_variant(v, repo, scratch):
    dst = os.path.join(scratch, "src", "resonaate")
    shutil.copytree(os.path.join(repo, "src", "resonaate"), dst, ignore=shutil.ignore_patterns("__pycache__", "*.pyc", "*.dat", "*.json", "*.bsp", "*.csv", "*.txt"))
    if v.get("revert_commit"):
        diff = subprocess.run(["git", "-C", repo, "show", "--format=", v["revert_commit"], "--", *(v.get("paths") or ["src"])], capture_output=True, text=True, check=True).stdout
        pr = subprocess.run(["patch", "-R", "-p1", "-s", "-d", scratch], input=diff, capture_output=True, text=True)
        if pr.returncode != 0:
            return f"stale: reverse patch of {v['revert_commit']} does not apply: {pr.stdout[:200]}"
    if v.get("patch"):
        pf = os.path.join(VERIF, v["patch"])
        pr = subprocess.run(["patch", "-p1", "-s", "-d", scratch, "-i", pf], capture_output=True, text=True)
        if pr.returncode != 0:
            return f"stale: patch {v['patch']} does not apply: {pr.stdout[:200]}"
    for ed in v.get("edits", []):
        rel, old, new = ed[:3]
        every = len(ed) > 3 and ed[3] == "all"  # replace every occurrence (renames)
        path = os.path.join(scratch, "src", "resonaate", rel)
        with open(path) as fh:
            s = fh.read()
        if (s.count(old) < 1) if every else (s.count(old) != 1):
            return f"stale: anchor text occurs {s.count(old)} times in {rel}: {old[:60]!r}"
        with open(path, "w") as fh:
            fh.write(s.replace(old, new))
    for tx in v.get("transforms") or []:
        # whole-package behaviour-preserving transformations (tools/rename_locals.py, tools/flip_comparisons.py)
        pr = subprocess.run(["/venv/bin/python", "-W", "ignore", os.path.join(VERIF, "tools", tx + ".py"), scratch], capture_output=True, text=True)
        if pr.returncode != 0:
            return f"stale: transform {tx} failed: {pr.stderr[-200:]}"
    # must still compile
    for rel in {e[0] for e in v.get("edits", [])}:
        path = os.path.join(scratch, "src", "resonaate", rel)
        try:
            compile(open(path).read(), path, "exec")
        except SyntaxError as e:
            return f"stale: variant does not compile: {e}"
    return None


def run_variant(args):
    v, repo = args
    base = os.path.join(tempfile.gettempdir(), f"rsa-selftest-{os.getpid()}")
    scratch = tempfile.mkdtemp(prefix=v["name"][:20] + "-", dir=_ensure(base))
    t0 = time.time()
    try:
        err = apply_variant(v, repo, scratch)
        if err:
            return dict(name=v["name"], status="stale", detail=err)
        cmd = [os.path.join(VERIF, "check"), "all" if v["property"] == "ALL" else v["property"], "--repo", scratch, "--no-write"]
        pr = subprocess.run(cmd, capture_output=True, text=True, cwd=VERIF)
        out = pr.stdout + pr.stderr
        rules_hit = sorted({ln.split("rule=")[1].split()[0] for ln in out.splitlines() if ln.strip().startswith("rule=")})
        if v["expect"] == "violation":
            ok = pr.returncode == 1 and (not v.get("rule") or v["rule"] in rules_hit)
        elif v["expect"] == "no-violation":
            # behaviour-preserving rewrite the rules need not understand: undecided is acceptable, an alarm is not
            ok = pr.returncode in (0, 2) and "VIOLATION" not in out
        else:
            ok = pr.returncode == 0 and "VIOLATION" not in out
        return dict(name=v["name"], property=v["property"], expect=v["expect"], rule=v.get("rule"), exit=pr.returncode, rules_hit=rules_hit, ok=ok, wall=round(time.time() - t0, 2), tail=out.strip().splitlines()[-6:] if not ok else [])
    finally:
        shutil.rmtree(scratch, ignore_errors=True)
        try:
            os.rmdir(base)
        except OSError:
            pass


def _ensure(d):
    os.makedirs(d, exist_ok=True)
    return d


def main():
    ap = argparse.ArgumentParser()
    ap.add_argument("--repo", default="/repo")
    ap.add_argument("--property")
    ap.add_argument("--name")
    ap.add_argument("--jobs", type=int, default=16)
    ap.add_argument("--json")
    a = ap.parse_args()
    vs = load_variants()
    if a.property:
        vs = [v for v in vs if v["property"] == a.property]
    elif not a.name:
        pass
    if a.name:
        vs = [v for v in vs if a.name in v["name"]]
    t0 = time.time()
    with cf.ProcessPoolExecutor(max_workers=a.jobs) as ex:
        res = list(ex.map(run_variant, [(v, a.repo) for v in vs]))
    bad = [r for r in res if r.get("status") != "stale" and not r["ok"]]
    stale = [r for r in res if r.get("status") == "stale"]
    for r in res:
        if r.get("status") == "stale":
            print(f"STALE {r['name']}: {r['detail']}")
        elif not r["ok"]:
            print(f"MISS  {r['name']} [{r['property']}] expected {r['expect']} {r.get('rule') or ''} got exit={r['exit']} rules={r['rules_hit']}")
            for ln in r["tail"]:
                print("      " + ln)
    n_b = sum(1 for r in res if r.get("expect") == "violation")
    n_n = sum(1 for r in res if r.get("expect") in ("pass", "no-violation"))
    print(f"selftest: {len(res)} variants ({n_b} breaking, {n_n} neutral), {len(bad)} wrong, {len(stale)} stale, {time.time() - t0:.1f}s")
    if a.json:
        with open(a.json, "w") as fh:
            json.dump(res, fh, indent=1)
    sys.exit(1 if bad or stale else 0)


if __name__ == "__main__":
    main()
