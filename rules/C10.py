"""C10 - truth trajectories depend only on dynamics and initial states (non-interference).

Decides: who-may-write truth state (R1), the post-propagation closure of a step writes no truth
field (R2), own-state submissions (R3), no dynamics aliasing between truth and estimate (R4),
configuration confinement (R5), order of phases (R6), output / call-splitting independence (R7).
Does NOT decide bit-for-bit determinism of SciPy / Ray.
"""

from __future__ import annotations

import ast

from rsa.cfg import cfg_of
from rsa.effects import EffectAnalysis
from rsa.model import AnchorError, Undecided, call_name, dotted_name, unparse, walk_no_nested
from rsa.terms import single_defs
from rsa.util import find_calls, parents_map, require, top_level_stmt

TRUTH_FIELDS = {"_truth_state", "_previous_state", "_time", "propagate_event_queue", "_dynamics", "_station_keeping"}
TRUTH_PROPS = {"eci_state", "time", "dynamics"}
TRUTH_CLASSES = ("TargetAgent", "SensingAgent", "Agent")
# function qualname suffix -> reason
ALLOWED_WRITERS = {
    "Agent.__init__": "construction",
    "TargetAgent.__init__": "construction",
    "SensingAgent.__init__": "construction",
    "TargetAgent.eci_state.setter": "state setter (callers checked)",
    "SensingAgent.eci_state.setter": "state setter (callers checked)",
    "Agent.time.setter": "time setter (callers checked)",
    "TargetAgent.importState": "imported truth",
    "SensingAgent.importState": "imported truth",
    "Agent.appendPropagateEvent": "scheduled truth events",
    "Agent.prunePropagateEvents": "scheduled truth events",
    "PropagateRegistration.processResults": "result of the agent's own propagation job",
}
ALLOWED_SETTER_CALLERS = {
    "PropagateRegistration.processResults": "own propagation result",
    "TargetAgent.importState": "imported truth",
    "SensingAgent.importState": "imported truth",
    "TargetAgent.__init__": "construction",
    "SensingAgent.__init__": "construction",
    "Agent.__init__": "construction",
}
ESTIMATION_SECTIONS = ("estimation", "noise", "observation", "reward", "decision", "engines")


def _is_truth_class(p, cls):
    if cls is None:
        return False
    names = {c.name for c in p.mro(cls)}
    return bool(names & {"TargetAgent", "SensingAgent"}) or cls.name == "Agent"


def rule_r1(chk, p, t):
    r = chk.rule(
        "C10.R1",
        "who may write truth state",
        8,
        "truth fields of target / sensing agents (state, previous state, time, propagation event queue, dynamics) "
        "are written only by construction, the agents' own setters, importState, the event-queue methods and "
        "PropagateRegistration; the setters are called only from those",
    )
    est = p.cls("resonaate.agents.estimate_agent.EstimateAgent")
    n = 0
    for fi in p.all_functions(include_nested=True):
        for node in walk_no_nested(fi.node):
            tgts = []
            if isinstance(node, ast.Assign):
                tgts = list(node.targets)
            elif isinstance(node, (ast.AugAssign, ast.AnnAssign)):
                tgts = [node.target]
            elif isinstance(node, ast.Delete):
                tgts = list(node.targets)
            elif isinstance(node, ast.Call) and isinstance(node.func, ast.Attribute) and node.func.attr in ("append", "extend", "clear", "pop", "remove", "insert"):
                tgts = [node.func.value]
            flat = []
            for tg in tgts:
                if isinstance(tg, (ast.Tuple, ast.List)):
                    flat.extend(tg.elts)
                else:
                    flat.append(tg)
            for tg in flat:
                base = tg.value if isinstance(tg, ast.Subscript) else tg
                if not isinstance(base, ast.Attribute):
                    continue
                attr = base.attr
                if attr not in TRUTH_FIELDS | TRUTH_PROPS:
                    continue
                if isinstance(node, ast.Call) and attr not in ("propagate_event_queue",):
                    continue
                rt = t.expr_type(base.value, fi)
                rcls = rt.cls if rt is not None and rt.kind == "obj" else None
                if rcls is not None and not _is_truth_class(p, rcls):
                    continue  # estimate agents, filters, clocks ... have their own fields of the same name
                if rcls is None:
                    # untyped receiver: is it one of the classes at all?  `self` in a non-agent class is not.
                    if isinstance(base.value, ast.Name) and base.value.id == "self":
                        continue
                    txt = unparse(base.value)
                    if not any(k in txt for k in ("target", "sensor", "agent", "registrant")):
                        continue
                    if "estimate" in txt or "est_" in txt:
                        continue
                    if fi.cls is not None and fi.cls.name == "EstPredictRegistration" or fi.cls is not None and fi.cls.name == "EstUpdateRegistration":
                        continue
                n += 1
                cons = f"{fi.qualname}:{attr}"
                key = None
                for k in ALLOWED_WRITERS:
                    if fi.qualname.endswith(k):
                        key = k
                if key is not None:
                    r.ok(cons, ALLOWED_WRITERS[key], fi.loc(node))
                elif attr in TRUTH_PROPS and any(fi.qualname.endswith(k) for k in ALLOWED_SETTER_CALLERS):
                    r.ok(cons, "allowed caller of a truth setter", fi.loc(node))
                else:
                    # worker-side copies (objects obtained from ray.get inside a remote function)
                    decs = [unparse(d) for d in fi.node.decorator_list]
                    if any("ray.remote" in d for d in decs):
                        r.ok(cons, "write on a worker-side copy (ray deep-copy boundary)", fi.loc(node))
                    else:
                        r.violation(
                            cons,
                            f"truth-write:{attr}",
                            f"`{unparse(node)[:80]}` in {fi.qualname} writes the truth field `{attr}` of a {rcls.name if rcls else 'target/sensor'} agent outside the propagation / import path: the truth trajectory would depend on {fi.module.name.split('.')[1]} settings",
                            fi.loc(node),
                        )
    if n < 8:
        r.error("truth-writes", f"only {n} truth write sites recognised (>= 8 confirmed by hand)")
    _ = est


def rule_r2(chk, p, t):
    r = chk.rule(
        "C10.R2",
        "post-propagation closure writes no truth",
        2,
        "after the propagation join, the closure of stepForward (prediction, event handling, assess, update) has no "
        "write effect on a driver target / sensing agent other than the sensor pointing state and the time-bias "
        "queue; estimation / tasking / sensor / filter code never calls a truth writer",
    )
    ea = EffectAnalysis(p, t)
    step = p.func("Scenario.stepForward")
    joins = [c for c in find_calls(step.node, "join") if "_agent_propagator" in unparse(c)]
    require(len(joins) == 1, "stepForward does not join the agent propagator once", step.node)
    pm = parents_map(step.node)
    jtop = top_level_stmt(step.node, joins[0], pm)
    jidx = step.node.body.index(jtop)
    allowed_suffix = (".sensors.boresight", ".sensors.time_last_tasked", ".sensor_time_bias_event_queue")
    effs = ea.effects(step)
    post = [e for e in effs if getattr(e.node, "lineno", 0) > jtop.lineno or (e.chain and True)]
    bad = []
    seen = 0
    for e in effs:
        path = e.path
        if not (path.startswith("self.target_agents[*]") or path.startswith("self.sensor_agents[*]") or path.startswith("self._sensor_agents[*]")):
            continue
        seen += 1
        rest = path.split("[*]", 1)[1]
        if rest.endswith(allowed_suffix) or rest in allowed_suffix:
            continue
        if rest == ".propagate_event_queue":
            # queued by the pre-tick event loop only
            top = None
            for c in find_calls(step.node, "handleEvent"):
                top = top_level_stmt(step.node, c, pm)
                if step.node.body.index(top) < jidx:
                    break
            if top is not None and step.node.body.index(top) < jidx:
                continue
        if rest == "":
            continue  # dict-level add/remove of agents by scenario events
        first = rest.lstrip(".").split(".")[0].split("[")[0]
        if first not in TRUTH_FIELDS | TRUTH_PROPS:
            continue  # not a truth field (fan-out of event handlers of other scopes, derived caches)
        bad.append(e)
    if bad:
        e = bad[0]
        r.violation(step.qualname + ":closure", f"truth-effect:{e.path}:{e.kind}", f"the step's closure has a `{e.kind}` effect on `{e.path}` ({e.loc()}, via {list(e.chain)[-2:]}) outside the propagation phase", e.loc())
    else:
        r.ok(step.qualname + ":closure", f"{seen} effects on driver agents, all pointing state / time-bias queue / pre-tick event queue", step.loc())
    _ = post
    # estimation / tasking / sensor / filter modules never call a truth writer on a truth agent
    writer_names = {"importState", "appendPropagateEvent", "prunePropagateEvents"}
    n_mod = 0
    for fi in p.all_functions(include_nested=True):
        if not fi.module.name.startswith(("resonaate.estimation", "resonaate.tasking", "resonaate.sensors", "resonaate.physics")):
            continue
        n_mod += 1
        for c in walk_no_nested(fi.node):
            if isinstance(c, ast.Call) and isinstance(c.func, ast.Attribute) and c.func.attr in writer_names:
                r.violation(f"{fi.qualname}:{c.func.attr}", f"writer-called:{c.func.attr}", f"`{unparse(c)[:70]}`: estimation / tasking / sensor code calls a truth writer", fi.loc(c))
    r.ok("estimation-tasking-sensors:no-writer-calls", f"{n_mod} functions call none of {sorted(writer_names)}", "")


def rule_r3(chk, p, t):
    r = chk.rule(
        "C10.R3",
        "own-state submissions",
        2,
        "PropagateRegistration.generateSubmission reads only the registrant's own fields and processResults writes "
        "only the registrant",
    )
    reg = p.cls("resonaate.parallel.agent_propagation.PropagateRegistration")
    gen = reg.methods.get("generateSubmission")
    pr = reg.methods.get("processResults")
    ea = EffectAnalysis(p, t)

    def one():
        subs = [c for c in walk_no_nested(gen.node) if isinstance(c, ast.Call) and call_name(c) == "PropagateSubmission"]
        require(len(subs) == 1, "one PropagateSubmission expected", gen.node)
        bad = []
        for k in subs[0].keywords:
            names = {n.id for n in ast.walk(k.value) if isinstance(n, ast.Name)}
            roots = set()
            for n in ast.walk(k.value):
                if isinstance(n, ast.Attribute):
                    d = dotted_name(n)
                    if d:
                        roots.add(".".join(d.split(".")[:2]))
            if names - {"self"} or any(rt != "self._registrant" for rt in roots if rt.startswith("self")):
                bad.append(f"{k.arg}={unparse(k.value)}")
        exp = {"agent_id": "simulation_id", "dynamics": "dynamics", "init_eci": "eci_state", "station_keeping": "station_keeping", "scheduled_events": "propagate_event_queue"}
        kws = {k.arg: unparse(k.value) for k in subs[0].keywords}
        for k, a in exp.items():
            if kws.get(k) != f"self._registrant.{a}":
                bad.append(f"{k}={kws.get(k)}")
        if bad:
            r.violation(gen.qualname, "submission:" + ";".join(bad), f"the propagation job is not built from the registrant's own state only: {bad}", gen.loc(subs[0]))
        else:
            r.ok(gen.qualname, "submission built from self._registrant.* only", gen.loc(subs[0]))

    r.guard(gen.qualname, one)

    def two():
        effs = ea.effects(pr)
        other = [e for e in effs if not e.path.startswith("self._registrant")]
        asg = {}
        for n in walk_no_nested(pr.node):
            if isinstance(n, ast.Assign):
                asg[unparse(n.targets[0])] = unparse(n.value)
        res = pr.params[1]
        ok = asg.get("self._registrant.time") == f"{res}.final_time" and asg.get("self._registrant.eci_state") == f"{res}.final_eci"
        if other:
            r.violation(pr.qualname, f"foreign-write:{other[0].path}", f"processResults writes `{other[0].path}`, not only its own registrant", other[0].loc())
        elif not ok:
            r.violation(pr.qualname, f"result-slots:{sorted(asg.items())}", "the registrant's time / state are not taken from the result's final_time / final_eci", pr.loc())
        else:
            r.ok(pr.qualname, "registrant.time, registrant.eci_state <- its own result", pr.loc())

    r.guard(pr.qualname, two)
    w = p.func("resonaate.parallel.agent_propagation.asyncPropagate")

    def three():
        calls = find_calls(w.node, "propagate")
        require(len(calls) == 1, "one propagate call expected", w.node)
        c = calls[0]
        sub = w.params[0]
        args = [unparse(a) for a in c.args]
        kws = {k.arg: unparse(k.value) for k in c.keywords}
        ok = unparse(c.func.value) == f"{sub}.dynamics" and args == [f"{sub}.init_time", f"{sub}.final_time", f"{sub}.init_eci"] and kws.get("station_keeping") == f"{sub}.station_keeping" and kws.get("scheduled_events") == f"{sub}.scheduled_events"
        res = [x for x in walk_no_nested(w.node) if isinstance(x, ast.Call) and call_name(x) == "PropagateResult"]
        rk = {k.arg: unparse(k.value) for k in res[0].keywords} if res else {}
        defs = single_defs(w.node)
        fe = rk.get("final_eci")
        ok2 = rk.get("agent_id") == f"{sub}.agent_id" and rk.get("final_time") == f"{sub}.final_time" and fe in defs and defs[fe] is c
        if ok and ok2:
            r.ok(w.qualname, "propagates the submitted state with the submitted dynamics / events and returns it under the same agent id", w.loc())
        else:
            r.violation(w.qualname, f"worker:{args}:{sorted(kws.items())}:{sorted(rk.items())}", "the propagation worker does not propagate exactly the submitted state / return it under the submitted id", w.loc())

    r.guard(w.qualname, three)


def rule_r4_r5(chk, p, t):
    r4 = chk.rule(
        "C10.R4",
        "no dynamics aliasing",
        3,
        "every dynamics object given to an agent is the result of its own dynamicsFactory call; truth and estimate "
        "agents never share one",
    )
    r5 = chk.rule(
        "C10.R5",
        "configuration confinement",
        4,
        "arguments reaching dynamicsFactory / TargetAgent.fromConfig / SensingAgent.fromConfig for truth agents come "
        "only from the propagation, geopotential, perturbations and time sections and the agent's own config; the "
        "estimate's propagation settings are a deep copy",
    )
    # the factory itself hands out a fresh object per call
    fac = p.func("resonaate.dynamics.dynamicsFactory")

    def fresh():
        def fresh_expr(e, fi, depth=0):
            """None if ``e`` is certainly a newly constructed object, else a reason."""
            if not isinstance(e, ast.Call):
                return f"`{unparse(e)[:60]}` is not a constructor call"
            tgs = t.callees(e, fi)
            if isinstance(e.func, ast.Name) and p.has_cls(e.func.id) if hasattr(p, "has_cls") else False:
                return None
            from rsa.model import ClassInfo, FunctionInfo

            if any(isinstance(x, ClassInfo) for x in tgs) or any(isinstance(x, FunctionInfo) and x.name == "__init__" for x in tgs):
                return None
            fns_ = [x for x in tgs if isinstance(x, FunctionInfo)]
            if len(fns_) == 1 and depth < 2:
                h = fns_[0]
                rets = [n for n in walk_no_nested(h.node) if isinstance(n, ast.Return) and n.value is not None]
                if not rets:
                    return f"{h.qualname} returns nothing"
                defs = single_defs(h.node)
                for rt in rets:
                    v = defs.get(rt.value.id, rt.value) if isinstance(rt.value, ast.Name) else rt.value
                    if isinstance(v, ast.Call) and unparse(v.func) == "cls":
                        continue
                    why = fresh_expr(v, h, depth + 1)
                    if why:
                        return f"{h.name}() returns `{unparse(rt.value)[:50]}`: {why}"
                return None
            return f"`{unparse(e)[:60]}` could not be resolved to a constructor"

        asg = [n for n in walk_no_nested(fac.node) if isinstance(n, ast.Assign) and isinstance(n.targets[0], ast.Name) and n.targets[0].id == "dynamics"]
        rets = [n for n in walk_no_nested(fac.node) if isinstance(n, ast.Return) and n.value is not None]
        require(rets and all(isinstance(x.value, ast.Name) and x.value.id == "dynamics" for x in rets) and asg, "dynamicsFactory does not return its local `dynamics`", fac.node)
        bad = [(a, fresh_expr(a.value, fac)) for a in asg]
        bad = [(a, w) for a, w in bad if w]
        if bad:
            a, w = bad[0]
            r4.violation(fac.qualname + ":fresh", f"factory-not-fresh:{unparse(a.value)[:50]}", f"dynamicsFactory hands out `{unparse(a.value)[:70]}` which is not a newly constructed object ({w}): agents built with equal settings share one dynamics object, so agent-specific state (area-to-mass ratio, armed thrust, start date) of one agent drives the truth of another and removing an agent changes the rest", fac.loc(a))
        else:
            r4.ok(fac.qualname + ":fresh", f"{len(asg)} branches, each a constructor call", fac.loc())

    r4.guard(fac.qualname + ":fresh", fresh)
    fns = [p.func("ScenarioBuilder._initTargets"), p.func("ScenarioBuilder._initEstimates"), p.func("ScenarioBuilder._initSensors"), p.func("Scenario._addTargetConf"), p.func("Scenario._addSensorConf")]
    for fn in fns:

        def one(fn=fn):
            facs = [n for n in walk_no_nested(fn.node) if isinstance(n, ast.Assign) and isinstance(n.value, ast.Call) and call_name(n.value) == "dynamicsFactory" and isinstance(n.targets[0], ast.Name)]
            require(facs, "no dynamicsFactory call", fn.node)
            ctors = [c for c in walk_no_nested(fn.node) if isinstance(c, ast.Call) and call_name(c) == "fromConfig"]
            uses = {}
            for c in ctors:
                for k in c.keywords:
                    if k.arg == "dynamics":
                        uses.setdefault(unparse(k.value), []).append(c)
            names = [f.targets[0].id for f in facs]
            bad = []
            if len(set(names)) != len(names):
                bad.append("one local holds the result of several dynamicsFactory calls")
            for nm in names:
                if len(uses.get(nm, [])) != 1:
                    bad.append(f"`{nm}` is given to {len(uses.get(nm, []))} agents")
            for u in uses:
                if u not in names:
                    bad.append(f"an agent gets `{u}` as dynamics, which is not a fresh dynamicsFactory result")
            if bad:
                r4.violation(fn.qualname, "aliasing:" + ";".join(bad), "dynamics objects are shared between agents: " + "; ".join(bad), fn.loc())
            else:
                r4.ok(fn.qualname, f"{len(names)} dynamicsFactory result(s), each given to exactly one agent", fn.loc())
            # confinement
            for f in facs:
                kind = "estimate" if any(unparse(c.func.value) == "EstimateAgent" for c in uses.get(f.targets[0].id, [])) else "truth"
                args = [unparse(a) for a in f.value.args]
                cons = f"{fn.qualname}:{f.targets[0].id}"
                if kind == "truth":
                    leak = [a for a in args if any(f".{s}" in a for s in ESTIMATION_SECTIONS) or "est_" in a]
                    shape = len(args) == 5 and args[1].endswith(".propagation") and args[2].endswith(".geopotential") and args[3].endswith(".perturbations") and args[4].endswith("clock")
                    if leak or not shape:
                        r5.violation(cons, f"truth-dynamics-config:{args}", f"truth dynamics are built from {args}: expected (agent config, propagation, geopotential, perturbations, clock) and nothing from the estimation / noise / observation / tasking sections", fn.loc(f))
                    else:
                        r5.ok(cons, "truth dynamics from propagation / geopotential / perturbations / clock", fn.loc(f))
                else:
                    # estimate: its propagation config must be a deep copy before it is modified
                    prop = args[1] if len(args) > 1 else ""
                    defs = {}
                    for n in walk_no_nested(fn.node):
                        if isinstance(n, ast.Assign) and isinstance(n.targets[0], ast.Name):
                            defs.setdefault(n.targets[0].id, []).append(n.value)
                    d = defs.get(prop, [])
                    mods = [n for n in walk_no_nested(fn.node) if isinstance(n, ast.Assign) and isinstance(n.targets[0], ast.Attribute) and unparse(n.targets[0].value) == prop]
                    # a deep copy always isolates; a shallow copy isolates when only top-level fields are rebound
                    shallow_mods = all(isinstance(n.targets[0].value, ast.Name) for n in mods)

                    def copies(e):
                        if not isinstance(e, ast.Call):
                            return False
                        cn = call_name(e)
                        if cn == "deepcopy":
                            return True
                        deep_kw = any(k.arg == "deep" and isinstance(k.value, ast.Constant) and k.value.value is True for k in e.keywords)
                        if cn in ("model_copy", "copy") and (deep_kw or shallow_mods):
                            return True
                        return False

                    is_copy = len(d) == 1 and copies(d[0])
                    if mods and not is_copy:
                        r5.violation(cons, f"estimate-config-aliased:{prop}", f"`{unparse(mods[0])}` modifies the propagation settings that truth dynamics are built from (no deepcopy): the estimation model leaks into the truth of agents added later", fn.loc(mods[0]))
                    else:
                        r5.ok(cons, "estimate dynamics from a deep copy of the propagation settings", fn.loc(f))
            # truth agent constructors
            for c in ctors:
                cls = unparse(c.func.value)
                if cls in ("TargetAgent", "SensingAgent"):
                    kws = {k.arg: unparse(k.value) for k in c.keywords}
                    leak = {k: v for k, v in kws.items() if any(f".{s}" in v for s in ESTIMATION_SECTIONS)}
                    cons = f"{fn.qualname}:{cls}.fromConfig"
                    if leak or set(kws) - {"tgt_cfg", "sen_cfg", "clock", "dynamics", "prop_cfg"}:
                        r5.violation(cons, f"truth-agent-config:{sorted(kws.items())}", f"{cls}.fromConfig receives {kws}: truth agents must be built from their own config, the clock, their dynamics and the propagation section only", fn.loc(c))
                    else:
                        r5.ok(cons, f"built from {sorted(kws)}", fn.loc(c))

        r4.guard(fn.qualname, one)


def rule_r6(chk, p, t):
    r = chk.rule(
        "C10.R6",
        "order of phases",
        3,
        "in stepForward the truth propagation (enqueue, import, join) is unconditional and precedes the first "
        "estimation / tasking statement",
    )
    step = p.func("Scenario.stepForward")

    def one():
        cfg = cfg_of(step)
        pm = parents_map(step.node)
        joins = [c for c in find_calls(step.node, "join") if "_agent_propagator" in unparse(c)]
        require(len(joins) == 1, "one propagation join expected", step.node)
        jn = cfg.node_of(joins[0])
        if cfg.must_pass(cfg.exit.id, via_nodes=[jn.id]) and top_level_stmt(step.node, joins[0], pm).value is joins[0]:
            r.ok(step.qualname + ":join", "propagation join on every path", step.loc(joins[0]))
        else:
            r.violation(step.qualname + ":join", "join-conditional", "truth propagation is joined only conditionally: whether truth advances would depend on other settings", step.loc(joins[0]))
        later = []
        for nm in ("_estimate_predictor", "_estimate_updater", "assess", "setHandles"):
            for c in [x for x in walk_no_nested(step.node) if isinstance(x, ast.Call) and nm in unparse(x.func)]:
                later.append(c)
        bad = [c for c in later if not cfg.must_pass(cfg.node_of(c).id, via_nodes=[jn.id])]
        if bad:
            r.violation(step.qualname + ":order", f"estimation-before-join:{unparse(bad[0])[:50]}", f"`{unparse(bad[0])[:60]}` can run before the truth propagation has been joined", step.loc(bad[0]))
        else:
            r.ok(step.qualname + ":order", f"{len(later)} estimation / tasking statements all dominated by the join", step.loc())
        enq = [c for c in find_calls(step.node, "enqueueJob") if "PropagateRegistration" in unparse(c)]
        conds_ok = True
        for c in enq:
            for cid, lab in cfg.control_conditions(cfg.node_of(c).id):
                tst = unparse(cfg.nodes[cid].ast)
                if cfg.nodes[cid].kind == "cond" and "realtime" not in tst:
                    conds_ok = False
        if len(enq) == 2 and conds_ok:
            r.ok(step.qualname + ":enqueue", "targets and sensors are propagated whenever they are realtime agents, under no other condition", step.loc())
        else:
            r.violation(step.qualname + ":enqueue", f"enqueue-conditions:{len(enq)}:{conds_ok}", "truth propagation jobs are enqueued under a condition other than the agent's own realtime flag", step.loc())

    r.guard(step.qualname, one)


def rule_r7(chk, p, t):
    r = chk.rule(
        "C10.R7",
        "output cadence and call splitting",
        3,
        "the closure of saveDatabaseOutput writes no truth field; propagateTo keeps no per-call state that the step "
        "reads; the filter / tasking never hands back an object that aliases a driver truth agent",
    )
    ea = EffectAnalysis(p, t)
    sdo = p.func("Scenario.saveDatabaseOutput")
    effs = ea.effects(sdo)
    bad = [e for e in effs if (e.path.startswith("self.target_agents[*]") or e.path.startswith("self.sensor_agents[*]")) and e.path.split("[*]", 1)[1] != ""]
    if bad:
        r.violation(sdo.qualname, f"output-writes-truth:{bad[0].path}", f"saving output has a `{bad[0].kind}` effect on `{bad[0].path}`: the output cadence would change the truth", bad[0].loc())
    else:
        r.ok(sdo.qualname, f"{len(effs)} effects, none on a truth agent", sdo.loc())
    # nothing the output path assigns is read by the step (accumulating into an output buffer is not a read)
    step = p.func("Scenario.stepForward")
    from rsa.util import parents_map

    pm_s = parents_map(step.node)
    reads = {}
    for n in walk_no_nested(step.node):
        if isinstance(n, ast.Attribute) and isinstance(n.value, ast.Name) and n.value.id == "self" and isinstance(n.ctx, ast.Load):
            par = pm_s.get(n)
            accum = (isinstance(par, ast.Subscript) and isinstance(par.ctx, ast.Store)) or (isinstance(par, ast.Attribute) and par.attr in ("append", "extend", "update", "add") and isinstance(pm_s.get(par), ast.Call))
            if not accum:
                reads.setdefault(n.attr, n)
    assigned = {}
    for n in walk_no_nested(sdo.node):
        if isinstance(n, (ast.Assign, ast.AugAssign, ast.AnnAssign)):
            for tg in n.targets if isinstance(n, ast.Assign) else [n.target]:
                if isinstance(tg, ast.Attribute) and isinstance(tg.value, ast.Name) and tg.value.id == "self":
                    assigned.setdefault(tg.attr, n)
    shared = sorted(set(assigned) & set(reads))
    if shared:
        f = shared[0]
        r.violation(sdo.qualname + ":step-state", f"output-assigns-step-state:{f}", f"saveDatabaseOutput assigns `self.{f}` (`{unparse(assigned[f])[:60]}`) and stepForward reads it (`{unparse(pm_s.get(reads[f], reads[f]))[:60]}`): what a step does depends on when output was last written, i.e. on the output cadence", sdo.loc(assigned[f]))
    else:
        r.ok(sdo.qualname + ":step-state", f"saveDatabaseOutput assigns {sorted(assigned)}; stepForward reads none of them", sdo.loc())
    pt = p.func("Scenario.propagateTo")
    direct = []
    for n in walk_no_nested(pt.node):
        tg = None
        if isinstance(n, ast.Assign):
            tg = n.targets[0]
        elif isinstance(n, ast.AugAssign):
            tg = n.target
        if tg is not None:
            base = tg.value if isinstance(tg, ast.Subscript) else tg
            if isinstance(base, ast.Attribute) and unparse(base).startswith("self."):
                direct.append(n)
    if direct:
        r.violation(pt.qualname, f"per-call-state:{unparse(direct[0])[:50]}", f"propagateTo keeps state between calls (`{unparse(direct[0])[:60]}`): splitting a run into several calls could change it", pt.loc(direct[0]))
    else:
        r.ok(pt.qualname, "no attribute of the scenario is written by propagateTo itself", pt.loc())
    # the step loop has no first-iteration special case
    loops = [n for n in walk_no_nested(pt.node) if isinstance(n, ast.For)]
    if len(loops) == 1 and isinstance(loops[0].target, ast.Name):
        var = loops[0].target.id
        leak = []
        for c in find_calls(loops[0], "stepForward"):
            if any(isinstance(x, ast.Name) and x.id == var for x in ast.walk(c)):
                leak.append(unparse(c))
        if leak:
            r.violation(pt.qualname + ":loop", "iteration-dependent-step", f"the loop counter flows into the step (`{leak[0]}`): steps of one call are not all alike", pt.loc())
        else:
            r.ok(pt.qualname + ":loop", "the loop counter never reaches stepForward: every iteration is the same step", pt.loc(loops[0]))
    else:
        r.violation(pt.qualname + ":loop", "iteration-dependent-step", "propagateTo has no single step loop", pt.loc())


def rule_r8(chk, p, t):
    """Process-wide state: class attributes and module globals of the code truth propagation executes."""
    from rsa import memo

    r = chk.rule(
        "C10.R8",
        "nothing configures the truth dynamics through class-level or module-level state",
        1,
        "truth and estimate dynamics are instances of the same classes and run in the same (worker) processes, so the only "
        "state they may share is constant: no function or method anywhere in the package assigns, at run time, an attribute "
        "of a class object (cls.X = ..., Class.X = ..., type(self).X = ..., setattr on a class) or a module global of the "
        "modules truth propagation executes (dynamics.*, physics.*) unless the assigned value does not depend on the "
        "function's parameters (lazily built constant registries). A class-level tolerance, switch or table set from the "
        "estimation side changes the next truth propagation served by that process",
        "state shared through the file system or the database",
    )
    PREFIX = ("resonaate.dynamics", "resonaate.physics")
    n_fn = n_w = 0
    for fi in p.all_functions(include_nested=True):
        n_fn += 1
        params, selfname = memo._params(fi)
        for n in walk_no_nested(fi.node):
            tgts, val = [], None
            if isinstance(n, ast.Assign):
                tgts, val = n.targets, n.value
            elif isinstance(n, (ast.AnnAssign, ast.AugAssign)) and n.value is not None:
                tgts, val = [n.target], n.value
            elif isinstance(n, ast.Expr) and isinstance(n.value, ast.Call) and call_name(n.value) == "setattr" and len(n.value.args) == 3:
                a0 = n.value.args[0]
                if unparse(a0) in ("cls", "type(self)", "self.__class__") or (isinstance(a0, ast.Name) and p.resolve_dotted(fi.module, a0.id) in p.classes):
                    tgts, val = [ast.Attribute(value=a0, attr=unparse(n.value.args[1]), ctx=ast.Store())], n.value.args[2]
            for tg in tgts:
                base = tg
                while isinstance(base, ast.Subscript):
                    base = base.value
                owner = None
                if isinstance(base, ast.Attribute):
                    b = base.value
                    if isinstance(b, ast.Name) and b.id == "cls" and selfname == "cls" and fi.cls is not None:
                        owner = fi.cls
                    elif unparse(b) in ("type(self)", "self.__class__") and fi.cls is not None:
                        owner = fi.cls
                    elif isinstance(b, ast.Name):
                        q = p.resolve_dotted(fi.module, b.id)
                        owner = p.classes.get(q)
                    if owner is None:
                        continue
                    # the write lands on the class it is called on: every class of the hierarchy below the owner
                    hier = [owner] + list(p.subclasses(owner)) + list(p.mro(owner))
                    if not any(c.module.name.startswith(PREFIX) for c in hier):
                        continue
                    where = f"{owner.name}.{base.attr}"
                elif isinstance(base, ast.Name):
                    loc = memo._location(fi, base, p, selfname)
                    if loc is None or loc[0] != "global" or not fi.module.name.startswith(PREFIX):
                        continue
                    if isinstance(tg, ast.Name) and not any(isinstance(g, ast.Global) and tg.id in g.names for g in walk_no_nested(fi.node)):
                        continue
                    where = f"{fi.module.name}.{base.id}"
                else:
                    continue
                n_w += 1
                deps = memo.param_deps(fi, val) if val is not None else []
                if isinstance(tg, ast.Subscript):
                    deps = sorted(set(deps) | set(memo.param_deps(fi, tg.slice)))
                cons = f"{fi.qualname}:{where}"
                if deps and isinstance(tg, ast.Subscript):
                    from rsa.terms import inline_locals

                    key = inline_locals(fi, tg.slice)
                    vdeps = memo.param_deps(fi, val) if val is not None else []
                    if all(memo.injective_in(key, q) is True for q in vdeps):
                        r.ok(cons, f"`{where}[{unparse(tg.slice)}]`: a table keyed by the very arguments its entries are computed from", fi.loc(n))
                        continue
                if deps:
                    r.violation(cons, f"class-state:{where}", f"{fi.qualname} assigns the class-level / module-level `{where}` from its parameter(s) {deps}: every instance of that class in the process - the truth dynamics as well as the estimate's - sees the new value from then on, so a truth trajectory depends on what else ran in that process (which filter, whether estimation ran, which worker served the job)", fi.loc(n))
                else:
                    r.ok(cons, f"`{where}` is assigned a value independent of the caller's arguments (constant / lazily built table)", fi.loc(n))
    if n_w == 0:
        r.ok("package", f"{n_fn} functions scanned: no run-time assignment to class-level or module-level state of dynamics.* / physics.*")


_DYNAMICS_FIELDS = {
    # configuration fields that parameterise the truth propagation (C10.R5 lists the sections) - per config class
    "TimeConfig": {"physics_step_sec", "start_timestamp", "stop_timestamp"},
    "PropagationConfig": {"propagation_model", "integration_method", "station_keeping", "target_realtime_propagation", "sensor_realtime_propagation"},
    "GeopotentialConfig": {"model", "degree", "order"},
    "PerturbationsConfig": {"third_bodies", "solar_radiation_pressure", "general_relativity"},
}
_CONFIG_SELFTEST = """
class TimeConfig:
    def output_on_physics_steps(self):
        if self.output_step_sec < self.physics_step_sec:
            self.physics_step_sec = self.output_step_sec
        return self
"""


def _config_field_writes(cls_node, fields):
    """[(method name, field, value expr, node)] for assignments to self.<field> / values["<field>"] inside methods."""
    out = []
    for m in cls_node.body:
        if not isinstance(m, (ast.FunctionDef, ast.AsyncFunctionDef)):
            continue
        for n in ast.walk(m):
            tgs, val = [], None
            if isinstance(n, ast.Assign):
                tgs, val = n.targets, n.value
            elif isinstance(n, (ast.AugAssign, ast.AnnAssign)) and getattr(n, "value", None) is not None:
                tgs, val = [n.target], n.value
            for tg in tgs:
                if isinstance(tg, ast.Attribute) and tg.attr in fields and isinstance(tg.value, ast.Name) and tg.value.id in ("self", "cls", "values", "data", "model"):
                    out.append((m.name, tg.attr, val, n))
                if isinstance(tg, ast.Subscript) and isinstance(tg.slice, ast.Constant) and tg.slice.value in fields:
                    out.append((m.name, tg.slice.value, val, n))
            if isinstance(n, ast.Call) and call_name(n) in ("setattr", "__setattr__") and len(n.args) >= 3 and isinstance(n.args[-2], ast.Constant) and n.args[-2].value in fields:
                out.append((m.name, n.args[-2].value, n.args[-1], n))
    return out


def _with_flow(cls_node, mname, val, write_node):
    """The written value together with everything it is computed from inside the method: the definitions and in-place
    modifications (`x.append(..)`, `x += ..`, `x[k] = ..`) of every local that flows into it, and the tests of the
    `if` / `while` statements those statements - and the write itself - sit under (a value appended only when another
    setting is switched on depends on that setting).  Returned as one tuple expression, to be scanned for field reads."""
    m = next((x for x in cls_node.body if isinstance(x, (ast.FunctionDef, ast.AsyncFunctionDef)) and x.name == mname), None)
    if m is None or val is None:
        return val
    parents = {}
    for n in ast.walk(m):
        for c in ast.iter_child_nodes(n):
            parents[id(c)] = n

    def tests_over(n):
        out = []
        cur = parents.get(id(n))
        prev = n
        while cur is not None and cur is not m:
            if isinstance(cur, (ast.If, ast.While)) and prev is not cur.test:
                out.append(cur.test)
            if isinstance(cur, ast.IfExp) and prev is not cur.test:
                out.append(cur.test)
            prev, cur = cur, parents.get(id(cur))
        return out

    parts = [val] + tests_over(write_node)
    flow = {x.id for x in ast.walk(val) if isinstance(x, ast.Name)} - {"self", "cls", "values", "data", "model"}
    seen_stmts = set()
    for _round in range(6):
        grew = False
        for n in ast.walk(m):
            src = None
            if isinstance(n, ast.Assign) and any(isinstance(tg, ast.Name) and tg.id in flow for tg in n.targets):
                src = n.value
            elif isinstance(n, ast.Assign) and any(isinstance(tg, ast.Subscript) and isinstance(tg.value, ast.Name) and tg.value.id in flow for tg in n.targets):
                src = ast.Tuple(elts=[n.value] + [tg.slice for tg in n.targets if isinstance(tg, ast.Subscript)], ctx=ast.Load())
            elif isinstance(n, (ast.AugAssign, ast.AnnAssign)) and isinstance(n.target, ast.Name) and n.target.id in flow and n.value is not None:
                src = n.value
            elif isinstance(n, ast.Call) and isinstance(n.func, ast.Attribute) and isinstance(n.func.value, ast.Name) and n.func.value.id in flow and n.func.attr in ("append", "extend", "insert", "add", "update", "remove", "discard", "pop", "setdefault"):
                src = ast.Tuple(elts=list(n.args) + [k.value for k in n.keywords], ctx=ast.Load())
            if src is None or id(n) in seen_stmts:
                continue
            seen_stmts.add(id(n))
            parts += [src] + tests_over(n)
            new = {x.id for p_ in [src] + tests_over(n) for x in ast.walk(p_) if isinstance(x, ast.Name)} - {"self", "cls", "values", "data", "model"}
            if not new <= flow:
                flow |= new
                grew = True
        if not grew:
            break
    return ast.Tuple(elts=parts, ctx=ast.Load())


def rule_r9(chk, p, t, rid="C10.R9", only=None):
    r = chk.rule(
        rid,
        "the configured propagation parameters are what the user wrote: no validator derives them from other settings",
        4 if only is None else len(only),
        "the physics step, the propagation model, the geopotential degree / order and the perturbation switches reach the "
        "truth dynamics as configuration fields (R5).  A validator or method of their configuration class that assigns one "
        "of them from *another* field (`if output_step_sec < physics_step_sec: physics_step_sec = output_step_sec`) lets a "
        "reporting or estimation setting decide how the truth is integrated: two scenarios with the same dynamics, agents "
        "and initial states then produce different trajectories.  Every write of such a field inside its class may depend "
        "on that field only (normalisation of its own value)",
        "what pydantic itself does with the raw input",
    )
    n_cls = 0
    for mod in sorted(p.modules.values(), key=lambda m: m.name):
        if not mod.name.startswith("resonaate.scenario.config"):
            continue
        for ci in mod.classes.values():
            fields = _DYNAMICS_FIELDS.get(ci.name)
            if not fields or (only is not None and ci.name not in only):
                continue
            n_cls += 1
            bad = []
            for mname, fld, val, node in _config_field_writes(ci.node, fields):
                val = _with_flow(ci.node, mname, val, node)
                reads = {x.attr for x in ast.walk(val) if isinstance(x, ast.Attribute) and isinstance(x.value, ast.Name) and x.value.id in ("self", "cls", "values", "data", "model")} | {x.slice.value for x in ast.walk(val) if isinstance(x, ast.Subscript) and isinstance(x.slice, ast.Constant) and isinstance(x.slice.value, str)}
                other = sorted(reads - {fld})
                if rid.startswith("C10"):
                    # one dynamics setting derived from another one of the same section is still a function of the dynamics
                    # settings (whether the force model is then the configured one is C13's question: C13.R9)
                    other = [o for o in other if o not in fields]
                if other:
                    bad.append((mname, fld, other, node))
            if bad:
                mname, fld, other, node = bad[0]
                r.violation(ci.qualname, f"derived-dynamics-setting:{fld}<-{','.join(other)}", f"{ci.name}.{mname} sets `{fld}` from {other}: a setting that does not belong to the dynamics decides how the truth is propagated", f"{mod.relpath}:{node.lineno}")
            else:
                r.ok(ci.qualname, f"fields {sorted(fields)} are never derived from other settings", ci.loc())
    if n_cls < (4 if only is None else len(only)):
        r.error("config-classes", f"only {n_cls} of the propagation configuration classes found")
    tree = ast.parse(_CONFIG_SELFTEST)
    if len(_config_field_writes(tree.body[0], _DYNAMICS_FIELDS["TimeConfig"])) != 1:
        r.error("selftest", "the embedded positive example is not recognised")


_CLASS_DEFAULT_SELFTEST = """
class Agent:
    queue: list = []
    LABELS = ("a", "b")
    table = {}

    def push(self, e):
        self.queue.append(e)

    def look(self, k):
        return self.table.get(k)
"""


def _shared_mutable_defaults(cls_node, all_methods):
    """[(attribute, class-level statement, mutating node)] for class-body attributes bound to a mutable object (list / dict
    / set display or constructor) that some method modifies in place through an instance (`self.X.append`, `self.X[k] =`,
    `self.X += ...`)."""
    from rsa.inplace import _MUT_METHODS

    out = []
    for st in cls_node.body:
        tg = val = None
        if isinstance(st, ast.Assign) and len(st.targets) == 1 and isinstance(st.targets[0], ast.Name):
            tg, val = st.targets[0].id, st.value
        elif isinstance(st, ast.AnnAssign) and isinstance(st.target, ast.Name) and st.value is not None:
            tg, val = st.target.id, st.value
        if tg is None:
            continue
        mutable = isinstance(val, (ast.List, ast.Dict, ast.Set, ast.ListComp, ast.DictComp, ast.SetComp)) or (isinstance(val, ast.Call) and call_name(val) in ("list", "dict", "set", "defaultdict", "deque", "OrderedDict", "Counter"))
        if not mutable:
            continue
        for m in all_methods:
            for n in ast.walk(m):
                hit = None
                if isinstance(n, ast.Call) and isinstance(n.func, ast.Attribute) and n.func.attr in _MUT_METHODS | {"add", "discard", "setdefault", "popitem", "appendleft"} and unparse(n.func.value) in (f"self.{tg}", f"cls.{tg}"):
                    hit = n
                elif isinstance(n, (ast.Assign, ast.AugAssign, ast.Delete)):
                    tgs = n.targets if isinstance(n, (ast.Assign, ast.Delete)) else [n.target]
                    for x in tgs:
                        if isinstance(x, ast.Subscript) and unparse(x.value) in (f"self.{tg}", f"cls.{tg}"):
                            hit = n
                        if isinstance(n, ast.AugAssign) and unparse(x) in (f"self.{tg}", f"cls.{tg}"):
                            hit = n
                if hit is not None:
                    out.append((tg, st, hit, m))
                    break
            else:
                continue
            break
    return out


def rule_r10(chk, p, t):
    r = chk.rule(
        "C10.R10",
        "no agent, dynamics or event object shares a mutable class-level default with its siblings",
        20,
        "an attribute bound in a class BODY to a list / dict / set is one object for all instances until an instance "
        "re-binds it; if any method of the class hierarchy modifies it in place through an instance (`self.X.append`, "
        "`self.X[k] = v`, `self.X += ...`) the modification is seen by every other agent of the process: an event queued "
        "for one spacecraft is propagated by all of them, and the truth of B depends on whether A is in the scenario.  "
        "Checked for every class of resonaate.agents, resonaate.dynamics, resonaate.scenario.events and "
        "resonaate.scenario.clock, methods of super- and subclasses included; class-level constants that are only read "
        "pass",
        "state shared through the database or the key-value store (R8 covers assignments to class attributes)",
    )
    st = ast.parse(_CLASS_DEFAULT_SELFTEST).body[0]
    got = _shared_mutable_defaults(st, [m for m in st.body if isinstance(m, ast.FunctionDef)])
    if [g[0] for g in got] != ["queue"]:
        r.error("selftest", f"the embedded examples are not classified as expected: {[g[0] for g in got]}")
    n = 0
    for q, ci in sorted(p.classes.items()):
        if not q.startswith(("resonaate.agents", "resonaate.dynamics", "resonaate.scenario.events", "resonaate.scenario.clock")):
            continue
        n += 1
        hier = [ci] + list(p.mro(ci))[1:] + list(p.subclasses(ci))
        methods = [m.node for c in hier for m in c.methods.values()]
        bad = _shared_mutable_defaults(ci.node, methods)
        if bad:
            attr, stmt, hit, m = bad[0]
            r.violation(ci.qualname + "." + attr, f"shared-class-default:{ci.name}.{attr}", f"`{unparse(stmt)[:60]}` in the body of class {ci.name} is ONE object shared by every instance, and `{unparse(hit)[:60]}` ({m.name}) modifies it in place: what one agent queues / records is seen by all the others of the process (until each re-binds the attribute) - the truth of one object then depends on which other objects exist", f"{ci.module.relpath}:{stmt.lineno}")
        else:
            r.ok(ci.qualname, "no class-level mutable default is modified through an instance", ci.loc())
    if n < 20:
        r.error("classes", f"only {n} classes examined")


def rule_r11(chk, p, t):
    from rules.shared_fresh import rule_factories_fresh

    rule_factories_fresh(
        chk, p, t, "C10.R11", "every agent gets a dynamics object of its own",
        "a dynamics object carries per-agent state (armed thrust, station-keeping events, the start epoch): truth "
        "trajectories depend only on the agent's own dynamics settings and initial state.",
        ["resonaate.dynamics.dynamicsFactory"],
        "two agents with equal dynamics settings would share one object: a burn armed for one acts on the other",
    )


def run(chk, p, t):
    chk.explanation = (
        "Static non-interference analysis for C10: (R1) an enumerated, closed set of writers of truth state and of "
        "callers of the truth setters; (R2) effect summaries show that the step's closure after the propagation join "
        "writes nothing of a driver agent but sensor pointing and the time-bias queue, and that estimation / tasking / "
        "sensor code never calls a truth writer (workers act on Ray copies); (R3) propagation jobs are built from and "
        "merged into their own agent only; (R4) no dynamics object is shared between agents; (R5) only the "
        "propagation / geopotential / perturbation / time sections reach truth dynamics, the estimate's settings are a "
        "deep copy; (R6) propagation is unconditional and precedes estimation / tasking; (R7) output and call "
        "splitting keep no state. NOT decided: bit-for-bit determinism of SciPy and of Ray serialisation."
    )
    chk.assumptions += ["ray.put / ray.get are a deep-copy boundary", "dynamicsFactory returns a fresh object per call (no caching; checked: it constructs TwoBody / SpecialPerturbations / Terrestrial)"]
    steps = [("C10.R1", rule_r1), ("C10.R2", rule_r2), ("C10.R3", rule_r3), ("C10.R4", rule_r4_r5), ("C10.R6", rule_r6), ("C10.R7", rule_r7), ("C10.R8", rule_r8), ("C10.R9", rule_r9), ("C10.R10", rule_r10), ("C10.R11", rule_r11)]
    for rid, fn in steps:
        if chk.only_rule is not None and chk.only_rule != rid and not (chk.only_rule == "C10.R5" and rid == "C10.R4"):
            continue
        try:
            fn(chk, p, t)
        except (Undecided, AnchorError) as e:
            rr = chk.rule(rid + ".x", fn.__name__, 0, "-")
            (rr.undecided if isinstance(e, Undecided) else rr.error)(fn.__name__, str(e))
