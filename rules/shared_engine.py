"""Rules about the SQLAlchemy engine behind a DataInterface, shared by C09 (atomic step writes) and C19 (the importer
reads the database it was given)."""

from __future__ import annotations

import ast

from rsa.fresh import Fresh
from rsa.model import call_name, unparse, walk_no_nested

DATA = "resonaate.data"

# keyword -> True (transaction-neutral) / False (turns the implicit transaction off)
_ENGINE_KW = {"echo": True, "echo_pool": True, "poolclass": True, "pool_pre_ping": True, "pool_size": True, "pool_recycle": True, "future": True, "connect_args": True, "max_overflow": True, "pool_timeout": True, "isolation_level": False, "execution_options": None}
_CONNECT_ARGS = {"check_same_thread": True, "timeout": True, "uri": True, "detect_types": True, "cached_statements": True, "isolation_level": False, "autocommit": False}
_SESSION_KW = {"bind": True, "expire_on_commit": True, "autoflush": True, "class_": True, "info": True, "future": True, "autocommit": False, "autobegin": False, "join_transaction_mode": None}


def rule_transactional_engine(chk, p, t, rid):
    r = chk.rule(
        rid,
        "the connection the session scope commits on is transactional",
        3,
        "'a step's rows are committed all together or not at all' rests on _getSessionScope's commit / rollback (R3) - "
        "which only mean something while the DBAPI connection opens a transaction implicitly.  Every create_engine / "
        "sessionmaker / Session / execution_options call of resonaate.data is read: its keywords (and the literal "
        "`connect_args`) must be transaction-neutral (echo, poolclass, check_same_thread, timeout, bind ...).  "
        "`isolation_level` (None = pysqlite autocommit, 'AUTOCOMMIT'), `autocommit`, `autobegin=False` switch the "
        "transaction off: every INSERT is then durable on its own and a rejected step leaves the rows written before "
        "the failure.  A keyword outside the table, or a non-literal connect_args, is undecided",
        "SQLAlchemy / SQLite themselves (trusted)",
    )
    n = 0
    for fi in p.all_functions(include_nested=True):
        if not fi.module.name.startswith(DATA):
            continue
        for c in walk_no_nested(fi.node):
            if not isinstance(c, ast.Call):
                continue
            nm = call_name(c)
            if nm == "create_engine":
                table, what = _ENGINE_KW, "create_engine"
            elif nm in ("sessionmaker", "Session", "scoped_session"):
                table, what = _SESSION_KW, nm
            elif nm == "execution_options":
                table, what = {"isolation_level": False, "autocommit": False, "stream_results": True, "yield_per": True}, "execution_options"
            else:
                continue
            n += 1
            cons = f"{fi.qualname}:{what}@{unparse(c)[:40]}"
            bad, unsure = [], []
            for k in c.keywords:
                if k.arg is None:
                    if what == "Session" or (isinstance(k.value, ast.Name) and k.value.id in fi.params):
                        # **kwargs handed through from the caller: read at the call sites below
                        continue
                    unsure.append(f"`**{unparse(k.value)[:30]}`")
                    continue
                v = table.get(k.arg, "?")
                if v is False:
                    bad.append(f"`{k.arg}={unparse(k.value)[:30]}`")
                elif v == "?" or v is None:
                    unsure.append(f"`{k.arg}={unparse(k.value)[:30]}`")
                if k.arg == "connect_args":
                    if isinstance(k.value, ast.Dict) and all(isinstance(x, ast.Constant) and isinstance(x.value, str) for x in k.value.keys):
                        for x, val in zip(k.value.keys, k.value.values):
                            vv = _CONNECT_ARGS.get(x.value, "?")
                            if vv is False:
                                bad.append(f"connect_args[{x.value!r}] = {unparse(val)[:20]}")
                            elif vv == "?":
                                unsure.append(f"connect_args[{x.value!r}]")
                    else:
                        unsure.append(f"connect_args `{unparse(k.value)[:40]}` is not a literal dictionary")
                if k.arg == "execution_options" and isinstance(k.value, ast.Dict):
                    for x, val in zip(k.value.keys, k.value.values):
                        if isinstance(x, ast.Constant) and x.value in ("isolation_level", "autocommit"):
                            bad.append(f"execution_options[{x.value!r}] = {unparse(val)[:20]}")
                            unsure = [u for u in unsure if not u.startswith("`execution_options")]
            if bad:
                r.violation(cons, "non-transactional:" + ";".join(sorted(bad)), f"{what}(...) in {fi.qualname} sets {', '.join(bad)}: the connection no longer opens a transaction implicitly, so Session.commit() / rollback() of _getSessionScope have nothing to commit or undo - each row of a step is durable as soon as it is inserted, and a step that fails half-way stays half-written", fi.loc(c))
            elif unsure:
                r.undecided(cons, f"{what}(...) is given {', '.join(unsure)}, whose effect on transactions is not in the rule's table", fi.loc(c))
            else:
                r.ok(cons, "transaction-neutral options only", fi.loc(c))
    # keyword arguments handed to the session factory through _getSessionScope(**kwargs)
    for fi in p.all_functions(include_nested=True):
        for c in walk_no_nested(fi.node):
            if isinstance(c, ast.Call) and call_name(c) == "_getSessionScope" and c.keywords:
                n += 1
                bad = [k.arg for k in c.keywords if k.arg is None or _SESSION_KW.get(k.arg, "?") is not True]
                cons = f"{fi.qualname}:_getSessionScope"
                if any(k.arg in ("autocommit",) or (k.arg == "autobegin") for k in c.keywords):
                    r.violation(cons, "non-transactional:scope-kwargs", f"`{unparse(c)[:60]}` switches the session's transaction handling off", fi.loc(c))
                elif bad:
                    r.undecided(cons, f"`{unparse(c)[:60]}`: session options {bad} are not in the rule's table", fi.loc(c))
                else:
                    r.ok(cons, "transaction-neutral session options", fi.loc(c))
    if n < 3:
        r.error("sites", f"only {n} engine / session construction sites found in resonaate.data (3 confirmed by hand: two create_engine, one sessionmaker)")


def rule_engine_provenance(chk, p, t, rid, why):
    r = chk.rule(
        rid,
        "every database interface opens the database it is given",
        3,
        why + "  Every `self.engine = E` of the DataInterface hierarchy: E is created by that very construction "
        "(freshness provenance, rsa/fresh.py, through helper methods and their overrides in every subclass: never an "
        "engine kept in a class-level / module-level container keyed by URL, never a memoised helper) and every "
        "create_engine call of resonaate.data is given, as its URL, a parameter of the function it stands in (the path "
        "handed to the constructor)",
        "what the database holds",
    )
    fr = Fresh(p)
    base = p.cls(f"{DATA}.data_interface.DataInterface")
    n = 0
    for c in [base] + p.subclasses(base):
        for m in c.methods.values():
            for st in walk_no_nested(m.node):
                if not isinstance(st, (ast.Assign, ast.AnnAssign)):
                    continue
                tgs = st.targets if isinstance(st, ast.Assign) else [st.target]
                if not any(isinstance(tg, ast.Attribute) and tg.attr == "engine" and isinstance(tg.value, ast.Name) and tg.value.id == "self" for tg in tgs) or st.value is None:
                    continue
                for sub in [c] + p.subclasses(c):
                    # evaluate the construction as seen by each concrete subclass (overrides of helper methods; a subclass
                    # __init__ reaches this one through super())
                    n += 1
                    cons = f"{sub.qualname}:{m.name}:engine"
                    import types

                    fi_view = types.SimpleNamespace(node=m.node, module=m.module, cls=sub, qualname=m.qualname, name=m.name, loc=m.loc, params=m.params)
                    v, wy, node = fr.classify(fi_view, st.value)
                    if v == "shared":
                        r.violation(cons, "shared-engine", f"`{unparse(st)[:70]}` in {m.qualname} (as constructed for {sub.name}): {wy} - a later interface on the same URL gets the connection of an earlier one (the file that was at the path THEN), so records, gaps and observations are read from a database other than the one given", m.loc(st))
                    elif v != "fresh":
                        r.undecided(cons, f"`{unparse(st)[:70]}`: cannot show the engine is created by this construction ({wy})", m.loc(st))
                    else:
                        r.ok(cons, "engine created by this construction", m.loc(st))
    k = 0
    for fi in p.all_functions(include_nested=True):
        if not fi.module.name.startswith(DATA):
            continue
        for c in walk_no_nested(fi.node):
            if isinstance(c, ast.Call) and call_name(c) == "create_engine":
                k += 1
                cons = f"{fi.qualname}:create_engine:url@{k}"
                url = c.args[0] if c.args else next((kw.value for kw in c.keywords if kw.arg == "url"), None)
                if isinstance(url, ast.Name) and url.id in fi.params:
                    r.ok(cons, f"URL is the parameter `{url.id}`", fi.loc(c))
                elif url is None:
                    r.undecided(cons, "create_engine without a URL argument", fi.loc(c))
                else:
                    r.undecided(cons, f"create_engine URL `{unparse(url)[:50]}` is not a parameter of {fi.name}", fi.loc(c))
    if n < 1 or k < 2:
        r.error("sites", f"{n} engine assignments / {k} create_engine calls found (1 / 2 confirmed by hand)")
