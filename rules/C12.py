"""C12 - orbital element sets, anomalies and state configurations convert consistently.

Decides (narrow): singular-case partition agreement of the four sibling case splits (R1),
degree -> radian exactly once at the configuration boundary (R2), range-wrapping discipline and
closed forms of the anomaly conversions (R3).  Does NOT decide any round trip as numbers.
"""

from __future__ import annotations

import ast
import copy

from rsa.cfg import cfg_of
from rsa.model import AnchorError, Undecided, call_name, unparse, walk_no_nested
from rsa.terms import canon, single_defs
from rsa.util import require

ORB = "resonaate.physics.orbits"
CASES = [(True, True), (False, True), (True, False), (False, False)]  # (inclined, eccentric)
# expected (raan is zero, argp is zero) per case and the quantity carried by the singular slot
ZERO = {(True, True): (False, False), (False, True): (True, False), (True, False): (False, True), (False, False): (True, True)}


def _case_returns(fn, inc_names, ecc_names):
    """Map (inclined, eccentric) -> return node, by the path conditions on the two flags."""
    cfg = cfg_of(fn)
    out = {}
    for rt in [n for n in cfg.nodes if n.kind == "return"]:
        for conj in cfg.path_conditions(rt.id):
            inc = ecc = None
            for node, lab in conj:
                if node.kind != "cond":
                    continue
                txt = unparse(node.ast)
                if txt in inc_names:
                    inc = lab
                elif txt in ecc_names:
                    ecc = lab
            cases = [(i, e) for (i, e) in CASES if (inc is None or i == inc) and (ecc is None or e == ecc)]
            # early returns consume their case; later returns get what is left
            for c in cases:
                out.setdefault(c, []).append(rt)
    return out


def _is_zero(e):
    return isinstance(e, ast.Constant) and e.value in (0, 0.0)


def rule_r1(chk, p, t):
    r = chk.rule(
        "C12.R1",
        "singular-case partition agreement",
        4,
        "eci2coe, singularityCheck, ClassicalElements.fromConfig and COEStateConfig.validate_elements split on "
        "(inclined, eccentric) into the same four cases; the same slots are zero in the same case and the defining "
        "angle of each singular case (longitude of periapsis / argument of latitude / true longitude) occupies the "
        "same slot",
    )
    # ---- eci2coe
    e2c = p.func(f"{ORB}.conversions.eci2coe")

    def _case_of(conds, inc_txts, ecc_txts):
        """(inclined, eccentric) polarity on a path; ("infeasible", None) when one flag is tested with both polarities
        (the path enumeration does not know that two tests of one flag agree)."""
        inc = ecc = None
        for c, pol in conds:
            base, neg = c, False
            while isinstance(base, ast.UnaryOp) and isinstance(base.op, ast.Not):
                neg, base = not neg, base.operand
            txt = unparse(base)
            val = pol != neg
            is_inc = txt in inc_txts or (isinstance(base, ast.Call) and call_name(base) == "isInclined")
            is_ecc = txt in ecc_txts or (isinstance(base, ast.Call) and call_name(base) == "isEccentric")
            if is_inc:
                if inc is not None and inc != val:
                    return "infeasible", None
                inc = val
            elif is_ecc:
                if ecc is not None and ecc != val:
                    return "infeasible", None
                ecc = val
        return inc, ecc

    def f1():
        # path-wise: on every path the returned 6-tuple, with the path's assignments substituted
        from rsa.terms import NotEvaluable, returned_exprs

        try:
            paths = returned_exprs(e2c)
        except NotEvaluable as e:
            raise Undecided(f"eci2coe: {e}", e2c.node)
        exp_fn = {
            (True, True): ("getRightAscension", "getArgumentPerigee", "getTrueAnomaly"),
            (False, True): (None, "getTrueLongitudePeriapsis", "getTrueAnomaly"),
            (True, False): ("getRightAscension", None, "getArgumentLatitude"),
            (False, False): (None, None, "getTrueLongitude"),
        }
        bad = []
        seen = set()
        lead = set()
        for e, conds in paths:
            inc, ecc = _case_of(conds, {"inclined"}, {"eccentric"})
            if inc == "infeasible":
                continue
            if inc is None or ecc is None:
                raise Undecided("eci2coe: a return is not selected by the (inclined, eccentric) flags", e2c.node)
            case = (inc, ecc)
            seen.add(case)
            if not (isinstance(e, ast.Tuple) and len(e.elts) == 6):
                bad.append(f"case {case} does not return six elements")
                continue
            lead.add(tuple(unparse(x) for x in e.elts[:3]))
            for slot, want in zip(e.elts[3:], exp_fn[case]):
                if want is None:
                    if not _is_zero(slot):
                        bad.append(f"case (inclined={case[0]}, eccentric={case[1]}): slot `{unparse(slot)[:40]}` should be 0.0 (undefined angle)")
                elif not (isinstance(slot, ast.Call) and call_name(slot) == want):
                    bad.append(f"case (inclined={case[0]}, eccentric={case[1]}): slot `{unparse(slot)[:40]}` is not {want}(...)")
        for c in CASES:
            if c not in seen:
                bad.append(f"case {c} has no return")
        if len(lead) > 1:
            bad.append("the leading (a, e, i) differ between the cases")
        if bad:
            r.violation(e2c.qualname, "cases:" + ";".join(sorted(set(bad))), "eci2coe case split: " + "; ".join(sorted(set(bad))), e2c.loc())
        else:
            r.ok(e2c.qualname, "four cases; zero pattern and defining angles in their slots (path-wise)", e2c.loc(), obligations=12)

    r.guard(e2c.qualname, f1)
    # ---- singularityCheck
    sc = p.func(f"{ORB}.utils.singularityCheck")

    def f2():
        # path-wise: on every path the returned triple with the path's assignments substituted; the case a path belongs to
        # is read off its conditions (flat guards, nested branches and result variables alike)
        from rsa.terms import NotEvaluable, returned_exprs

        try:
            paths = returned_exprs(sc)
        except NotEvaluable as e:
            raise Undecided(f"singularityCheck: {e}", sc.node)
        raan, argp, anom = sc.params[2], sc.params[3], sc.params[4]
        want = {
            (True, True): (raan, argp, anom),
            (False, True): (None, f"{argp} + {raan}", anom),
            (True, False): (raan, None, f"{anom} + {argp}"),
            (False, False): (None, None, f"{anom} + {argp} + {raan}"),
        }
        bad = []
        seen_cases = set()
        for tup, conds in paths:
            # the flags are locals bound to isInclined(inc) / isEccentric(ecc): after substitution the conditions are
            # those calls
            inc, ecc = _case_of(conds, {"inclined"}, {"eccentric"})
            if inc == "infeasible":
                continue
            if inc is None or ecc is None:
                # a path that does not test both flags covers several cases: judged for each case it can belong to
                cases = [(i, e_) for i in ((True, False) if inc is None else (inc,)) for e_ in ((True, False) if ecc is None else (ecc,))]
            else:
                cases = [(inc, ecc)]
            if not (isinstance(tup, ast.Tuple) and len(tup.elts) == 3):
                bad.append(f"a path of case(s) {cases} does not return three angles")
                continue
            for case in cases:
                seen_cases.add(case)
                for v, w in zip(tup.elts, want[case]):
                    if w is None:
                        if not _is_zero(v):
                            bad.append(f"case (inclined={case[0]}, eccentric={case[1]}): `{unparse(v)}` should be 0.0")
                    else:
                        ok = isinstance(v, ast.Call) and call_name(v) == "wrapAngle2Pi" and canon(v.args[0]) == canon(ast.parse(w, mode="eval").body)
                        if not ok:
                            bad.append(f"case (inclined={case[0]}, eccentric={case[1]}): `{unparse(v)}` should be wrapAngle2Pi({w})")
        for case in CASES:
            if case not in seen_cases:
                bad.append(f"case {case} has no return")
        bad = sorted(set(bad))
        if bad:
            r.violation(sc.qualname, "cases:" + ";".join(bad), "singularityCheck case split: " + "; ".join(bad), sc.loc())
        else:
            r.ok(sc.qualname, "four cases; merged angles wrapped into their slots (path-wise)", sc.loc(), obligations=12)

    r.guard(sc.qualname, f2)
    # ---- ClassicalElements.fromConfig
    fc = p.func(f"{ORB}.elements.ClassicalElements.fromConfig")

    def f3():
        # path-wise: the constructor call each path returns, with the path's assignments substituted
        from rsa.terms import NotEvaluable, returned_exprs

        try:
            paths = returned_exprs(fc)
        except NotEvaluable as e:
            raise Undecided(f"ClassicalElements.fromConfig: {e}", fc.node)
        cname = fc.params[1]
        want = {
            (True, True): ("right_ascension", "argument_periapsis", "true_anomaly"),
            (False, True): (None, "true_longitude_periapsis", "true_anomaly"),
            (True, False): ("right_ascension", None, "argument_latitude"),
            (False, False): (None, None, "true_longitude"),
        }
        bad = []
        seen = set()
        for e, conds in paths:
            inc, ecc = _case_of(conds, {f"{cname}.inclined"}, {f"{cname}.eccentric"})
            if inc == "infeasible":
                continue
            if inc is None or ecc is None:
                raise Undecided("ClassicalElements.fromConfig: a return is not selected by config.inclined / config.eccentric", fc.node)
            case = (inc, ecc)
            seen.add(case)
            if not (isinstance(e, ast.Call) and unparse(e.func) == fc.params[0] and len(e.args) == 6):
                bad.append(f"constructor call `{unparse(e)[:70]}`")
                continue
            for slot, w in zip(e.args[3:], want[case]):
                flds = [x.attr for x in ast.walk(slot) if isinstance(x, ast.Attribute) and isinstance(x.value, ast.Name) and x.value.id == cname]
                if w is None:
                    if not _is_zero(slot):
                        bad.append(f"case (inclined={case[0]}, eccentric={case[1]}): `{unparse(slot)[:40]}` should be 0.0")
                elif flds != [w]:
                    bad.append(f"case (inclined={case[0]}, eccentric={case[1]}): slot is `{unparse(slot)[:50]}` (expected the configured {w})")
        for c in CASES:
            if c not in seen:
                bad.append(f"case {c} has no return")
        if bad:
            r.violation(fc.qualname, "cases:" + ";".join(sorted(set(bad))), "ClassicalElements.fromConfig case split: " + "; ".join(sorted(set(bad))), fc.loc())
        else:
            r.ok(fc.qualname, "four cases; configured angles land in the slots eci2coe / singularityCheck use (path-wise)", fc.loc(), obligations=12)

    r.guard(fc.qualname, f3)
    # ---- COEStateConfig.validate_elements
    ve = p.func("resonaate.scenario.config.state_config.COEStateConfig.validate_elements")

    def f4():
        cfg = cfg_of(ve)
        sets = [n for n in cfg.nodes if n.kind == "stmt" and isinstance(n.ast, ast.Assign) and unparse(n.ast.targets[0]) in ("self._eccentric", "self._inclined")]
        branches = {}
        for n in sets:
            conds = tuple(sorted((unparse(cfg.nodes[cid].ast), lab) for cid, lab in cfg.control_conditions(n.id) if lab is True))
            branches.setdefault(conds, {})[unparse(n.ast.targets[0])] = unparse(n.ast.value)
        want = {
            frozenset({"true_anomaly", "right_ascension", "argument_periapsis"}): (True, True),
            frozenset({"true_anomaly", "true_longitude_periapsis"}): (False, True),
            frozenset({"right_ascension", "argument_latitude"}): (True, False),
            frozenset({"true_longitude"}): (False, False),
        }
        got = {}
        for conds, flags in branches.items():
            fields = frozenset(c.split(" is not None")[0].replace("self.", "") for c, _ in conds)
            got[fields] = (flags.get("self._inclined") == "True", flags.get("self._eccentric") == "True")
        bad = [f"{sorted(k)} -> (inclined, eccentric)={got.get(k)} (expected {v})" for k, v in want.items() if got.get(k) != v]
        cls = ve.cls
        pi, pe = cls.methods.get("inclined"), cls.methods.get("eccentric")
        from rsa.terms import property_body

        if pi is None or unparse(property_body(pi)) != "self._inclined":
            bad.append("`inclined` does not return self._inclined")
        if pe is None or unparse(property_body(pe)) != "self._eccentric":
            bad.append("`eccentric` does not return self._eccentric")
        raises = [n for n in cfg.nodes if n.kind == "stmt" and isinstance(n.ast, ast.Raise)]
        if not raises:
            bad.append("an invalid combination is not rejected")
        if bad:
            r.violation(ve.qualname, "cases:" + ";".join(bad), "COEStateConfig.validate_elements: " + "; ".join(bad), ve.loc())
        else:
            r.ok(ve.qualname, "field combinations select the same four cases", ve.loc(), obligations=6)

    r.guard(ve.qualname, f4)
    # thresholds: one definition each
    for nm in ("isInclined", "isEccentric"):
        try:
            f = p.func(f"{ORB}.{nm}")
            r.ok(f.qualname, "single threshold helper used by all siblings", f.loc())
        except AnchorError as e:
            r.error(nm, str(e))


def rule_r2(chk, p, t):
    r = chk.rule(
        "C12.R2",
        "degrees exactly once",
        3,
        "every angular field of the classical / equinoctial configurations (documented in degrees) is multiplied by "
        "DEG2RAD exactly once before reaching the element classes; semi-major axis, eccentricity and the h, k, p, q "
        "components are not",
    )
    fc = p.func(f"{ORB}.elements.ClassicalElements.fromConfig")
    ANG = {"inclination", "right_ascension", "argument_periapsis", "true_anomaly", "true_longitude_periapsis", "argument_latitude", "true_longitude", "mean_longitude"}
    PLAIN = {"semi_major_axis", "eccentricity", "h", "k", "p", "q"}

    def scan(fn):
        cname = fn.params[1]
        bad = []
        n_ang = 0
        for n in walk_no_nested(fn.node):
            if isinstance(n, ast.Attribute) and isinstance(n.value, ast.Name) and n.value.id == cname and isinstance(n.ctx, ast.Load):
                pm = _parent(fn.node, n)
                top = n
                while isinstance(pm, ast.BinOp) and isinstance(pm.op, (ast.Mult, ast.Div)):
                    top = pm
                    pm = _parent(fn.node, pm)
                cnt = unparse(top).count("DEG2RAD") if top is not n else 0
                scaled = cnt >= 1
                twice = cnt > 1
                if n.attr in ANG:
                    n_ang += 1
                    if not scaled or twice:
                        bad.append(f"{cname}.{n.attr} {'converted twice' if twice else 'not converted to radians'}")
                elif n.attr in PLAIN and scaled:
                    bad.append(f"{cname}.{n.attr} is not an angle in degrees but is multiplied by DEG2RAD")
        return bad, n_ang

    for fn in (fc, p.func(f"{ORB}.elements.EquinoctialElements.fromConfig")):
        bad, n_ang = scan(fn)
        if bad:
            r.violation(fn.qualname, "degrees:" + ";".join(bad), f"{fn.cls.name}.fromConfig: " + "; ".join(bad), fn.loc())
        elif n_ang == 0:
            r.error(fn.qualname, "no angular configuration field found")
        else:
            r.ok(fn.qualname, f"{n_ang} angular fields each * DEG2RAD once", fn.loc(), obligations=n_ang)
    # field completeness: every field the configuration class declares is consumed by fromConfig
    for q, fn in (("COEStateConfig", fc), ("EQEStateConfig", p.func(f"{ORB}.elements.EquinoctialElements.fromConfig"))):
        cc = p.cls(f"resonaate.scenario.config.state_config.{q}")
        declared = [s.target.id for s in cc.node.body if isinstance(s, ast.AnnAssign) and isinstance(s.target, ast.Name) and s.target.id != "type" and not s.target.id.startswith("_")]
        cname = fn.params[1]
        read = {n.attr for n in ast.walk(fn.node) if isinstance(n, ast.Attribute) and isinstance(n.value, ast.Name) and n.value.id == cname}
        # helpers that receive the whole configuration
        for c in ast.walk(fn.node):
            if isinstance(c, ast.Call) and any(isinstance(a, ast.Name) and a.id == cname for a in c.args):
                for tg in t.callees(c, fn):
                    if hasattr(tg, "node") and getattr(tg, "params", None):
                        idx = [i for i, a in enumerate(c.args) if isinstance(a, ast.Name) and a.id == cname][0]
                        prm = tg.params[idx + (1 if tg.kind in ("method", "classmethod") and isinstance(c.func, ast.Attribute) else 0)] if idx + 1 <= len(tg.params) else None
                        if prm:
                            read |= {n.attr for n in ast.walk(tg.node) if isinstance(n, ast.Attribute) and isinstance(n.value, ast.Name) and n.value.id == prm}
        missing = [f for f in declared if f not in read]
        cons = f"{fn.qualname}:fields"
        if len(declared) < 6:
            r.error(cons, f"only {len(declared)} declared fields found on {q} (>= 6 confirmed by hand)")
        elif missing:
            r.violation(cons, "ignored-fields:" + ",".join(missing), f"{fn.cls.name}.fromConfig ignores the configuration field(s) {missing} of {q}: the same orbit described through this configuration yields a different initial state (e.g. a retrograde equinoctial set decoded with the direct equations)", fn.loc())
        else:
            r.ok(cons, f"all {len(declared)} declared fields of {q} are consumed", fn.loc(), obligations=len(declared))
    # the configuration -> ECI path goes through the element classes
    for q, cls, back in (("COEStateConfig", "ClassicalElements", "toECI"), ("EQEStateConfig", "EquinoctialElements", "toECI")):
        m = p.func(f"resonaate.scenario.config.state_config.{q}.toECI")
        body = " ".join(unparse(s) for s in m.node.body if not (isinstance(s, ast.Expr) and isinstance(s.value, ast.Constant)))
        if f"{cls}.fromConfig(self)" in body and "orbit.toECI()" in body:
            r.ok(m.qualname, f"{cls}.fromConfig(self).toECI()", m.loc())
        else:
            r.violation(m.qualname, f"toECI:{body[:80]}", f"{q}.toECI does not build the state through {cls}.fromConfig(self).toECI()", m.loc())


def _parent(root, node):
    for n in ast.walk(root):
        for c in ast.iter_child_nodes(n):
            if c is node:
                return n
    return None


def rule_r3(chk, p, t):
    r = chk.rule(
        "C12.R3",
        "range discipline and closed forms of the anomaly conversions",
        10,
        "every public anomaly / longitude conversion is wrapped by wrap_anomaly (result in [0, 2pi)); the classical "
        "ones guard the circular case with check_ecc; the closed forms E <-> nu and Kepler's equation are the "
        "documented ones; the decorators wrap and short-circuit as documented",
    )
    mod = p.module(f"{ORB}.anomaly")
    closed = {
        "trueAnom2EccAnom": "arctan2(sin(nu) * sqrt(1 - ecc ** 2), ecc + cos(nu))",
        "eccAnom2TrueAnom": "arctan2(sin(E) * sqrt(1 - ecc ** 2), cos(E) - ecc)",
        "eccAnom2MeanAnom": "E - ecc * sin(E)",
    }
    need_ecc = {"trueAnom2MeanAnom", "meanAnom2TrueAnom", "trueAnom2EccAnom", "eccAnom2TrueAnom", "eccAnom2MeanAnom", "meanAnom2EccAnom"}
    for name, fn in sorted(mod.functions.items()):
        if name.startswith("_"):
            continue
        decs = [unparse(d) for d in fn.node.decorator_list]
        bad = []
        if "wrap_anomaly" not in decs:
            bad.append("not wrapped by wrap_anomaly: the result can leave [0, 2pi)")
        elif decs[0] != "wrap_anomaly":
            bad.append("wrap_anomaly is not the outermost decorator (the circular short-cut would return an unwrapped angle)")
        if name in need_ecc and "check_ecc" not in decs:
            bad.append("circular case not guarded by check_ecc")
        if "check_ecc" in decs and not (name in need_ecc and len(fn.params) == 2):
            # check_ecc returns its first argument unchanged for a circular orbit: right only where the conversion
            # is the identity at e = 0, i.e. between two anomalies of one orbit
            bad.append(f"check_ecc short-circuits `{name}({', '.join(fn.params)})` to its first argument for circular orbits, but this conversion is not the identity at e = 0 (a longitude is not an anomaly: the node / periapsis angles are not subtracted)")
        if name in closed:
            rets = [n for n in walk_no_nested(fn.node) if isinstance(n, ast.Return)]
            if not rets or canon(rets[0].value) != canon(ast.parse(closed[name], mode="eval").body):
                bad.append(f"closed form `{unparse(rets[0].value) if rets else None}` (expected {closed[name]})")
        if bad:
            r.violation(fn.qualname, "anomaly:" + ";".join(bad), f"{name}: " + "; ".join(bad), fn.loc())
        else:
            r.ok(fn.qualname, f"decorators {decs}", fn.loc())
    for nm in ("trueAnom2MeanAnom", "meanAnom2TrueAnom", "meanLong2TrueAnom", "trueAnom2MeanLong"):
        fn = mod.functions.get(nm)
        if fn is None:
            r.error(nm, "function not found")
            continue
        rets = [n for n in walk_no_nested(fn.node) if isinstance(n, ast.Return)]
        from rsa.terms import inline_locals

        e = inline_locals(fn, rets[0].value)
        want = {
            "trueAnom2MeanAnom": "eccAnom2MeanAnom(trueAnom2EccAnom(nu, ecc), ecc)",
            "meanAnom2TrueAnom": "eccAnom2TrueAnom(meanAnom2EccAnom(M, ecc), ecc)",
            "meanLong2TrueAnom": "meanAnom2TrueAnom(lam - argp - (1 if not retro else -1) * raan, ecc)",
            "trueAnom2MeanLong": "trueAnom2MeanAnom(nu, ecc) + argp + (1 if not retro else -1) * raan",
        }[nm]
        if canon(e) == canon(ast.parse(want, mode="eval").body):
            r.ok(fn.qualname + ":composition", want, fn.loc())
        else:
            r.violation(fn.qualname + ":composition", f"composition:{unparse(e)[:90]}", f"{nm} is `{unparse(e)[:110]}`, expected `{want}`", fn.loc())
    wa = p.func(f"{ORB}.wrap_anomaly")
    ce = p.func(f"{ORB}.check_ecc")
    inner_w = [f for q, f in p.functions.items() if q.startswith(wa.qualname + ".<locals>")]
    inner_c = [f for q, f in p.functions.items() if q.startswith(ce.qualname + ".<locals>")]

    def decs():
        require(len(inner_w) == 1 and len(inner_c) == 1, "decorator wrappers not found", wa.node)
        rw = [n for n in walk_no_nested(inner_w[0].node) if isinstance(n, ast.Return)]
        if rw and unparse(rw[0].value) == "wrapAngle2Pi(func(*args, **kwargs))":
            r.ok(wa.qualname, "wrapAngle2Pi(func(...))", wa.loc())
        else:
            r.violation(wa.qualname, f"wrap_anomaly:{unparse(rw[0].value) if rw else None}", "wrap_anomaly no longer returns wrapAngle2Pi(func(...))", wa.loc())
        # path-wise: eccentric -> the conversion, circular -> the input anomaly itself
        from rsa.terms import NotEvaluable, returned_exprs

        try:
            paths = returned_exprs(inner_c[0])
        except NotEvaluable as e:
            raise Undecided(f"check_ecc wrapper: {e}", inner_c[0].node)
        a0, e0 = inner_c[0].params[0], inner_c[0].params[1]
        ok = len(paths) == 2
        got = []
        for e, conds in paths:
            ecc = None
            for c, pol in conds:
                txt = unparse(c)
                if txt == f"isEccentric({e0})":
                    ecc = pol
                elif txt == f"not isEccentric({e0})":
                    ecc = not pol
            got.append((ecc, unparse(e)))
            if ecc is True:
                ok = ok and unparse(e) == f"func({a0}, {e0}, *args, **kwargs)"
            elif ecc is False:
                ok = ok and unparse(e) == a0
            else:
                ok = False
        if ok:
            r.ok(ce.qualname, "circular orbit: the anomaly is returned unchanged (path-wise)", ce.loc())
        else:
            r.violation(ce.qualname, f"check_ecc:{got}", "check_ecc no longer returns the input anomaly for circular orbits and the conversion otherwise", ce.loc())

    r.guard("decorators", decs)


def rule_r4(chk, p, t):
    r = chk.rule(
        "C12.R4",
        "angles from vectors are domain-safe",
        6,
        "in the orbit-element code every arc-cosine of a normalised dot product goes through safeArccos / a clip / "
        "subtendedAngle(..., safe=True): on the apse line, the node line or the reference axis the cosine rounds to "
        "1 + 2e-16 and a raw arccos returns NaN for a perfectly valid (perigee, apogee, circular, equatorial) state. "
        "A raw arccos of one component of a normalised vector is accepted (|x_i| / sqrt(sum x^2) <= 1 in IEEE arithmetic)",
        "the numerical value of any angle",
    )
    mods = [m for q, m in p.modules.items() if q.startswith(ORB)]
    n = 0
    sa = p.func("resonaate.physics.maths.subtendedAngle")
    sa_defaults = dict(zip([a.arg for a in sa.node.args.args][-len(sa.node.args.defaults) :], sa.node.args.defaults)) if sa.node.args.defaults else {}
    default_safe = isinstance(sa_defaults.get("safe"), ast.Constant) and sa_defaults["safe"].value is True
    for m in mods:
        for fi in m.functions.values():
            defs = single_defs(fi.node)
            for c in ast.walk(fi.node):
                if not isinstance(c, ast.Call):
                    continue
                cn = call_name(c)
                cons = f"{fi.qualname}:{cn}@{unparse(c)[:50]}"
                if cn == "safeArccos":
                    n += 1
                    r.ok(cons, "safeArccos", fi.loc(c))
                elif cn == "subtendedAngle":
                    n += 1
                    safe = any(k.arg == "safe" and isinstance(k.value, ast.Constant) and k.value.value is True for k in c.keywords) or (len(c.args) >= 3 and isinstance(c.args[2], ast.Constant) and c.args[2].value is True)
                    explicit = any(k.arg == "safe" for k in c.keywords) or len(c.args) >= 3
                    if safe or (default_safe and not explicit):
                        r.ok(cons, "subtendedAngle(..., safe=True)", fi.loc(c))
                    else:
                        r.violation(cons, f"unsafe-arccos:{fi.name}:subtendedAngle", f"`{unparse(c)[:80]}` takes a raw arccos of a normalised dot product (safe defaults to False): for parallel / anti-parallel vectors (true anomaly 0 or pi, ...) the cosine can round to 1 + 2e-16 and the angle is NaN", fi.loc(c))
                elif cn in ("arccos", "acos"):
                    n += 1
                    a = c.args[0] if c.args else None
                    a = defs.get(a.id, a) if isinstance(a, ast.Name) else a
                    clipped = isinstance(a, ast.Call) and call_name(a) in ("clip", "safeClip")
                    unit_comp = isinstance(a, ast.Subscript) and isinstance(a.value, ast.Name) and ("unit" in a.value.id)
                    if clipped or unit_comp:
                        r.ok(cons, "clipped" if clipped else "component of a unit vector", fi.loc(c))
                    else:
                        r.violation(cons, f"unsafe-arccos:{fi.name}:arccos", f"`{unparse(c)[:80]}`: raw arccos of `{unparse(a)[:50]}` without safeArccos / clip: NaN when the cosine rounds just past +-1", fi.loc(c))
    if n == 0:
        r.error("arccos-sites", "no arc-cosine site found in the orbit-element code (7 confirmed by hand)")


def rule_r5(chk, p, t):
    from rules.shared_memo import memo_rule

    memo_rule(chk, p, t, "C12.R5", modules=("resonaate.physics.orbits",), floor=40, what="the orbital element / anomaly conversion modules (physics.orbits)")


def rule_r6(chk, p, t):
    from rsa import ratfun as rf
    from rsa.terms import NotEvaluable, returned_exprs

    r = chk.rule(
        "C12.R6",
        "classical <-> equinoctial: definition on every path and quadrant agreement of the inverse",
        2,
        "coe2eqe returns, on every path and as a function of its PARAMETERS (local rebinding substituted), (a, e sin(w + I W), "
        "e cos(w + I W), tan^I(i/2) sin W, tan^I(i/2) cos W, trueAnom2MeanLong(f, e, W, w, retro)) - Danielson 2.1.2 - so no "
        "input angle is dropped or replaced before it enters the defined sums; eqe2coe recovers W as atan2(p, q) and w as "
        "atan2(h, k) - I W (sine-carrying component first), e and i through their helpers, the anomaly from the SAME raan / "
        "argp it just recovered, and finishes with singularityCheck",
        "round trips as numbers",
    )
    CONV = "resonaate.physics.orbits.conversions"
    f = p.func(f"{CONV}.coe2eqe")

    def fwd():
        try:
            rets = returned_exprs(f)
        except NotEvaluable as e:
            raise Undecided(f"coe2eqe: {e}", f.node)
        sma, ecc, inc, raan, argp, ta = f.params[:6]
        retro = f.params[6] if len(f.params) > 6 else "retro"
        require(rets, "coe2eqe: no return", f.node)
        n_ok = 0
        for e, conds in rets:
            require(isinstance(e, ast.Tuple) and len(e.elts) == 6, "coe2eqe does not return a 6-tuple", f.node)
            # the retro switch: II = 1 if not retro else -1 -> split by returned_exprs; read the polarity from conds
            ii = None
            for c, pol in conds:
                txt = unparse(c)
                if txt == f"not {retro}":
                    ii = 1 if pol else -1
                elif txt == retro:
                    ii = -1 if pol else 1
            if ii is None:
                # II kept symbolic
                ii_src = f"(1 if not {retro} else -1)"
                raise Undecided(f"coe2eqe: path without a decided retrograde switch ({ii_src})", f.node)
            I = "1" if ii == 1 else "-1"
            tanf = f"tan({inc} * 0.5)" if ii == 1 else f"1 / tan({inc} * 0.5)"
            want = [
                sma,
                f"{ecc} * sin({argp} + {I} * {raan})",
                f"{ecc} * cos({argp} + {I} * {raan})",
                f"{tanf} * sin({raan})",
                f"{tanf} * cos({raan})",
            ]
            bad = []
            other = [(c, pol) for c, pol in conds if unparse(c) not in (retro, f"not {retro}")]
            for i, w in enumerate(want):
                got = e.elts[i]
                try:
                    same = rf.rat_equal(rf.ratfun(got, subst={"II": rf.parse(I)}), rf.ratfun(rf.parse(w)))
                except NotEvaluable:
                    same = False
                if not same:
                    bad.append(f"element {i} = `{unparse(got)[:80]}` (Danielson 2.1.2: `{w}`)")
            ml = e.elts[5]
            ok_ml = isinstance(ml, ast.Call) and call_name(ml) == "trueAnom2MeanLong" and [unparse(a) for a in ml.args] == [ta, ecc, raan, argp] and {k.arg: unparse(k.value) for k in ml.keywords} == {"retro": retro}
            if not ok_ml:
                bad.append(f"mean longitude = `{unparse(ml)[:90]}` (expected trueAnom2MeanLong({ta}, {ecc}, {raan}, {argp}, retro={retro}))")
            cons = f"{f.qualname}:{'retrograde' if ii < 0 else 'direct'}" + (":" + ";".join(f"{unparse(c)[:30]}={pol}" for c, pol in other) if other else "")
            if bad:
                r.violation(cons, "coe2eqe:" + ";".join(b[:50] for b in bad), "coe2eqe deviates from the equinoctial definition" + (f" on the path where {', '.join(unparse(c) + ' is ' + str(pol) for c, pol in other)}" if other else "") + ": " + "; ".join(bad) + " - an input angle that is replaced before it enters the sums w + I W / W changes h, k, p, q and the longitude for every orbit taking that path", f.loc())
            else:
                n_ok += 1
                r.ok(cons, "Danielson 2.1.2 as a function of the parameters", f.loc(), obligations=6)

    r.guard(f.qualname, fwd)
    g = p.func(f"{CONV}.eqe2coe")

    def inv():
        from rsa.terms import single_defs

        defs = {}
        order = []
        for n in walk_no_nested(g.node):
            if isinstance(n, ast.Assign) and len(n.targets) == 1:
                tg = n.targets[0]
                if isinstance(tg, ast.Name):
                    defs.setdefault(tg.id, []).append(n.value)
                    order.append((tg.id, n))
                elif isinstance(tg, ast.Tuple):
                    for x in tg.elts:
                        if isinstance(x, ast.Name):
                            defs.setdefault(x.id, []).append(n.value)
                            order.append((x.id, n))
        _ = single_defs
        sma, h, k, pp, q, ml = g.params[:6]
        retro = g.params[6] if len(g.params) > 6 else "retro"
        bad = []

        def first(name):
            v = defs.get(name, [])
            return v[0] if v else None

        ra = first("raan")
        if not (isinstance(ra, ast.Call) and call_name(ra) in ("arctan2", "atan2") and [unparse(a) for a in ra.args] == [pp, q]):
            bad.append(f"raan = `{unparse(ra)[:60] if ra is not None else None}` (p = tan^I(i/2) sin W carries the sine: arctan2({pp}, {q}))")
        ap = first("argp")
        ok_ap = False
        if isinstance(ap, ast.BinOp) and isinstance(ap.op, ast.Sub) and isinstance(ap.left, ast.Call) and call_name(ap.left) in ("arctan2", "atan2") and [unparse(a) for a in ap.left.args] == [h, k]:
            try:
                ok_ap = rf.rat_equal(rf.ratfun(ap.right), rf.ratfun(rf.parse("II * raan")))
            except Exception:
                ok_ap = False
        if not ok_ap:
            bad.append(f"argp = `{unparse(ap)[:70] if ap is not None else None}` (h = e sin(w + I W) carries the sine: arctan2({h}, {k}) - II * raan)")
        ii = first("II")
        if ii is None or unparse(ii) not in (f"1 if not {retro} else -1", f"-1 if {retro} else 1"):
            bad.append(f"II = `{unparse(ii) if ii is not None else None}`")
        ec, ic = first("ecc"), first("inc")
        if not (isinstance(ec, ast.Call) and call_name(ec) == "getEccentricityFromEQE" and [unparse(a) for a in ec.args] == [h, k]):
            bad.append(f"ecc = `{unparse(ec)[:60] if ec is not None else None}`")
        if not (isinstance(ic, ast.Call) and call_name(ic) == "getInclinationFromEQE" and [unparse(a) for a in ic.args] == [pp, q] and {kk.arg: unparse(kk.value) for kk in ic.keywords} == {"retro": retro}):
            bad.append(f"inc = `{unparse(ic)[:60] if ic is not None else None}`")
        tav = first("true_anom")
        if not (isinstance(tav, ast.Call) and call_name(tav) == "meanLong2TrueAnom" and [unparse(a) for a in tav.args] == [ml, "ecc", "raan", "argp"] and {kk.arg: unparse(kk.value) for kk in tav.keywords} == {"retro": retro}):
            bad.append(f"true anomaly = `{unparse(tav)[:80] if tav is not None else None}` (expected meanLong2TrueAnom({ml}, ecc, raan, argp, retro={retro}))")
        rets = [n for n in walk_no_nested(g.node) if isinstance(n, ast.Return) and n.value is not None]
        sc = [n for n in walk_no_nested(g.node) if isinstance(n, ast.Assign) and isinstance(n.value, ast.Call) and call_name(n.value) == "singularityCheck"]
        star_form = len(rets) == 1 and unparse(rets[0].value) == f"({sma}, ecc, inc, *singularityCheck(ecc, inc, raan, argp, true_anom))"
        if star_form:
            pass  # `return a, e, i, *singularityCheck(...)`: the check's (raan, argp, anomaly) fill slots 3-5 in order
        else:
            if not (len(sc) == 1 and [unparse(a) for a in sc[0].value.args] == ["ecc", "inc", "raan", "argp", "true_anom"] and unparse(sc[0].targets[0]) == "(raan, argp, true_anom)"):
                bad.append("the recovered angles do not pass through singularityCheck(ecc, inc, raan, argp, true_anom) -> (raan, argp, true_anom)")
            if not (len(rets) == 1 and unparse(rets[0].value) == f"({sma}, ecc, inc, raan, argp, true_anom)"):
                bad.append(f"return `{unparse(rets[0].value)[:70] if rets else None}`")
        if bad:
            r.violation(g.qualname, "eqe2coe:" + ";".join(b[:50] for b in bad), "eqe2coe does not invert coe2eqe: " + "; ".join(bad), g.loc())
        else:
            r.ok(g.qualname, "W = atan2(p, q), w = atan2(h, k) - I W, anomaly from the recovered angles, singularityCheck last", g.loc(), obligations=7)

    r.guard(g.qualname, inv)


# Vallado (4th ed.) sections 2-6 (perifocal construction), Danielson et al. 1995 sections 2.1.4 / 2.1.5 (equinoctial
# elements <-> position and velocity) and the vector definitions of the classical angles, in the local names of the
# implementation.
_ORBIT_CONVERSIONS_REF = """
def coe2eci(sma, ecc, inc, raan, argp, true_anom, mu):
    cos_anom, sin_anom = cos(true_anom), sin(true_anom)
    p = sma * (1.0 - ecc**2)
    r_pqw = p / (1.0 + ecc * cos_anom) * array([cos_anom, sin_anom, 0.0])
    v_pqw = sqrt(mu / p) * array([-sin_anom, ecc + cos_anom, 0.0])
    rot_pqw2eci = rot3(-raan).dot(rot1(-inc).dot(rot3(-argp)))
    return concatenate([rot_pqw2eci.dot(r_pqw), rot_pqw2eci.dot(v_pqw)], axis=0)


def eci2eqe(eci_state, mu, retro):
    II = 1 if not retro else -1
    pos_vec, vel_vec = array(eci_state[:3], copy=True), array(eci_state[3:], copy=True)
    sma = getSemiMajorAxis(norm(pos_vec), norm(vel_vec), mu=mu)
    ang_momentum_vec = getAngularMomentum(pos_vec, vel_vec)
    w_hat = ang_momentum_vec / norm(ang_momentum_vec)
    p = w_hat[0] / (1 + II * w_hat[2])
    q = -w_hat[1] / (1 + II * w_hat[2])
    f_hat, g_hat = getEquinoctialBasisVectors(p, q, retro=retro)
    ecc, ecc_vec = getEccentricity(pos_vec, vel_vec, mu=mu)
    h = vdot(ecc * ecc_vec, g_hat)
    k = vdot(ecc * ecc_vec, f_hat)
    h_sq, k_sq = h**2, k**2
    X = vdot(pos_vec, f_hat)
    Y = vdot(pos_vec, g_hat)
    b = 1 / (1 + sqrt(1 - h_sq - k_sq))
    denom = sma * sqrt(1 - h_sq - k_sq)
    F = arctan2(h + ((1 - h_sq * b) * Y - h * k * b * X) / denom, k + ((1 - k_sq * b) * X - h * k * b * Y) / denom)
    mean_long = eccLong2MeanLong(F, h, k)
    return sma, h, k, p, q, mean_long


def eqe2eci(sma, h, k, p, q, mean_long, mu, retro):
    h_sq, k_sq = h**2, k**2
    n = getMeanMotion(sma, mu=mu)
    b = 1 / (1 + sqrt(1 - h_sq - k_sq))
    hkb = h * k * b
    F = meanLong2EccLong(mean_long, h, k)
    sinF, cosF = sin(F), cos(F)
    r = sma * (1 - h * sinF - k * cosF)
    vel_term = n * sma**2 / r
    x = sma * ((1 - h_sq * b) * cosF + hkb * sinF - k)
    y = sma * ((1 - k_sq * b) * sinF + hkb * cosF - h)
    x_dot = vel_term * (hkb * cosF - (1 - h_sq * b) * sinF)
    y_dot = vel_term * ((1 - k_sq * b) * cosF - hkb * sinF)
    f_hat, g_hat = getEquinoctialBasisVectors(p, q, retro=retro)
    return concatenate([x * f_hat + y * g_hat, x_dot * f_hat + y_dot * g_hat], axis=0)
"""

_ORBIT_UTILS_REF = """
def getEquinoctialBasisVectors(p, q, retro):
    II = 1 if not retro else -1
    p_sq, q_sq = p**2, q**2
    norm_term = 1 / (1 + p_sq + q_sq)
    f_vec = norm_term * array([1 - p_sq + q_sq, 2 * p * q, -2 * II * p])
    g_vec = norm_term * array([2 * II * p * q, (1 + p_sq - q_sq) * II, 2 * q])
    return f_vec, g_vec


def getAngularMomentumFromEQE(p, q, retro):
    II = 1 if not retro else -1
    p_sq, q_sq = p**2, q**2
    return 1 / (1 + p_sq + q_sq) * array([2 * p, -2 * q, (1 - p_sq - q_sq) * II])


def getAngularMomentum(r_vec, v_vec):
    return cross(r_vec, v_vec)


def getLineOfNodes(ang_momentum_vec):
    return cross(array([0, 0, 1], dtype=float), ang_momentum_vec)


def getEccentricity(r_vec, v_vec, mu):
    r, v = norm(r_vec), norm(v_vec)
    ecc_vector = ((v**2 - mu / r) * r_vec - vdot(r_vec, v_vec) * v_vec) / mu
    ecc = norm(ecc_vector)
    if not fpe_equals(ecc, 0.0):
        return ecc, ecc_vector / ecc
    return ecc, ecc_vector


def getOrbitalEnergy(r, v, mu):
    return 0.5 * v**2 - mu / r


def getSemiMajorAxis(r, v, mu):
    energy = getOrbitalEnergy(r, v, mu=mu)
    return -0.5 * mu / energy


def getPeriod(sma, mu):
    return TWOPI / getMeanMotion(sma, mu=mu)


def getMeanMotion(sma, mu):
    return sqrt(mu / sma**3)


def getSmaFromMeanMotion(mean_motion, mu):
    return (mu / mean_motion**2) ** (1 / 3.0)


def getTrueAnomaly(r_vec, v_vec, e_unit_vec):
    anomaly = safeArccos(vdot(e_unit_vec, r_vec) / norm(r_vec))
    return fixAngleQuadrant(anomaly, vdot(r_vec, v_vec))


def getArgumentPerigee(e_unit_vec, n_unit_vec):
    argp = safeArccos(vdot(n_unit_vec, e_unit_vec))
    return fixAngleQuadrant(argp, e_unit_vec[2])


def getRightAscension(n_unit_vec):
    raan = safeArccos(n_unit_vec[0])
    return fixAngleQuadrant(raan, n_unit_vec[1])


def getTrueLongitudePeriapsis(e_unit_vec):
    omega_true = safeArccos(e_unit_vec[0])
    return fixAngleQuadrant(omega_true, e_unit_vec[1])


def getArgumentLatitude(r_vec, n_unit_vec):
    arg_lat = safeArccos(vdot(n_unit_vec, r_vec) / norm(r_vec))
    return fixAngleQuadrant(arg_lat, r_vec[2])


def getTrueLongitude(r_vec):
    true_long = safeArccos(r_vec[0] / norm(r_vec))
    return fixAngleQuadrant(true_long, r_vec[1])
"""


def rule_r7(chk, p, t):
    r = chk.rule(
        "C12.R7",
        "Cartesian <-> classical / equinoctial: the cited constructions, definition by definition",
        19,
        "coe2eci is the perifocal construction (p = a (1 - e^2), r = p / (1 + e cos nu) (cos nu, sin nu, 0), v = sqrt(mu / p) "
        "(-sin nu, e + cos nu, 0), rotated by R3(-Omega) R1(-i) R3(-omega)); eci2eqe / eqe2eci are Danielson 2.1.5 / "
        "2.1.4 (p, q from the unit angular momentum with the retrograde factor, h = e.g, k = e.f, the eccentric longitude "
        "from X, Y, b = 1 / (1 + sqrt(1 - h^2 - k^2)); position and velocity in the equinoctial frame with their signs and "
        "the basis vectors f, g); the vector utilities (eccentricity vector, energy, semi-major axis, mean motion, the "
        "basis vectors) and the six classical angles with the component that fixes their quadrant (r.v for the true "
        "anomaly, e_z for the argument of perigee, n_y for the node, e_y, r_z, r_y for the longitudes) - every definition "
        "compared with the reference transcription as a rational function over opaque atoms, guards included "
        "(rsa/refdefs.py); a restructured computation is undecided, a deviating formula a violation",
        "round-trip numerics; the singular-case selection (R1) and the angle wrapping (R3, R4, R6)",
    )
    from rules.C20 import _ref_rule

    _ref_rule(r, p, _ORBIT_CONVERSIONS_REF, "resonaate.physics.orbits.conversions")
    _ref_rule(r, p, _ORBIT_UTILS_REF, "resonaate.physics.orbits.utils")


_KEPLER_RESIDUALS = {
    # residual -> (parameters, closed form, derivative function, its closed form)
    "_keplerEquation": (["E", "M", "ecc"], "E - ecc * sin(E) - M", "_keplerEquationDerivative", "1 - ecc * cos(E)"),
    "_equinoctialKeplerEquation": (["F", "h", "k", "lam"], "F + h * cos(F) - k * sin(F) - lam", "_equinoctialKeplerEquationDerivative", "1 - h * sin(F) - k * cos(F)"),
}
_KEPLER_SOLVERS = {"keplerSolveCOE": "_keplerEquation", "keplerSolveEQE": "_equinoctialKeplerEquation"}
# sine component first: h = e sin(w + I W), k = e cos(w + I W); p = tan^I(i/2) sin W, q = tan^I(i/2) cos W (R6)
_EQE_PAIRS = {frozenset(("h", "k")): ("h", "k"), frozenset(("p", "q")): ("p", "q")}


def rule_r8(chk, p, t):
    from rsa import ratfun as rf
    from rsa.terms import NotEvaluable, inline_locals, returned_exprs

    r = chk.rule(
        "C12.R8",
        "Kepler's equation: the residuals, what the solvers solve, and the equinoctial angle convention",
        12,
        "the classical residual is E - e sin E - M with derivative 1 - e cos E, the equinoctial one F + h cos F - k sin F - "
        "lambda with derivative 1 - h sin F - k cos F (compared as rational functions); keplerSolveCOE / keplerSolveEQE "
        "return, on every path, newton(residual, guess, fprime=its derivative, args=the residual's remaining parameters "
        "in its own order) - or the reduction of the equinoctial equation to the classical one with the longitude of "
        "perigee arctan2(h, k), mean anomaly lambda - (that longitude) and e = sqrt(h^2 + k^2); any other path is "
        "undecided; every arctan2 over the pair (h, k) or (p, q) in physics.orbits takes the sine component first (the "
        "definitions R6 checks); inside physics.orbits a bare name passed to a sibling function whose parameter list "
        "contains that very name is bound to that parameter (no transposed h / k, raan / argp ...)",
        "Newton convergence; the numerical value of any anomaly",
    )
    kmod = p.module(f"{ORB}.kepler")
    table = {}
    for res, (params, closed, der, dclosed) in _KEPLER_RESIDUALS.items():
        for nm, want, pars in ((res, closed, params), (der, dclosed, params)):
            fn = kmod.functions.get(nm)
            if fn is None:
                r.error(nm, "residual function not found")
                continue
            if list(fn.params) != pars:
                r.violation(fn.qualname + ":signature", f"residual-signature:{nm}:{fn.params}", f"{nm}{tuple(fn.params)}: newton passes (x, *args): expected parameters {pars}", fn.loc())
                continue
            try:
                rets = returned_exprs(fn)
            except NotEvaluable as e:
                r.undecided(fn.qualname, f"{e}", fn.loc())
                continue
            bad = [unparse(e) for e, _ in rets if not rf.same_value(e, rf.parse(want), table)]
            if bad:
                r.violation(fn.qualname, f"residual:{nm}:{bad[0][:60]}", f"{nm} returns `{bad[0][:90]}`, Kepler's equation in root-finding form is `{want}`", fn.loc())
            else:
                r.ok(fn.qualname, want, fn.loc())
    for nm, res in _KEPLER_SOLVERS.items():
        fn = kmod.functions.get(nm)
        if fn is None:
            r.error(nm, "solver not found")
            continue
        params, _, der, _ = _KEPLER_RESIDUALS[res]
        try:
            rets = returned_exprs(fn)
        except NotEvaluable as e:
            r.undecided(fn.qualname, f"{e}", fn.loc())
            continue
        for e, conds in rets:
            cons = f"{fn.qualname}:return@{unparse(e)[:40]}"
            e = inline_locals(fn, e)
            if isinstance(e, ast.Call) and call_name(e) == "newton":
                kw = {k.arg: k.value for k in e.keywords}
                pos = list(e.args)
                f0 = pos[0] if pos else kw.get("func")
                x0 = pos[1] if len(pos) > 1 else kw.get("x0")
                fp = pos[2] if len(pos) > 2 else kw.get("fprime")
                ar = pos[3] if len(pos) > 3 else kw.get("args")
                bad = []
                if not (isinstance(f0, ast.Name) and f0.id == res):
                    bad.append(f"the function solved is `{unparse(f0) if f0 is not None else None}`, not {res}")
                if fp is None:
                    pass  # secant iteration on the same residual: same root
                elif not (isinstance(fp, ast.Name) and fp.id == der):
                    bad.append(f"fprime is `{unparse(fp)}`, not {der}")
                if not (isinstance(x0, ast.Name) and x0.id == fn.params[0]):
                    bad.append(f"the initial guess is `{unparse(x0) if x0 is not None else None}`, not the caller's {fn.params[0]}")
                want_args = params[1:]
                got_args = [unparse(a) for a in ar.elts] if isinstance(ar, ast.Tuple) else None
                if got_args != want_args:
                    bad.append(f"args={got_args} but {res} takes (x, {', '.join(want_args)})")
                if bad:
                    r.violation(cons, f"solver:{nm}:" + ";".join(b[:40] for b in bad), f"{nm}: " + "; ".join(bad), fn.loc(e))
                else:
                    r.ok(cons, f"newton({res}, {fn.params[0]}, fprime={der}, args=({', '.join(want_args)}))", fn.loc(e))
                continue
            # reduction of the equinoctial equation to the classical one
            red = None
            if nm == "keplerSolveEQE" and isinstance(e, ast.BinOp) and isinstance(e.op, ast.Add):
                for lp, call in ((e.left, e.right), (e.right, e.left)):
                    if isinstance(call, ast.Call) and call_name(call) == "keplerSolveCOE" and len(call.args) >= 3:
                        red = (lp, call)
            if red is None:
                r.undecided(cons, f"`{unparse(e)[:80]}` is neither the Newton iteration on {res} nor the recognised reduction to the classical equation", fn.loc(e))
                continue
            lp, call = red
            want_lp = rf.parse("arctan2(h, k)")
            m_arg, e_arg = call.args[1], call.args[2]
            while isinstance(m_arg, ast.Call) and call_name(m_arg) in ("wrapAngle2Pi", "wrapAnglePi", "wrapAngleNegPiPi"):
                m_arg = m_arg.args[0]
            bad = []
            if canon(lp) != canon(want_lp):
                bad.append(f"the longitude of perigee is `{unparse(lp)[:40]}`; with h = e sin(w + W), k = e cos(w + W) it is arctan2(h, k)")
            if not rf.same_value(m_arg, ast.BinOp(rf.parse("lam"), ast.Sub(), lp), table):
                bad.append(f"the mean anomaly is `{unparse(m_arg)[:50]}`, not lam - (longitude of perigee)")
            if not (rf.same_value(e_arg, rf.parse("sqrt(h ** 2 + k ** 2)"), table) or canon(e_arg) == canon(rf.parse("sqrt(h ** 2 + k ** 2)"))):
                bad.append(f"the eccentricity is `{unparse(e_arg)[:40]}`, not sqrt(h^2 + k^2)")
            if bad:
                r.violation(cons, f"reduction:{nm}:" + ";".join(b[:40] for b in bad), f"{nm}: " + "; ".join(bad), fn.loc(e))
            else:
                r.ok(cons, "F = (w + W) + E with E solving the classical equation for M = lambda - (w + W)", fn.loc(e))
    # the angle convention of the equinoctial pairs, and transposed arguments between siblings
    n_pairs = n_calls = 0
    orb_funcs = {}
    for q, m in p.modules.items():
        if q.startswith(ORB):
            for f in m.functions.values():
                orb_funcs.setdefault(f.name, []).append(f)
    for q, m in sorted(p.modules.items()):
        if not q.startswith(ORB):
            continue
        for fi in m.functions.values():
            for c in walk_no_nested(fi.node):
                if not isinstance(c, ast.Call):
                    continue
                cn = call_name(c)
                if cn in ("arctan2", "atan2") and len(c.args) == 2 and all(isinstance(a, ast.Name) for a in c.args):
                    pair = _EQE_PAIRS.get(frozenset(a.id for a in c.args))
                    if pair is not None:
                        n_pairs += 1
                        cons = f"{fi.qualname}:{unparse(c)}"
                        if (c.args[0].id, c.args[1].id) == pair:
                            r.ok(cons, "sine component first", fi.loc(c))
                        else:
                            r.violation(cons, f"eqe-angle:{fi.name}:{unparse(c)}", f"`{unparse(c)}`: {pair[0]} carries the sine and {pair[1]} the cosine of the angle (coe2eqe, Danielson 2.1.2), so the angle is arctan2({pair[0]}, {pair[1]}); this is its complement", fi.loc(c))
                cands = orb_funcs.get(cn, [])
                if len(cands) == 1 and not any(isinstance(a, ast.Starred) for a in c.args):
                    callee = cands[0]
                    cpars = list(callee.params)
                    if callee.cls is not None and cpars and cpars[0] in ("self", "cls"):
                        cpars = cpars[1:]
                    bound = {cpars[i]: a for i, a in enumerate(c.args) if i < len(cpars)}
                    bound.update({k.arg: k.value for k in c.keywords if k.arg})
                    # a name that lands on another parameter while its own parameter receives something else (the
                    # same name reaching both - the mean longitude as first guess - is no transposition)
                    swapped = [
                        (a.id, par)
                        for par, a in bound.items()
                        if isinstance(a, ast.Name) and a.id in cpars and par != a.id and par in cpars
                        and not (isinstance(bound.get(a.id), ast.Name) and bound[a.id].id == a.id)
                        and a.id in bound
                    ]
                    if any(isinstance(a, ast.Name) and a.id in cpars for a in bound.values()) or swapped:
                        n_calls += 1
                        cons = f"{fi.qualname}:{unparse(c)[:50]}"
                        if swapped:
                            r.violation(cons, f"transposed:{fi.name}:{cn}:{swapped}", f"`{unparse(c)[:90]}`: " + "; ".join(f"`{a}` is passed as `{b}` although {cn} has a parameter `{a}`" for a, b in swapped), fi.loc(c))
                        else:
                            r.ok(cons, "names bound to their own parameters", fi.loc(c))
    if n_pairs < 2:
        r.error("eqe-pairs", f"{n_pairs} arctan2 over an equinoctial pair found (2 confirmed by hand in eqe2coe)")
    if n_calls < 10:
        r.error("sibling-calls", f"only {n_calls} sibling calls with same-named arguments found")


# ====================================================================== R9
def rule_r9(chk, p, t):
    from rules.C04 import chain, factor_nfs
    from rsa.cfg import cfg_of  # noqa: F401
    from rsa.util import parents_map

    r = chk.rule(
        "C12.R9",
        "special-case forms of the perifocal rotation hold at both ends of the inclination range",
        1,
        "coe2eci rotates the perifocal vectors by R3(-Omega) R1(-i) R3(-omega) for every inclination in [0, pi].  A "
        "definition of that rotation that is selected by the repo's inclination predicate is compared with the chain at "
        "every inclination the selecting branch admits: the generic branch symbolically, the `not isInclined` branch at "
        "both ends of the domain read off isInclined's own body (its error guard gives the domain, its returned "
        "interval the inclined part) - with R1(0) = I, R1(+-pi) = diag(1, -1, -1) =: F, R3(a) R3(b) = R3(a + b) and "
        "F R3(a) = R3(-a) F.  A shortcut that is right for i = 0 and wrong for i = pi (retrograde equatorial) is a "
        "violation; a shape outside this algebra is left to R7 (undecided there)",
        "the numerical state",
    )
    fn = p.func(f"{ORB}.conversions.coe2eci")
    inc_fn = p.func(f"{ORB}.isInclined")

    def domain_ends():
        """(L, U) of isInclined's domain when its returned interval is [L + tol, U - tol]-shaped"""
        par0 = inc_fn.params[0]
        lo = hi = None
        for st in inc_fn.node.body:
            if isinstance(st, ast.If) and all(isinstance(s, ast.Raise) for s in st.body):
                for c in st.test.values if isinstance(st.test, ast.BoolOp) and isinstance(st.test.op, ast.Or) else [st.test]:
                    if isinstance(c, ast.Compare) and len(c.ops) == 1 and isinstance(c.left, ast.Name) and c.left.id == par0:
                        if isinstance(c.ops[0], ast.Lt):
                            lo = c.comparators[0]
                        elif isinstance(c.ops[0], ast.Gt):
                            hi = c.comparators[0]
        rets = [n for n in walk_no_nested(inc_fn.node) if isinstance(n, ast.Return)]
        require(lo is not None and hi is not None and len(rets) == 1, "isInclined: domain guard / single return not recognised", inc_fn.node)
        rv = rets[0].value
        require(isinstance(rv, ast.Compare) and len(rv.ops) == 2 and all(isinstance(o, (ast.LtE, ast.Lt)) for o in rv.ops) and isinstance(rv.comparators[0], ast.Name) and rv.comparators[0].id == par0, "isInclined does not return `a <= inc <= b`", rv)
        return lo, hi

    def is_pi(e):
        return (isinstance(e, ast.Attribute) and e.attr in ("PI", "pi")) or (isinstance(e, ast.Name) and e.id in ("PI", "pi"))

    def is_zero(e):
        return isinstance(e, ast.Constant) and isinstance(e.value, (int, float)) and e.value == 0

    def subst(e, name, val):
        class S(ast.NodeTransformer):
            def visit_Name(self, n):
                return copy.deepcopy(val) if n.id == name else n

        return S().visit(copy.deepcopy(e))

    def angle_class(e):
        """0 / +-pi / None for a rot1 argument after substitution"""
        x = e
        while isinstance(x, ast.UnaryOp) and isinstance(x.op, (ast.USub, ast.UAdd)):
            x = x.operand
        if is_zero(x):
            return "zero"
        if is_pi(x):
            return "pi"
        return None

    def nf(e):
        """(canonical total R3 angle, parity of F) of a chain of R3 / degenerate R1 factors; None if outside the algebra"""
        total = ast.Constant(0)
        flips = 0
        for f in chain(e):
            for k in factor_nfs(f):
                if k[0] != "rot":
                    return None
                _, axis, ang, sign = k
                if axis == 1:
                    cl = angle_class(ang)
                    if cl == "zero":
                        continue
                    if cl == "pi":
                        flips += 1
                        continue
                    return None
                if axis != 3:
                    return None
                a = ang if sign > 0 else ast.UnaryOp(ast.USub(), ang)
                if flips % 2:
                    a = ast.UnaryOp(ast.USub(), a)
                total = ast.BinOp(total, ast.Add(), a)
        return canon(total), flips % 2

    def generic_nf(e):
        out = []
        for f in chain(e):
            for k in factor_nfs(f):
                if k[0] != "rot":
                    return None
                out.append((k[1], canon(k[2] if k[3] > 0 else ast.UnaryOp(ast.USub(), k[2]))))
        return out

    def one():
        import copy as _c  # noqa: F401

        inc = fn.params[2]
        raan, argp = fn.params[3], fn.params[4]
        ref = ast.parse(f"rot3(-{raan}).dot(rot1(-{inc}).dot(rot3(-{argp})))", mode="eval").body
        par = parents_map(fn.node)
        rot_defs = [n for n in walk_no_nested(fn.node) if isinstance(n, ast.Assign) and len(n.targets) == 1 and isinstance(n.targets[0], ast.Name) and any(isinstance(c, ast.Call) and call_name(c) in ("rot1", "rot3") for c in ast.walk(n.value))]
        require(rot_defs, "coe2eci: no rotation built from rot1 / rot3", fn.node)
        lo, hi = domain_ends()
        n_checked = 0
        for d in rot_defs:
            # selecting condition: the nearest enclosing `if` on isInclined(inc) (possibly negated)
            node, child, sel = par.get(d), d, None
            while node is not None and node is not fn.node:
                if isinstance(node, ast.If):
                    tst, neg = node.test, False
                    while isinstance(tst, ast.UnaryOp) and isinstance(tst.op, ast.Not):
                        tst, neg = tst.operand, not neg
                    if isinstance(tst, ast.Call) and call_name(tst) == "isInclined" and tst.args and isinstance(tst.args[0], ast.Name) and tst.args[0].id == inc and len(tst.args) == 1 and not tst.keywords:
                        in_body = any(child is s for s in node.body)
                        sel = "inclined" if in_body != neg else "not-inclined"
                        break
                    raise Undecided(f"`{unparse(d)[:60]}` is selected by `{unparse(node.test)}`, not by isInclined({inc})", node)
                child, node = node, par.get(node)
            if sel is None:
                continue  # unconditional definition: R7 compares it with the chain
            cons = f"{fn.qualname}:{d.targets[0].id}:{sel}"
            if sel == "inclined":
                g1, g2 = generic_nf(d.value), generic_nf(ref)
                if g1 is None:
                    raise Undecided(f"`{unparse(d.value)[:70]}` is not a product of elementary rotations", d)
                if g1 != g2:
                    r.violation(cons, "generic-chain", f"`{unparse(d.value)[:80]}` (inclined case) is not R3(-{raan}) R1(-{inc}) R3(-{argp})", fn.loc(d))
                    return
                n_checked += 1
                continue
            for end, label in ((lo, "lower end"), (hi, "upper end (retrograde equatorial)")):
                a = nf(subst(d.value, inc, end))
                b = nf(subst(ref, inc, end))
                if a is None or b is None:
                    raise Undecided(f"`{unparse(d.value)[:70]}` at {inc} = {unparse(end)} is outside the R3 / degenerate-R1 algebra", d)
                if a != b:
                    r.violation(cons, f"end:{unparse(end)}", f"`{unparse(d.value)[:80]}` is used whenever not isInclined({inc}), which includes {inc} = {unparse(end)} ({label}); there the rotation must be R3(-{raan}) R1(-{unparse(end)}) R3(-{argp}) = R3({'-' + raan + ' + ' + argp if b[1] else '-' + raan + ' - ' + argp}){' diag(1, -1, -1)' if b[1] else ''}, the shortcut gives something else: a retrograde equatorial orbit is mapped onto the prograde one (y and z of position and velocity mirrored)", fn.loc(d))
                    return
                n_checked += 1
        r.ok(fn.qualname, f"{len(rot_defs)} definition(s) of the perifocal rotation, {n_checked} selected special-case evaluations agree with the 3-1-3 chain", fn.loc())

    r.guard(fn.qualname, one)


def run(chk, p, t):
    chk.explanation = (
        "Static decision of a narrow set of structural necessary conditions of C12: (R1) the four places that split "
        "on (inclined, eccentric) agree on the case partition, on which slots are zero and on which slot carries the "
        "defining angle of each singular case (path conditions to each return / assignment); (R2) angular "
        "configuration fields are converted to radians exactly once, non-angular ones never; (R3) every anomaly "
        "conversion is range-wrapped, circular cases guarded, closed forms as documented; (R4) every arc-cosine of a "
        "normalised dot product in the element code is domain-safe; configuration fields are all consumed. NOT decided: any round trip "
        "as numbers, Newton convergence of Kepler's equation."
    )
    chk.assumptions += ["isInclined / isEccentric are the single threshold helpers (tolerances in physics/orbits/__init__.py)"]
    for fn in (rule_r1, rule_r2, rule_r3, rule_r4, rule_r5, rule_r6, rule_r7, rule_r8, rule_r9):
        rid = "C12.R" + fn.__name__[-1]
        if not chk.wants(rid):
            continue
        try:
            fn(chk, p, t)
        except (Undecided, AnchorError) as e:
            rr = chk.rule(rid + ".x", fn.__name__, 0, "-")
            (rr.undecided if isinstance(e, Undecided) else rr.error)(fn.__name__, str(e))
