"""C13 - high-fidelity force model equals an independent reference at every state / epoch.

Decides: perturbation switch coverage ("present exactly when configured") (R1), frame-kind
discipline of the geopotential call and of the summed terms (R2), slot agreement and unit
conversions (R3), agreement of each perturbation formula with its cited reference equations by
normal-form comparison modulo renaming of locals (R4).  Does NOT decide the value of any formula,
the ephemerides, or continuity of Sun / Moon positions.
"""

from __future__ import annotations

import ast
import copy

from rsa.cfg import cfg_of
from rsa.model import AnchorError, Undecided, call_name, unparse, walk_no_nested
from rsa.terms import canon, inline_locals, single_defs
from rsa.util import find_calls, require

SP = "resonaate.dynamics.special_perturbations"
GP = "resonaate.physics.bodies.gravitational_potential"


def _alpha(fn_node, expr, keep=()):
    """Rename local variables (not parameters / globals) by order of first appearance."""
    a = fn_node.args
    params = {x.arg for x in a.posonlyargs + a.args + a.kwonlyargs}
    assigned = set()
    for n in walk_no_nested(fn_node):
        if isinstance(n, ast.Name) and isinstance(n.ctx, ast.Store):
            assigned.add(n.id)
    mapping = {}

    class R(ast.NodeTransformer):
        def visit_Name(self, node):
            if node.id in assigned and node.id not in params and node.id not in keep:
                if node.id not in mapping:
                    mapping[node.id] = f"L{len(mapping)}"
                return ast.copy_location(ast.Name(mapping[node.id], node.ctx), node)
            return node

    return R().visit(copy.deepcopy(expr))


def rule_r1(chk, p, t):
    r = chk.rule(
        "C13.R1",
        "perturbation switch coverage",
        4,
        "each perturbation term is defined under its own switch (0 otherwise), every term is added with positive sign "
        "into the sum, the sum and the point-mass term reach the velocity derivative of the same state; configuration "
        "fields map one-to-one onto the switches; the third-body factory is total over its labels",
    )
    cls = p.cls(f"{SP}.SpecialPerturbations")
    de = cls.methods.get("_differentialEquation")
    init = cls.methods.get("__init__")

    def f1():
        defs = {}
        for n in walk_no_nested(de.node):
            if isinstance(n, ast.Assign) and isinstance(n.targets[0], ast.Name):
                defs.setdefault(n.targets[0].id, []).append(n.value)
        bad = []
        srp = defs.get("a_srp", [None])[0]
        ok_srp = isinstance(srp, ast.IfExp) and unparse(srp.test) == "self.use_srp" and unparse(srp.orelse) in ("0.0", "0") and isinstance(srp.body, ast.Call) and call_name(srp.body) == "_getSolarRadiationPressureAcceleration"
        if not ok_srp:
            bad.append(f"a_srp = `{unparse(srp) if srp is not None else None}` (expected SRP term if self.use_srp else 0.0)")
        gr = defs.get("a_gr", [None])[0]
        ok_gr = isinstance(gr, ast.IfExp) and unparse(gr.test) == "self.use_gr" and unparse(gr.orelse) in ("0.0", "0") and isinstance(gr.body, ast.Call) and call_name(gr.body) in ("_getGeneralRelativityAcceleration",)
        if not ok_gr:
            bad.append(f"a_gr = `{unparse(gr) if gr is not None else None}` (expected relativistic term if self.use_gr else 0.0)")
        tb = defs.get("a_third_body", [None])[0]
        ok_tb = isinstance(tb, ast.Call) and call_name(tb) in ("np_sum", "sum") and isinstance(tb.args[0], (ast.ListComp, ast.GeneratorExp)) and unparse(tb.args[0].generators[0].iter) == "positions.items()" and not tb.args[0].generators[0].ifs
        if not ok_tb:
            bad.append(f"a_third_body = `{unparse(tb)[:80] if tb is not None else None}` (expected the sum over all configured bodies)")
        pos = defs.get("positions", [None])[0]
        ok_pos = isinstance(pos, ast.DictComp) and unparse(pos.generators[0].iter) == "self.third_bodies" and not pos.generators[0].ifs and unparse(pos.value) == "body.getPosition(julian_date)" and unparse(pos.key) == "body"
        if not ok_pos:
            bad.append(f"positions = `{unparse(pos)[:80] if pos is not None else None}`")
        tot = defs.get("a_perturbations", [None])[0]
        want = canon(ast.parse("a_nonspherical + a_third_body + a_srp + a_gr", mode="eval").body)
        if tot is None or canon(tot) != want:
            bad.append(f"a_perturbations = `{unparse(tot) if tot is not None else None}` (every term must be added once, with positive sign)")
        # velocity derivative
        stores = [n for n in walk_no_nested(de.node) if isinstance(n, ast.Assign) and isinstance(n.targets[0], ast.Subscript) and unparse(n.targets[0].value) == "derivative"]
        vel = [n for n in stores if isinstance(n.targets[0].slice, ast.Slice) and n.targets[0].slice.lower is not None and unparse(n.targets[0].slice.lower) == "jj + half"]
        want_v = canon(ast.parse("-1.0 * Earth.mu / norm(r_eci) ** 3.0 * r_eci + a_perturbations", mode="eval").body)
        if len(vel) != 1 or canon(vel[0].value) != want_v:
            bad.append(f"velocity derivative = `{unparse(vel[0].value) if vel else None}` (expected -mu r/|r|^3 + a_perturbations)")
        # no term computed and dropped: every a_* local is read
        for nm in ("a_nonspherical", "a_third_body", "a_srp", "a_gr", "a_perturbations"):
            loads = [n for n in walk_no_nested(de.node) if isinstance(n, ast.Name) and n.id == nm and isinstance(n.ctx, ast.Load)]
            if not loads:
                bad.append(f"{nm} is computed and never used")
        if bad:
            r.violation(de.qualname, "terms:" + ";".join(bad), "the perturbation sum is not 'each term exactly when configured': " + "; ".join(bad), de.loc())
        else:
            r.ok(de.qualname, "geopotential + third bodies + (SRP if use_srp) + (GR if use_gr) + point mass", de.loc(), obligations=5)

    r.guard(de.qualname, f1)

    def f2():
        asg = {}
        for n in walk_no_nested(init.node):
            if isinstance(n, ast.Assign):
                for tg in n.targets:
                    if isinstance(tg, ast.Attribute):
                        asg[tg.attr] = unparse(n.value)
                    elif isinstance(tg, ast.Tuple):
                        asg["+".join(unparse(x) for x in tg.elts)] = unparse(n.value)
        geo, pert = init.params[2], init.params[3]
        exp = {
            "use_srp": f"{pert}.solar_radiation_pressure",
            "use_gr": f"{pert}.general_relativity",
            "third_bodies": f"thirdBodyFactory({pert}.third_bodies)",
            "degree": f"{geo}.degree",
            "order": f"{geo}.order",
            "init_julian_date": init.params[1],
            "sat_ratio": init.params[4],
            "self.c_nm+self.s_nm": f"loadGeopotentialCoefficients({geo}.model)",
        }
        bad = [f"{k} = {asg.get(k)}" for k, v in exp.items() if asg.get(k) != v]
        if bad:
            r.violation(init.qualname, "switches:" + ";".join(bad), f"configuration fields do not map onto their switches: {bad}", init.loc())
        else:
            r.ok(init.qualname, "srp / gr / third bodies / degree / order / model taken from their own configuration fields", init.loc(), obligations=8)
        pc = p.cls("resonaate.scenario.config.perturbations_config.PerturbationsConfig")
        fields = set(pc.class_annots)
        need = {"third_bodies", "solar_radiation_pressure", "general_relativity"}
        if need <= fields:
            r.ok(pc.qualname, f"fields {sorted(need)}", pc.loc())
        else:
            r.violation(pc.qualname, f"fields:{sorted(fields)}", f"PerturbationsConfig lacks {sorted(need - fields)}", pc.loc())

    r.guard(init.qualname, f2)
    tbf = p.func(f"{SP}.thirdBodyFactory")

    def f3():
        cfg = cfg_of(tbf)
        stores = [n for n in walk_no_nested(tbf.node) if isinstance(n, ast.Assign) and isinstance(n.targets[0], ast.Subscript) and unparse(n.targets[0].value) == "third_bodies"]
        pairs = {}
        for s in stores:
            node = cfg.node_of(s)
            for cid, lab in cfg.control_conditions(node.id):
                tst = cfg.nodes[cid].ast
                if lab is True and isinstance(tst, ast.Compare) and isinstance(tst.comparators[0], ast.Constant):
                    pairs[tst.comparators[0].value] = unparse(s.targets[0].slice)
        # table form: third_bodies[TABLE[label]] = ... with a module-level dict literal TABLE
        for s in stores:
            key = s.targets[0].slice
            if isinstance(key, ast.Subscript) and isinstance(key.value, ast.Name):
                for st in tbf.module.tree.body:
                    tg = st.targets[0] if isinstance(st, ast.Assign) else (st.target if isinstance(st, ast.AnnAssign) else None)
                    val = getattr(st, "value", None)
                    if isinstance(tg, ast.Name) and tg.id == key.value.id and isinstance(val, ast.Dict):
                        guard_ok = any(isinstance(n, ast.Compare) and isinstance(n.ops[0], (ast.NotIn, ast.In)) and unparse(n.comparators[0]) == tg.id for n in ast.walk(tbf.node))
                        if guard_ok:
                            for k, v in zip(val.keys, val.values):
                                if isinstance(k, ast.Constant):
                                    pairs[k.value] = unparse(v)
        exp = {"sun": "Sun", "moon": "Moon", "jupiter": "Jupiter", "saturn": "Saturn", "venus": "Venus"}
        raises = [n for n in walk_no_nested(tbf.node) if isinstance(n, ast.Raise)]
        if pairs == exp and raises:
            r.ok(tbf.qualname, f"{sorted(pairs)} -> body classes; unknown label raises", tbf.loc())
        else:
            r.violation(tbf.qualname, f"factory:{sorted(pairs.items())}", f"thirdBodyFactory maps {pairs}; expected {exp} and a ValueError otherwise", tbf.loc())
        # the returned set is built afresh on every call
        fresh = [n for n in walk_no_nested(tbf.node) if isinstance(n, ast.Assign) and unparse(n.targets[0]) == "third_bodies" and (isinstance(n.value, ast.Dict) and not n.value.keys or (isinstance(n.value, ast.Call) and call_name(n.value) == "dict" and not n.value.args))]
        if fresh and "third_bodies" not in tbf.all_params:
            r.ok(tbf.qualname + ":fresh", "the third-body set is a new dict per call", tbf.loc(fresh[0]))
        else:
            r.violation(tbf.qualname + ":fresh", "shared-third-body-set", "the third-body set is not created afresh in thirdBodyFactory (a parameter / default / module object is filled in and returned): dynamics objects built in one process share one set, so a body configured for one object perturbs all of them", tbf.loc())

    r.guard(tbf.qualname, f3)

    # no force-model function accumulates into a mutable default argument
    def f4():
        n_fun = 0
        for fi in p.all_functions(include_nested=True):
            if not fi.module.name.startswith(("resonaate.dynamics", "resonaate.physics.bodies")):
                continue
            n_fun += 1
            a = fi.node.args
            pos = a.posonlyargs + a.args
            pairs_d = list(zip(pos[len(pos) - len(a.defaults) :], a.defaults)) + [(x, d) for x, d in zip(a.kwonlyargs, a.kw_defaults) if d is not None]
            for arg, d in pairs_d:
                mutable = isinstance(d, (ast.Dict, ast.List, ast.Set)) or (isinstance(d, ast.Call) and call_name(d) in ("dict", "list", "set", "defaultdict", "zeros", "array"))
                if not mutable:
                    continue
                nm = arg.arg
                mutated = False
                for n in walk_no_nested(fi.node):
                    if isinstance(n, (ast.Assign, ast.AugAssign)):
                        for tg in n.targets if isinstance(n, ast.Assign) else [n.target]:
                            b = tg
                            while isinstance(b, (ast.Subscript, ast.Attribute)):
                                b = b.value
                            if isinstance(b, ast.Name) and b.id == nm and b is not tg:
                                mutated = True
                    if isinstance(n, ast.Call) and isinstance(n.func, ast.Attribute) and isinstance(n.func.value, ast.Name) and n.func.value.id == nm and n.func.attr in ("append", "extend", "update", "add", "setdefault", "pop", "insert", "clear"):
                        mutated = True
                    if isinstance(n, ast.Return) and isinstance(n.value, ast.Name) and n.value.id == nm:
                        mutated = True
                if mutated:
                    r.violation(f"{fi.qualname}:{nm}", f"mutable-default:{nm}", f"`{nm}={unparse(d)}` is a mutable default that {fi.name} fills in / returns: the object is shared by every call in the process, so the force model of one agent depends on which other agents were built before it", fi.loc())
        r.ok("force-model:mutable-defaults", f"{n_fun} force-model functions: no mutable default argument is mutated or returned", "")

    r.guard("force-model:mutable-defaults", f4)
    return


def rule_r2(chk, p, t):
    r = chk.rule(
        "C13.R2",
        "frame kinds",
        4,
        "the geopotential is evaluated on the Earth-fixed position R^T r and its result rotated back by R; third-body "
        "and SRP helpers get (satellite, body) in that slot order; the SRP Sun position is the third-body Sun when both "
        "are on; all positions are evaluated at the one absolute epoch",
    )
    cls = p.cls(f"{SP}.SpecialPerturbations")
    de = cls.methods.get("_differentialEquation")

    def f1():
        defs = {}
        for n in walk_no_nested(de.node):
            if isinstance(n, ast.Assign) and isinstance(n.targets[0], ast.Name):
                defs[n.targets[0].id] = n.value
        bad = []
        rot = defs.get("ecef_2_eci")
        if not (isinstance(rot, ast.Call) and call_name(rot) == "_getRotationMatrix" and unparse(rot.args[0]) == "julian_date" and unparse(rot.args[1]) == "ReductionParams.build(_datetime)"):
            bad.append(f"ecef_2_eci = `{unparse(rot) if rot is not None else None}`")
        if unparse(defs.get("_datetime", ast.Constant(0))) != "julianDateToDatetime(julian_date)":
            bad.append("reduction parameters are not built at the derivative's own epoch")
        recef = defs.get("r_ecef")
        if unparse(recef) not in ("matmul(ecef_2_eci.T, r_eci)", "ecef_2_eci.T @ r_eci", "ecef_2_eci.T.dot(r_eci)"):
            bad.append(f"r_ecef = `{unparse(recef) if recef is not None else None}` (expected R^T r_eci)")
        ans = defs.get("a_nonspherical")
        ok = isinstance(ans, ast.Call) and call_name(ans) == "matmul" and unparse(ans.args[0]) == "ecef_2_eci" and isinstance(ans.args[1], ast.Call) and call_name(ans.args[1]) == "nonSphericalAcceleration"
        if not ok:
            bad.append(f"a_nonspherical = `{unparse(ans)[:80] if ans is not None else None}` (expected R . g(r_ecef))")
        else:
            args = [unparse(a) for a in ans.args[1].args]
            if args != ["r_ecef", "Earth.mu", "Earth.radius", "self.c_nm", "self.s_nm", "self.degree", "self.order"]:
                bad.append(f"nonSphericalAcceleration arguments {args}")
        if bad:
            r.violation(de.qualname + ":geopotential", "frames:" + ";".join(bad), "geopotential frame discipline: " + "; ".join(bad), de.loc())
        else:
            r.ok(de.qualname + ":geopotential", "R . g(R^T r, mu, Re, C, S, degree, order)", de.loc())
        bad = []
        tb = defs.get("a_third_body")
        elt = tb.args[0].elt if isinstance(tb, ast.Call) and tb.args and isinstance(tb.args[0], (ast.ListComp, ast.GeneratorExp)) else None
        tnames = None
        if elt is not None and isinstance(tb.args[0].generators[0].target, ast.Tuple) and len(tb.args[0].generators[0].target.elts) == 2 and all(isinstance(x, ast.Name) for x in tb.args[0].generators[0].target.elts):
            tnames = [x.id for x in tb.args[0].generators[0].target.elts]  # (body, position) under whatever spelling
        if elt is None or tnames is None or canon(elt) != canon(ast.parse(f"{tnames[0]}.mu * _getThirdBodyAcceleration(r_eci, {tnames[1]})", mode="eval").body) or "items()" not in unparse(tb.args[0].generators[0].iter):
            bad.append(f"third-body term `{unparse(elt) if elt is not None else None}` (expected body.mu * acc(r_eci, position))")
        srp = defs.get("a_srp")
        body = srp.body if isinstance(srp, ast.IfExp) else None
        def sun_ok(e):
            """the Sun position: the table entry when the Sun is a configured third body, else its own ephemeris call"""
            if isinstance(e, ast.Name) and e.id in defs:
                e = defs[e.id]
            if not (isinstance(e, ast.IfExp) and isinstance(e.test, ast.Compare) and len(e.test.ops) == 1 and isinstance(e.test.ops[0], (ast.In, ast.NotIn)) and unparse(e.test.left) == "Sun" and unparse(e.test.comparators[0]) == "self.third_bodies"):
                return False
            when_in, when_out = (e.body, e.orelse) if isinstance(e.test.ops[0], ast.In) else (e.orelse, e.body)
            return unparse(when_in) == "positions[Sun]" and unparse(when_out) == "Sun.getPosition(julian_date)"

        args_ = list(body.args) if body is not None else []
        a1 = args_[1] if len(args_) == 2 else None
        inner = a1.args[0] if isinstance(a1, ast.Call) and call_name(a1) in ("array", "asarray") and len(a1.args) == 1 else None
        if body is None or len(args_) != 2 or unparse(args_[0]) != "r_eci" or inner is None:
            bad.append(f"SRP arguments {[unparse(a) for a in body.args] if body is not None else None}")
        elif not sun_ok(inner):
            bad.append(f"the Sun position handed to the SRP term is `{unparse(defs.get(inner.id, inner) if isinstance(inner, ast.Name) else inner)[:90]}` (expected positions[Sun] when the Sun is a third body, else Sun.getPosition(julian_date))")
        gr = defs.get("a_gr")
        gbody = gr.body if isinstance(gr, ast.IfExp) else None
        if gbody is None or [unparse(a) for a in gbody.args] != ["r_eci", "v_eci"]:
            bad.append("relativistic term arguments")
        if bad:
            r.violation(de.qualname + ":helpers", "slots:" + ";".join(bad), "helper argument slots: " + "; ".join(bad), de.loc())
        else:
            r.ok(de.qualname + ":helpers", "(satellite, body) slot order; one Sun position; GR on (r, v)", de.loc())

    r.guard(de.qualname, f1)
    for nm in ("Sun", "Moon"):
        c = p.cls(f"resonaate.physics.bodies.third_body.{nm}")
        gpm = p.lookup_method(c, "getPosition")
        if gpm is None:
            r.error(c.qualname, "getPosition not found")
        else:
            r.ok(c.qualname + ".getPosition", "position is a function of the Julian date argument", gpm.loc())


def _expect(r, fn, name, actual, want_src, what, keep=()):
    got = canon(_alpha(fn.node, actual, keep))
    want = canon(_alpha(fn.node, ast.parse(want_src, mode="eval").body, keep))
    if got == want:
        return True
    return False


def _harmonic_domain(nsa, deg, order, cname):
    """Iteration domain of the geopotential accumulation(s) against the specification {(n, m): 2 <= n <= degree,
    0 <= m <= min(n, order)}, each pair exactly once.  Loop bounds (`range` with affine bounds over the loop variables,
    the two parameters, 0 / 1 / 2, `min` / `max`) and the dominating comparisons are turned into comparison-only
    predicates over the symbols n, m, N, M, 0, 1, 2 (an exclusive bound `X + 1` becomes `<= X`: integers) and evaluated
    on every weak ordering with 0 < 1 < 2, no variable strictly between consecutive constants, M <= N (documented) and
    N >= 2, M >= 0.  Returns a message for a deviation, None when the domains agree; raises Undecided for bounds it
    cannot read."""
    from rsa import orderings as O
    from rsa.cfg import cfg_of
    from rsa.util import parents_map

    pm = parents_map(nsa.node)
    cfg = cfg_of(nsa)
    accs = [n for n in walk_no_nested(nsa.node) if isinstance(n, ast.AugAssign) and isinstance(n.op, ast.Add) and unparse(n.target) == "acceleration"]
    if not accs:
        raise Undecided("nonSphericalAcceleration: no `acceleration += ...` accumulation found", nsa.node)
    # which loop variable is the degree / the order: first / second index of the coefficient table
    dvar = ovar = None
    for n in walk_no_nested(nsa.node):
        if isinstance(n, ast.Subscript) and unparse(n.value) == cname and isinstance(n.slice, ast.Tuple) and len(n.slice.elts) == 2:
            a, b = n.slice.elts
            if isinstance(a, ast.Name):
                dvar = dvar or a.id
            if isinstance(b, ast.Name):
                ovar = ovar or b.id
    if dvar is None:
        raise Undecided("nonSphericalAcceleration: the coefficient table is not indexed by a degree variable", nsa.node)
    clamp = set()  # parameters re-bound to min(itself, other parameter)
    for n in walk_no_nested(nsa.node):
        if isinstance(n, ast.Assign) and len(n.targets) == 1 and isinstance(n.targets[0], ast.Name) and n.targets[0].id in (deg, order):
            v = n.value
            if isinstance(v, ast.Call) and call_name(v) == "min" and sorted(unparse(a) for a in v.args) == sorted([deg, order]):
                clamp.add(n.targets[0].id)
            else:
                raise Undecided(f"nonSphericalAcceleration: `{unparse(n)}` re-binds a bound of the harmonic sums", n)

    def sym(e):
        if isinstance(e, ast.Name):
            if e.id == dvar:
                return ["n"]
            if e.id == ovar:
                return ["m"]
            if e.id == deg:
                return ["N", "M"] if deg in clamp else ["N"]
            if e.id == order:
                return ["M", "N"] if order in clamp else ["M"]
        if isinstance(e, ast.Constant) and e.value in (0, 1, 2):
            return [str(int(e.value))]
        raise Undecided(f"nonSphericalAcceleration: bound `{unparse(e)}` is not one of the loop variables, the two limits, 0, 1, 2", e)

    def lower(var, e):
        """var >= e"""
        if isinstance(e, ast.Call) and call_name(e) == "max":
            return O.And(*[lower(var, a) for a in e.args])
        if isinstance(e, ast.BinOp) and isinstance(e.op, ast.Add) and isinstance(e.right, ast.Constant) and e.right.value == 1:
            return O.And(*[O.Cmp(">", var, s_) for s_ in sym(e.left)])  # var >= x + 1  <=>  var > x
        ss = sym(e)
        # a clamped limit as a LOWER bound would be a max, not a conjunction
        if len(ss) > 1:
            raise Undecided(f"nonSphericalAcceleration: clamped limit `{unparse(e)}` used as a lower bound", e)
        return O.Cmp(">=", var, ss[0])

    def upper_excl(var, e):
        """var < e"""
        if isinstance(e, ast.Call) and call_name(e) == "min":
            return O.And(*[upper_excl(var, a) for a in e.args])
        if isinstance(e, ast.BinOp) and isinstance(e.op, ast.Add) and isinstance(e.right, ast.Constant) and e.right.value == 1:
            inner = e.left
            if isinstance(inner, ast.Call) and call_name(inner) == "min":
                return O.And(*[O.And(*[O.Cmp("<=", var, s_) for s_ in sym(a)]) for a in inner.args])
            return O.And(*[O.Cmp("<=", var, s_) for s_ in sym(inner)])
        return O.And(*[O.Cmp("<", var, s_) for s_ in sym(e)])

    def symf(e):
        ss = sym(e)
        if len(ss) > 1:
            raise Undecided(f"nonSphericalAcceleration: clamped limit `{unparse(e)}` in a guard", e)
        return ss[0]

    sites = []
    for acc in accs:
        parts = []
        bound_vars = set()
        cur = acc
        while cur in pm:
            cur = pm[cur]
            if isinstance(cur, ast.For):
                if not isinstance(cur.target, ast.Name) or cur.target.id not in (dvar, ovar):
                    raise Undecided(f"nonSphericalAcceleration: loop over `{unparse(cur.target)}` around the accumulation", cur)
                var = "n" if cur.target.id == dvar else "m"
                it = cur.iter
                if isinstance(it, ast.Call) and call_name(it) == "reversed" and len(it.args) == 1:
                    it = it.args[0]
                if not (isinstance(it, ast.Call) and call_name(it) == "range" and 1 <= len(it.args) <= 2 and not it.keywords):
                    raise Undecided(f"nonSphericalAcceleration: `{unparse(cur.iter)}` is not a plain range", cur)
                lo = it.args[0] if len(it.args) == 2 else ast.Constant(value=0)
                hi = it.args[-1]
                parts += [lower(var, lo), upper_excl(var, hi)]
                bound_vars.add(var)
            elif isinstance(cur, ast.While):
                raise Undecided("nonSphericalAcceleration: while loop around the accumulation", cur)
        nd = cfg.node_of(acc)
        for cid, lab in cfg.control_conditions(nd.id):
            cn = cfg.nodes[cid]
            if cn.kind != "cond":
                continue
            pr = O.from_ast(cn.ast, symf)
            parts.append(pr if lab else O.Not(pr))
        if "m" not in bound_vars:
            # no order loop: the term is the order-0 one iff it reads the order-0 coefficients
            block = pm.get(acc)
            stmts = list(getattr(block, "body", []))
            txt = " ".join(unparse(x) for x in stmts)
            if f"{cname}[{dvar}, 0]" in txt and f"{cname}[{dvar}, {ovar}]" not in txt:
                parts.append(O.Cmp("==", "m", "0"))
            else:
                raise Undecided("nonSphericalAcceleration: an accumulation outside any order loop does not read the order-0 coefficients only", acc)
        if "n" not in bound_vars:
            raise Undecided("nonSphericalAcceleration: an accumulation outside any degree loop", acc)
        sites.append(O.And(*parts))
    spec = O.And(O.Cmp(">=", "n", "2"), O.Cmp("<=", "n", "N"), O.Cmp(">=", "m", "0"), O.Cmp("<=", "m", "n"), O.Cmp("<=", "m", "M"))
    consts = ["0", "1", "2"]
    vars_ = ["n", "m", "N", "M"]
    gaps = [O.Not(O.And(O.Cmp(">", v, a), O.Cmp("<", v, b))) for v in vars_ for a, b in (("0", "1"), ("1", "2"))]
    assume = O.And(O.Cmp("<", "0", "1"), O.Cmp("<", "1", "2"), O.Cmp("<=", "M", "N"), O.Cmp(">=", "N", "2"), O.Cmp(">=", "M", "0"), *gaps)
    missing = double = extra = None
    n_ord = 0
    for env in O.all_orderings(vars_ + consts, assume):
        n_ord += 1
        hits = sum(1 for st in sites if st.ev(env))
        want = spec.ev(env)
        if want and hits == 0 and missing is None:
            missing = O.describe(env)
        if want and hits > 1 and double is None:
            double = O.describe(env)
        if not want and hits and extra is None:
            extra = O.describe(env)
    out = []
    if missing:
        out.append(f"the harmonic term (n, m) is never accumulated when {missing} (n = degree index, m = order index, N = {deg}, M = {order}): terms inside the configured degree / order are dropped")
    if double:
        out.append(f"the harmonic term (n, m) is accumulated more than once when {double}")
    if extra:
        out.append(f"a term outside 2 <= n <= N, 0 <= m <= min(n, M) is accumulated when {extra}")
    return "; ".join(out) if out else None


def rule_r3(chk, p, t):
    r = chk.rule(
        "C13.R3",
        "slots and units",
        4,
        "harmonics are requested one degree and order higher than used; loops cover n in 2..degree, m in 0..order; "
        "SRP is scaled by the visible Sun fraction of (satellite, Sun) and by 1/1000 once; the relativistic term uses "
        "the speed of light in km/s",
    )
    nsa = p.func(f"{GP}.nonSphericalAcceleration")

    def f1():
        calls = find_calls(nsa.node, "getNonSphericalHarmonics")
        require(len(calls) == 1, "one harmonics call expected", nsa.node)
        args = [unparse(a) for a in calls[0].args]
        pos, mu, rad, c, s, deg, order = nsa.params
        bad = []
        if args != [pos, rad, f"{deg} + 1", f"{order} + 1"]:
            bad.append(f"harmonics requested with {args}")
        loops = [n for n in walk_no_nested(nsa.node) if isinstance(n, ast.For)]
        its = [unparse(l.iter) for l in loops]
        if its != [f"range(2, {deg} + 1)", f"range({order} + 1)"]:
            # another loop nest may visit the same (degree, order) pairs: the iteration domain of every accumulation is
            # read off its loop bounds and guards and compared with 2 <= n <= degree, 0 <= m <= min(n, order) on every
            # weak ordering of (n, m, degree, order, 0, 1, 2)
            msg = _harmonic_domain(nsa, deg, order, c)
            if msg:
                bad.append(msg)
        rets = [n for n in walk_no_nested(nsa.node) if isinstance(n, ast.Return)]
        if not rets or canon(rets[0].value) != canon(ast.parse(f"acceleration * {mu} / {rad} ** 2", mode="eval").body):
            bad.append(f"scaling `{unparse(rets[0].value) if rets else None}`")
        if bad:
            r.violation(nsa.qualname, "geopotential-slots:" + ";".join(bad), "nonSphericalAcceleration: " + "; ".join(bad), nsa.loc())
        else:
            r.ok(nsa.qualname, "V, W up to (degree+1, order+1); n in 2..degree, m in 0..order; scaled by mu/Re^2", nsa.loc())

    r.guard(nsa.qualname, f1)
    cls = p.cls(f"{SP}.SpecialPerturbations")
    srp = cls.methods.get("_getSolarRadiationPressureAcceleration")

    def f2():
        rets = [n for n in walk_no_nested(srp.node) if isinstance(n, ast.Return)]
        a, b = srp.params[1], srp.params[2]
        want = canon(ast.parse(f"a_srp * calculateSunVizFraction({a}, {b}) / 1000.0", mode="eval").body)
        if rets and canon(rets[0].value) == want:
            r.ok(srp.qualname + ":scaling", "x visible Sun fraction(satellite, Sun) / 1000", srp.loc())
        else:
            r.violation(srp.qualname + ":scaling", f"srp-scaling:{unparse(rets[0].value) if rets else None}", "SRP is not scaled by calculateSunVizFraction(satellite, Sun) and converted m -> km exactly once", srp.loc())

    r.guard(srp.qualname, f2)
    gr = p.func(f"{SP}._getGeneralRelativityAcceleration")

    def f3():
        defs = single_defs(gr.node)
        c = defs.get("c_sq")
        if c is not None and canon(c) == canon(ast.parse("(const.SPEED_OF_LIGHT / 1000) ** 2", mode="eval").body):
            r.ok(gr.qualname + ":units", "c in km/s, squared", gr.loc())
        else:
            r.violation(gr.qualname + ":units", f"c_sq:{unparse(c) if c is not None else None}", "the relativistic term does not use (SPEED_OF_LIGHT / 1000)^2", gr.loc())

    r.guard(gr.qualname, f3)
    csr = p.func(f"{SP}.calcSatRatio")
    rets = [n for n in walk_no_nested(csr.node) if isinstance(n, ast.Return)]
    e = inline_locals(csr, rets[0].value) if rets else None
    a, b, c = csr.params
    if e is not None and canon(e) == canon(ast.parse(f"(1.0 + {c}) * ({a} / {b})", mode="eval").body):
        r.ok(csr.qualname, "(1 + reflectivity) * area / mass", csr.loc())
    else:
        r.violation(csr.qualname, f"sat-ratio:{unparse(e) if e is not None else None}", "the SRP area-to-mass coefficient is not (1 + reflectivity) * area / mass", csr.loc())


def rule_r4(chk, p, t):
    r = chk.rule(
        "C13.R4",
        "formula agreement with the cited references",
        5,
        "third-body attraction (Battin's q-form as coded from the direct formula), cannonball SRP (Montenbruck 3.75), "
        "relativistic correction, Cunningham recursion (Montenbruck 3.29-3.31) and the acceleration partials (3.32-3.33) "
        "equal their reference expressions as normal forms modulo commutativity and renaming of locals",
        "numerical value of any formula",
    )
    tb = p.func(f"{SP}._getThirdBodyAcceleration")

    def f_tb():
        rets = [n for n in walk_no_nested(tb.node) if isinstance(n, ast.Return)]
        e = inline_locals(tb, rets[0].value)
        s, b = tb.params
        ref = (
            f"({b} - {s}) * (((norm({s}) ** 2 + 2 * vdot({s}, {b} - {s})) * (norm({b}) ** 2 + norm({b}) * norm({b} - {s}) + norm({b} - {s}) ** 2))"
            f" / (norm({b}) ** 3 * norm({b} - {s}) ** 3 * (norm({b}) + norm({b} - {s})))) - {s} / norm({b}) ** 3"
        )
        if canon(e) == canon(ast.parse(ref, mode="eval").body):
            r.ok(tb.qualname, "r_s3 q - r_sat / |r_3|^3 with the numerically stable q", tb.loc())
        else:
            r.violation(tb.qualname, "third-body-formula", f"third-body acceleration `{unparse(e)[:160]}` differs from the reference form", tb.loc())

    r.guard(tb.qualname, f_tb)
    cls = p.cls(f"{SP}.SpecialPerturbations")
    srp = cls.methods.get("_getSolarRadiationPressureAcceleration")

    def f_srp():
        defs = single_defs(srp.node)
        e = inline_locals(srp, defs.get("a_srp"))
        a, b = srp.params[1], srp.params[2]
        ref = f"-const.SOLAR_PRESSURE * self.sat_ratio * (const.AU2KM / norm({b} - {a})) ** 2 * ({b} - {a}) / norm({b} - {a})"
        if e is not None and canon(e) == canon(ast.parse(ref, mode="eval").body):
            r.ok(srp.qualname, "-P (Cr A/m) (AU/|d|)^2 d/|d| with d = Sun - satellite", srp.loc())
        else:
            r.violation(srp.qualname, "srp-formula", f"cannonball SRP `{unparse(e)[:140] if e is not None else None}` differs from the reference form (pushes away from the Sun, inverse-square in the Sun distance)", srp.loc())

    r.guard(srp.qualname, f_srp)
    gr = p.func(f"{SP}._getGeneralRelativityAcceleration")

    def f_gr():
        rets = [n for n in walk_no_nested(gr.node) if isinstance(n, ast.Return)]
        e = rets[0].value
        ref = "(mu / r_norm ** 2) * (((4 * mu) / (c_sq * r_norm) - tmp) * e_r + (4 * tmp) * (vdot(e_r, e_v) * e_v))"
        defs = single_defs(gr.node)
        ok = canon(e) == canon(ast.parse(ref, mode="eval").body) and unparse(defs.get("tmp", ast.Constant(0))) == "v_norm ** 2 / c_sq" and unparse(defs.get("mu", ast.Constant(0))) == "Earth.mu"
        ok = ok and unparse(defs.get("r_norm", ast.Constant(0))) == f"norm({gr.params[0]})" and unparse(defs.get("e_r", ast.Constant(0))) == f"{gr.params[0]} / r_norm" and unparse(defs.get("e_v", ast.Constant(0))) == f"{gr.params[1]} / v_norm"
        if ok:
            r.ok(gr.qualname, "Schwarzschild term (mu/r^2)[(4 mu/(c^2 r) - v^2/c^2) e_r + 4 (v^2/c^2)(e_r.e_v) e_v]", gr.loc())
        else:
            r.violation(gr.qualname, "gr-formula", f"relativistic correction `{unparse(e)[:140]}` differs from the reference form", gr.loc())

    r.guard(gr.qualname, f_gr)
    h = p.func(f"{GP}.getNonSphericalHarmonics")

    def f_h():
        stores = {}
        for n in walk_no_nested(h.node):
            if isinstance(n, ast.Assign) and isinstance(n.targets[0], ast.Subscript) and unparse(n.targets[0].value) in ("v", "w"):
                stores[unparse(n.targets[0])] = n.value
        exp = {
            "v[0, 0]": "rho",
            "v[1, 0]": "z_bar * v[0, 0]",
            "v[1, 1]": "x_bar * v[0, 0]",
            "w[1, 1]": "y_bar * v[0, 0]",
            "v[m, m]": "(2 * m - 1) * (x_bar * v[m - 1, m - 1] - y_bar * w[m - 1, m - 1])",
            "w[m, m]": "(2 * m - 1) * (x_bar * w[m - 1, m - 1] + y_bar * v[m - 1, m - 1])",
            "v[n, m]": "((2 * n - 1) * z_bar * v[n - 1, m] - (n + m - 1) * rho_sq * v[n - 2, m]) / (n - m)",
            "w[n, m]": "((2 * n - 1) * z_bar * w[n - 1, m] - (n + m - 1) * rho_sq * w[n - 2, m]) / (n - m)",
        }
        bad = []
        for k, src in exp.items():
            v = stores.get(k)
            if v is None or canon(v) != canon(ast.parse(src, mode="eval").body):
                bad.append(f"{k} = `{unparse(v) if v is not None else None}`")
        defs = single_defs(h.node)
        if unparse(defs.get("rho", ast.Constant(0))) != f"{h.params[1]} / norm_r" or unparse(defs.get("rho_sq", ast.Constant(0))) != "rho ** 2" or unparse(defs.get("norm_r", ast.Constant(0))) != f"norm({h.params[0]})":
            bad.append("rho / rho_sq / norm_r definitions")
        unp = [n for n in walk_no_nested(h.node) if isinstance(n, ast.Assign) and isinstance(n.targets[0], (ast.List, ast.Tuple)) and len(n.targets[0].elts) == 3]
        if not (unp and [unparse(x) for x in unp[0].targets[0].elts] == ["x_bar", "y_bar", "z_bar"] and canon(unp[0].value) == canon(ast.parse(f"{h.params[0]} * rho / norm_r", mode="eval").body)):
            bad.append("normalised coordinates")
        loops = [unparse(n.iter) for n in walk_no_nested(h.node) if isinstance(n, ast.For)]
        if loops != [f"range({h.params[3]} + 1)", f"range(2, {h.params[2]} + 1)"]:
            raise Undecided(f"getNonSphericalHarmonics: loop nest {loops} is not the recognised `for m in 0..order: for n in 2..degree` form (iteration-space equivalence is not decided)", h.node)
        if bad:
            r.violation(h.qualname, "cunningham:" + ";".join(bad), "Cunningham recursion differs from Montenbruck eq. 3.29-3.31: " + "; ".join(bad), h.loc())
        else:
            r.ok(h.qualname, "seed terms, diagonal and off-diagonal recurrences", h.loc(), obligations=8)

    r.guard(h.qualname, f_h)
    nsa = p.func(f"{GP}.nonSphericalAcceleration")

    def f_a():
        defs = {}
        for n in walk_no_nested(nsa.node):
            if isinstance(n, ast.Assign) and isinstance(n.targets[0], ast.Name):
                defs.setdefault(n.targets[0].id, []).append(n.value)
        c, s = nsa.params[3], nsa.params[4]
        exp = {
            "z_acc": [f"(n - m + 1) * (-{c}[n, m] * v[n + 1, m] - {s}[n, m] * w[n + 1, m])"],
            "x_acc": [f"-{c}[n, 0] * v[n + 1, 1]", f"0.5 * (-{c}[n, m] * v[n + 1, m + 1] - {s}[n, m] * w[n + 1, m + 1] + fact_term * ({c}[n, m] * v[n + 1, m - 1] + {s}[n, m] * w[n + 1, m - 1]))"],
            "y_acc": [f"-{c}[n, 0] * w[n + 1, 1]", f"0.5 * (-{c}[n, m] * w[n + 1, m + 1] + {s}[n, m] * v[n + 1, m + 1] + fact_term * (-{c}[n, m] * w[n + 1, m - 1] + {s}[n, m] * v[n + 1, m - 1]))"],
            "fact_term": ["(n - m + 1) * (n - m + 2)"],
        }
        bad = []
        for k, srcs in exp.items():
            got = sorted(repr(canon(v)) for v in defs.get(k, []))
            want = sorted(repr(canon(ast.parse(x, mode="eval").body)) for x in srcs)
            if got != want:
                bad.append(f"{k} = {[unparse(v)[:70] for v in defs.get(k, [])]}")
        acc = [n for n in walk_no_nested(nsa.node) if isinstance(n, ast.AugAssign) and unparse(n.target) == "acceleration"]
        if not (len(acc) == 1 and isinstance(acc[0].op, ast.Add) and "(x_acc, y_acc, z_acc)" in unparse(acc[0].value)):
            bad.append("accumulation of (x, y, z) partials")
        conds = [unparse(n.test) for n in walk_no_nested(nsa.node) if isinstance(n, ast.If)]
        if conds != ["m > n", "m == 0", "n >= m"]:
            raise Undecided(f"nonSphericalAcceleration: case split {conds} is not the recognised (m > n / m == 0 / n >= m) form", nsa.node)
        if bad:
            r.violation(nsa.qualname, "partials:" + ";".join(bad), "geopotential acceleration partials differ from Montenbruck eq. 3.32-3.33: " + "; ".join(bad), nsa.loc())
        else:
            r.ok(nsa.qualname, "zonal and tesseral / sectoral partial accelerations", nsa.loc(), obligations=6)

    r.guard(nsa.qualname, f_a)


def rule_r5(chk, p, t):
    # the solar-radiation-pressure term is scaled by the visible fraction of the Sun's disc: its case structure
    # (Montenbruck 3.85-3.87) is part of the force model - shared instance of C14.R5
    from rules import C14

    C14.rule_r5(chk, p, t, rid="C13.R5")


def rule_r6(chk, p, t):
    from rules.shared_memo import memo_rule

    memo_rule(chk, p, t, "C13.R6", modules=("resonaate.physics.bodies", "resonaate.physics.sensor_utils", "resonaate.physics.constants"), floor=25, what="the force-model support modules (physics.bodies, physics.sensor_utils)")


def rule_r7(chk, p, t):
    # the geopotential is evaluated in the Earth-fixed frame: the rotation the derivative builds must be the same
    # sidereal rotation as the frame conversions use, over a correct day-of-year (shared instances of C04.R5 / C04.R6)
    from rules import C04

    C04.rule_r5(chk, p, t, rid="C13.R7")
    C04.rule_r6(chk, p, t, rid="C13.R8")


def rule_r9(chk, p, t):
    from fractions import Fraction
    from math import pi

    from rsa.terms import const_value

    r = chk.rule(
        "C13.R9",
        "physical constants: exact unit relations and agreement with the published values",
        14,
        "module-level constants of physics.constants and the Earth model, folded exactly from their literal expressions: the "
        "unit relations hold exactly as rationals (TWOPI = 2 PI, SEC2DAYS DAYS2SEC = 1, DEG2RAD RAD2DEG = 1, ARCSEC2RAD = "
        "ARCSEC2DEG DEG2RAD, M2KM KM2M = 1, SOLAR_PRESSURE = SOLAR_FLUX / SPEED_OF_LIGHT) and each physical value lies within "
        "a tolerance of its published value that admits every edition of the standard tables but no unit slip (m vs km, "
        "deg vs rad) and no dropped or doubled digit: mu, equatorial radius, spin rate, eccentricity, J2-J4 (sign "
        "included), the speed of light (exact), the astronomical unit, the solar constant",
        "which edition of a standard the force model should use",
    )
    cm = p.module("resonaate.physics.constants")
    names = {}
    sym = {"pi": Fraction(pi)}
    exprs = {}
    for st in cm.tree.body:
        tg, val = None, None
        if isinstance(st, ast.Assign) and len(st.targets) == 1 and isinstance(st.targets[0], ast.Name):
            tg, val = st.targets[0].id, st.value
        elif isinstance(st, ast.AnnAssign) and isinstance(st.target, ast.Name) and st.value is not None:
            tg, val = st.target.id, st.value
        if tg is None:
            continue
        v = const_value(val, {**sym, **names})
        if v is not None:
            names[tg] = v
            exprs[tg] = val
    earth = p.cls("resonaate.physics.bodies.earth.Earth")
    ev = {}
    for k, val in earth.class_attrs.items():
        v = const_value(val, {})
        if v is not None:
            ev[k] = v

    def rel(name, lhs, rhs):
        cons = f"constants:{name}"
        if lhs is None or rhs is None:
            r.error(cons, "a constant of the relation is no longer a literal expression")
        elif lhs == rhs:
            r.ok(cons, "holds exactly", cm.relpath)
        else:
            r.violation(cons, f"unit-relation:{name}", f"the unit relation {name} does not hold: {float(lhs)!r} vs {float(rhs)!r}", cm.relpath)

    g = names.get
    two = Fraction(2)
    rel("TWOPI == 2 PI", g("TWOPI"), two * g("PI") if g("PI") is not None else None)
    rel("SEC2DAYS * DAYS2SEC == 1", g("SEC2DAYS") * g("DAYS2SEC") if g("SEC2DAYS") is not None and g("DAYS2SEC") is not None else None, Fraction(1))
    rel("DAYS2SEC == 86400", g("DAYS2SEC"), Fraction(86400))
    rel("M2KM * KM2M == 1", g("M2KM") * g("KM2M") if g("M2KM") is not None and g("KM2M") is not None else None, Fraction(1))
    rel("ARCSEC2DEG == 1/3600", g("ARCSEC2DEG"), Fraction(1, 3600))
    # relations through pi are compared on the symbolic expressions (pi is irrational: fold with pi as an atom)
    from rsa import ratfun as rf

    def sym_rel(name, a_src, b_src):
        cons = f"constants:{name}"
        try:
            sub = {k: v for k, v in exprs.items()}
            # substitute module constants by their defining expressions, recursively (depth 3)
            def expand(e, depth=0):
                class S(ast.NodeTransformer):
                    def visit_Name(self, n):
                        if n.id in sub and depth < 4:
                            return expand(sub[n.id], depth + 1)
                        return n
                import copy as _c
                return S().visit(_c.deepcopy(e))
            ok = rf.rat_equal(rf.ratfun(expand(rf.parse(a_src))), rf.ratfun(expand(rf.parse(b_src))))
        except Exception as e:
            r.error(cons, f"{type(e).__name__}: {e}")
            return
        if ok:
            r.ok(cons, "holds symbolically", cm.relpath)
        else:
            r.violation(cons, f"unit-relation:{name}", f"the unit relation {name} does not hold", cm.relpath)

    sym_rel("DEG2RAD * RAD2DEG == 1", "DEG2RAD * RAD2DEG", "1")
    sym_rel("DEG2RAD == pi / 180", "DEG2RAD", "pi / 180")
    sym_rel("ARCSEC2RAD == ARCSEC2DEG * DEG2RAD", "ARCSEC2RAD", "pi / 180 / 3600")
    sym_rel("SOLAR_PRESSURE == SOLAR_FLUX / SPEED_OF_LIGHT", "SOLAR_PRESSURE", "SOLAR_FLUX / SPEED_OF_LIGHT")
    STD = [
        ("SPEED_OF_LIGHT", g("SPEED_OF_LIGHT"), 299792458.0, 0.0, "m/s (exact by definition)"),
        ("AU2KM", g("AU2KM"), 1.495978707e8, 1e-4, "km"),
        ("SOLAR_FLUX", g("SOLAR_FLUX"), 1364.0, 5e-3, "W/m^2 (1361 - 1367 in use)"),
        ("Earth.mu", ev.get("mu"), 398600.4418, 1e-5, "km^3/s^2"),
        ("Earth.radius", ev.get("radius"), 6378.137, 1e-5, "km"),
        ("Earth.spin_rate", ev.get("spin_rate"), 7.2921151467e-5, 1e-6, "rad/s"),
        ("Earth.eccentricity", ev.get("eccentricity"), 0.0818191908, 1e-5, "-"),
        ("Earth.j2", ev.get("j2"), 1.0826267e-3, 1e-4, "-"),
        ("Earth.j3", ev.get("j3"), -2.5327e-6, 2e-3, "-"),
        ("Earth.j4", ev.get("j4"), -1.6196e-6, 2e-3, "-"),
    ]
    for name, got, want, tol, unit in STD:
        cons = f"constants:{name}"
        if got is None:
            r.error(cons, "not a literal constant any more")
            continue
        relerr = abs(float(got) - want) / abs(want)
        if relerr <= tol:
            r.ok(cons, f"{float(got)!r} {unit}: within {tol:g} of the published {want!r}", cm.relpath)
        else:
            r.violation(cons, f"constant:{name}", f"{name} = {float(got)!r} {unit} deviates from the published value {want!r} by {relerr:.2e} (tolerance {tol:g}): a unit slip or a digit error - every acceleration that uses it is off by the same factor", cm.relpath)


def rule_r10(chk, p, t):
    # "each perturbation present exactly when configured": the perturbation switches and the geopotential settings reach
    # the force model as the user wrote them - no validator of their configuration class derives one from another
    # (solar radiation pressure switched on must not add the Sun's third-body attraction) - shared instance of C10.R9,
    # here with derivations between the dynamics settings themselves included
    from rules import C10

    C10.rule_r9(chk, p, t, rid="C13.R10", only=("PerturbationsConfig", "GeopotentialConfig"))


def run(chk, p, t):
    chk.explanation = (
        "Static decision of structural necessary conditions of C13: (R1) each perturbation is defined under its own "
        "switch, all are summed once with the point-mass term, configuration fields map one-to-one onto switches; "
        "(R2) frame kinds of the geopotential call and slot order of the helpers, one Sun position, one epoch; (R3) "
        "degree / order slots, loop ranges and unit conversions; (R4) each perturbation formula equals its cited "
        "reference expression as a normal form (commutativity / associativity / sign distribution / constant folding "
        "are factored out; an algebraic re-derivation would need the reference form to be extended). NOT decided: the "
        "value of any formula, the Chebyshev ephemerides, continuity of Sun / Moon positions."
    )
    chk.assumptions += ["the reference forms of R4 are transcriptions of the equations cited in the module docstrings (Montenbruck & Gill 3.29-3.33, 3.75; Battin's third-body form)"]
    for fn in (rule_r1, rule_r2, rule_r3, rule_r4, rule_r5, rule_r6, rule_r7, rule_r9, rule_r10):
        rid = "C13.R" + fn.__name__.split("_r")[-1]
        if not chk.wants(rid):
            continue
        try:
            fn(chk, p, t)
        except (Undecided, AnchorError) as e:
            rr = chk.rule(rid + ".x", fn.__name__, 0, "-")
            (rr.undecided if isinstance(e, Undecided) else rr.error)(fn.__name__, str(e))


_ = _expect
