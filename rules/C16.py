"""C16 - filter updates are invariant to angle representation and observation order.

Decides: angle-kind discipline in the filters (no raw subtraction / linear mean of angular
measurement components) (R1), helper shapes: the last operation of every angular residual is a true
modulo wrap of the difference; circular mean through sin / cos with common weights (R2), flag /
label order agreement (R3), order-equivariant stacking (R4).  Does NOT decide numerical invariance.
"""

from __future__ import annotations

import ast

from rsa.cfg import cfg_of
from rsa.model import AnchorError, Undecided, call_name, unparse, walk_no_nested
from rsa.terms import canon, inline_locals, single_defs
from rsa.util import find_calls, require

MATHS = "resonaate.physics.maths"
MEAS = "resonaate.physics.measurements"
RESIDUAL_FUNCS = {"residual", "residuals", "vecResiduals"}
UKF = "resonaate.estimation.kalman.unscented_kalman_filter.UnscentedKalmanFilter"
GPF = "resonaate.estimation.particle.genetic_particle_filter.GeneticParticleFilter"

MEAS_SOURCES = {"measurement_states", "calculateMeasurement", "calcMeasurementMean", "_calcMeasurementSigmaPoints"}
MEAS_FIELDS = {"true_y", "mean_pred_y"}


def meas_kind(e, defs, depth=5):
    """Does the expression denote a vector of (possibly angular) measurement components?"""
    if depth <= 0:
        return False
    if isinstance(e, ast.Attribute) and e.attr in MEAS_FIELDS:
        return True
    if isinstance(e, ast.Name):
        if e.id in ("true_y", "sigma_obs", "population_obs", "measurement_sigma_pts", "meas"):
            return True
        if e.id in defs:
            return meas_kind(defs[e.id], defs, depth - 1)
        return False
    if isinstance(e, ast.Subscript):
        return meas_kind(e.value, defs, depth - 1)
    if isinstance(e, ast.Call):
        nm = call_name(e)
        if nm in MEAS_SOURCES:
            return True
        if nm in ("concatenate", "array", "apply_along_axis", "list") and e.args:
            return any(meas_kind(a, defs, depth - 1) for a in e.args) or any(isinstance(x, ast.Attribute) and x.attr == "measurement_states" for x in ast.walk(e)) or any(isinstance(x, ast.Call) and call_name(x) == "calculateMeasurement" for x in ast.walk(e))
    if isinstance(e, (ast.ListComp, ast.GeneratorExp)):
        return meas_kind(e.elt, defs, depth - 1)
    return False


def rule_r1(chk, p, t):
    r = chk.rule(
        "C16.R1",
        "angle-kind discipline in the filters",
        4,
        "vectors of measurement components (which may be angles) are never operands of a raw subtraction or a "
        "linear weighted mean in the filters: differences go through residual / residuals / vecResiduals with the "
        "angular flags, means through angularMean for angular rows",
    )
    fns = []
    for q in (UKF, GPF, "resonaate.estimation.sequential_filter.SequentialFilter", "resonaate.estimation.kalman.kalman_filter.KalmanFilter"):
        try:
            cls = p.cls(q)
        except AnchorError:
            continue
        fns += list(cls.methods.values())
    # the multiple-model filters compile innovations from their models: same discipline
    try:
        af = p.cls("resonaate.estimation.adaptive.adaptive_filter.AdaptiveFilter")
        for c in [af] + list(p.subclasses(af)):
            fns += [m for m in c.methods.values() if m not in fns]
    except AnchorError:
        pass
    n_res = 0
    for fn in fns:
        defs = single_defs(fn.node)
        for n in walk_no_nested(fn.node):
            if isinstance(n, ast.BinOp) and isinstance(n.op, ast.Sub) and meas_kind(n.left, defs) and meas_kind(n.right, defs):
                r.violation(f"{fn.qualname}:{unparse(n)[:50]}", "raw-measurement-difference", f"`{unparse(n)[:80]}` subtracts measurement vectors directly: an azimuth of 359 deg against a prediction of 1 deg gives an innovation of 358 deg instead of -2 deg", fn.loc(n))
            if isinstance(n, ast.Call) and call_name(n) in RESIDUAL_FUNCS and len(n.args) == 3 and meas_kind(n.args[0], defs) and meas_kind(n.args[1], defs):
                n_res += 1
                flags = unparse(n.args[2])
                if "is_angular" in flags:
                    r.ok(f"{fn.qualname}:{call_name(n)}({unparse(n.args[0])[:25]}, ..)", f"wrap-aware residual with flags `{flags}`", fn.loc(n))
                else:
                    r.violation(f"{fn.qualname}:{call_name(n)}", f"flags:{flags}", f"`{unparse(n)[:80]}`: the third argument must be the per-component angular flags", fn.loc(n))
    if n_res < 3:
        r.error("residual-sites", f"only {n_res} residual sites over measurement vectors recognised (3 confirmed by hand: UKF x2, particle filter x1)")
    # mean site
    cm = p.cls(UKF).methods.get("calcMeasurementMean")

    def mean():
        require(cm is not None, "calcMeasurementMean not found", p.cls(UKF).node)
        cfg = cfg_of(cm)
        am = find_calls(cm.node, "angularMean")
        lin = [c for c in walk_no_nested(cm.node) if isinstance(c, ast.Call) and call_name(c) in ("dot", "average", "mean", "sum") and "mean_weight" in unparse(c)]
        if not am:
            r.violation(cm.qualname, "no-circular-mean", "calcMeasurementMean never calls angularMean: angular rows are averaged linearly, which is wrong across the 0/360 (or +-180) degree seam and with negative unscented weights", cm.loc())
            return
        require(len(am) == 1, "angularMean is called more than once", cm.node)
        conds = [n for n in cfg.nodes if n.kind == "cond" and "VALID_ANGULAR_MEASUREMENTS" in unparse(n.ast)]
        require(len(conds) == 1, "no branch on the angular kind of the row", cm.node)
        c0 = conds[0]
        pos = isinstance(c0.ast, ast.Compare) and isinstance(c0.ast.ops[0], ast.In)
        an = cfg.node_of(am[0])
        ok_am = cfg.must_pass(an.id, via_edges=[(c0.id, pos)])
        ok_lin = all(cfg.must_pass(cfg.node_of(c).id, via_edges=[(c0.id, not pos)]) for c in lin)
        kws = {k.arg: unparse(k.value) for k in am[0].keywords}
        bounds = [n for n in walk_no_nested(cm.node) if isinstance(n, ast.Assign) and isinstance(n.targets[0], ast.Tuple) and "VALID_ANGLE_MAP" in unparse(n.value)]
        ok_b = bounds and [unparse(x) for x in bounds[0].targets[0].elts] == ["low", "high"] and kws.get("low") == "low" and kws.get("high") == "high" and kws.get("weights") == "self.mean_weight"
        # row/flag pairing
        loops = [n for n in walk_no_nested(cm.node) if isinstance(n, ast.For)]
        ok_zip = loops and "zip(" in unparse(loops[0].iter) and cm.params[1] in unparse(loops[0].iter) and cm.params[2] in unparse(loops[0].iter)
        if ok_am and ok_lin and ok_b and ok_zip:
            r.ok(cm.qualname, "angular rows -> angularMean(weights, low, high of their kind); linear mean only for non-angular rows", cm.loc())
        else:
            r.violation(cm.qualname, f"mean:{ok_am}:{ok_lin}:{bool(ok_b)}:{bool(ok_zip)}", "the predicted-measurement mean is not the circular mean for angular rows (or a linear weighted mean is applied to angular rows / with the wrong bounds)", cm.loc())

    r.guard("calcMeasurementMean", mean)
    angular_flags_check(r, p)


def angular_flags_check(r, p):
    """The boolean `is_angular` flags handed to residuals() are true exactly for the components whose declared kind is an
    angular one (`kind in VALID_ANGULAR_MEASUREMENTS`, per stacked component).  IsAngle is an IntEnum whose NOT_ANGLE
    member is non-zero, so a truth-value cast flags every component - linear ones included - as angular."""
    for q, meth in ((UKF, "calculateMeasurementMatrix"), (GPF, None)):
        cls = p.cls(q)
        cands = [m for m in cls.methods.values() if any(isinstance(n, ast.Assign) and unparse(n.targets[0]) == "self.is_angular" for n in walk_no_nested(m.node))]
        for m in cands:
            asg = [n for n in walk_no_nested(m.node) if isinstance(n, ast.Assign) and unparse(n.targets[0]) == "self.is_angular"][0]
            txt = unparse(asg.value)
            member = ("in VALID_ANGULAR_MEASUREMENTS for" in txt or ("isin(" in txt and "VALID_ANGULAR_MEASUREMENTS" in txt) or "!= IsAngle.NOT_ANGLE" in txt) and "angular_measurements" in txt
            truthy = any(isinstance(c, ast.Call) and ((call_name(c) == "astype" and c.args and unparse(c.args[0]) in ("bool", "bool_", "np.bool_")) or call_name(c) in ("bool", "asarray", "array") and any(k.arg == "dtype" and unparse(k.value) in ("bool", "bool_") for k in c.keywords) or call_name(c) == "bool") for c in ast.walk(asg.value))
            if member:
                r.ok(m.qualname + ":flags", "flag = kind in VALID_ANGULAR_MEASUREMENTS, per stacked component", m.loc(asg))
            elif ("in VALID_ANGULAR_MEASUREMENTS for" in txt or "isin(" in txt) and "angular_measurements" not in txt:
                r.violation(m.qualname + ":flags", f"flags:{txt[:60]}", f"angular flags are built as `{txt[:80]}`: not from the kinds of the components being stacked now (the `angular_measurements` argument) - a stale layout pairs flags with the wrong rows", m.loc(asg))
            elif not truthy or "VALID_ANGULAR_MEASUREMENTS" in txt or "NOT_ANGLE" in txt:
                r.undecided(m.qualname + ":flags", f"angular flags built as `{txt[:80]}`: form not recognised", m.loc(asg))
            else:
                r.violation(m.qualname + ":flags", f"flags:{txt[:60]}", f"angular flags are built as `{txt[:80]}`: not `kind in VALID_ANGULAR_MEASUREMENTS` per stacked component (IsAngle.NOT_ANGLE is a non-zero IntEnum member, so truth-value casts flag linear components as angles and their residuals get wrapped into (-pi, pi])", m.loc(asg))
        _ = meth


def _returns(fn):
    return [n for n in walk_no_nested(fn.node) if isinstance(n, ast.Return) and n.value is not None]


def rule_r2(chk, p, t):
    r = chk.rule(
        "C16.R2",
        "helper shapes",
        7,
        "the last operation on the angular branch of residual / residuals / vecResiduals is a true modulo wrap "
        "applied to the difference (first minus second); wrapAngle2Pi / wrapAngleNegPiPi reduce by a modulo of 2pi "
        "with the documented closed end; angularMean reads angles only through sin / cos of one scaled argument, "
        "forms both sums with the same weights and takes arctan2(sin, cos)",
    )
    wn = p.func(f"{MATHS}.wrapAngleNegPiPi")

    def _paths(fn):
        from rsa.terms import NotEvaluable, returned_exprs

        try:
            return returned_exprs(fn)
        except NotEvaluable as e:
            raise Undecided(f"{fn.name}: {e}", fn.node)

    def _one_cond(conds, fn):
        """The single comparison a two-path wrap helper branches on: (lhs text, op class, rhs text, polarity)."""
        cs = [(c, pol) for c, pol in conds]
        require(len(cs) == 1 and isinstance(cs[0][0], ast.Compare) and len(cs[0][0].ops) == 1, f"{fn.name}: one comparison expected on each path", fn.node)
        c, pol = cs[0]
        return unparse(c.left), type(c.ops[0]), unparse(c.comparators[0]), pol

    def f1():
        prm = wn.params[0]
        paths = _paths(wn)
        require(len(paths) == 2, "wrapAngleNegPiPi: two paths expected (inside / outside (-pi, pi])", wn.node)
        M = [f"remainder({prm}, const.TWOPI)", f"mod({prm}, const.TWOPI)", f"{prm} % const.TWOPI"]
        ok_mod = ok_fix = True
        for e, conds in paths:
            lhs, op, rhs, pol = _one_cond(conds, wn)
            m = next((x for x in M if lhs in (f"fabs({x})", f"abs({x})")), None)
            # |m| > pi  (or the mirrored / negated spelling): outside = correction applies
            if m is None or rhs != "const.PI" or op not in (ast.Gt, ast.LtE):
                ok_fix = False
                ok_mod = ok_mod and m is not None
                continue
            outside = pol if op is ast.Gt else not pol
            want = f"{m} - const.TWOPI * sign({m})" if outside else m
            if canon(e) != canon(ast.parse(want, mode="eval").body):
                if outside:
                    ok_fix = False
                else:
                    ok_mod = False
        if ok_mod and ok_fix:
            r.ok(wn.qualname, "x mod 2pi, then -2pi*sign(x) when |x| > pi: range (-pi, pi] (path-wise)", wn.loc())
        else:
            r.violation(wn.qualname, f"wrap-neg-pi-pi:{ok_mod}:{ok_fix}", "wrapAngleNegPiPi is no longer `x mod 2pi` followed by the `|x| > pi` correction (a `>=` would move the closed end to -pi; a missing modulo breaks invariance to whole turns)", wn.loc())

    r.guard(wn.qualname, f1)
    w2 = p.func(f"{MATHS}.wrapAngle2Pi")

    def f2():
        prm = w2.params[0]
        paths = _paths(w2)
        require(len(paths) == 2, "wrapAngle2Pi: two paths expected (negative remainder / not)", w2.node)
        M = [f"fmod({prm}, const.TWOPI)", f"remainder({prm}, const.TWOPI)"]
        ok_mod = ok_cmp = ok_fix = True
        for e, conds in paths:
            lhs, op, rhs, pol = _one_cond(conds, w2)
            if lhs not in M:
                ok_mod = False
                continue
            if rhs not in ("0", "0.0") or op not in (ast.Lt, ast.GtE):
                ok_cmp = False
                continue
            negative = pol if op is ast.Lt else not pol
            want = f"{lhs} + const.TWOPI" if negative else lhs
            if canon(e) != canon(ast.parse(want, mode="eval").body):
                ok_fix = False
        if ok_mod and ok_cmp and ok_fix:
            r.ok(w2.qualname, "fmod(x, 2pi), +2pi when negative: range [0, 2pi) (path-wise)", w2.loc())
        else:
            r.violation(w2.qualname, f"wrap-2pi:{ok_mod}:{ok_cmp}:{ok_fix}", "wrapAngle2Pi is no longer fmod(x, 2pi) with +2pi for negative results", w2.loc())

    r.guard(w2.qualname, f2)
    rs = p.func(f"{MATHS}.residual")

    def f3():
        a, b, ang = rs.params
        paths = _paths(rs)
        angular = plain = None
        bad = []
        for e, conds in paths:
            flags = [(unparse(c), pol) for c, pol in conds]
            if flags == [(ang, True)] or flags == [(f"not {ang}", False)]:
                angular = e
            elif flags == [(ang, False)] or flags == [(f"not {ang}", True)]:
                plain = e
            else:
                bad.append(f"condition `{flags}`")
        if angular is None or plain is None:
            if not bad:
                raise Undecided("residual does not branch on the angular flag alone", rs.node)
        if plain is not None and unparse(plain) != f"{a} - {b}":
            bad.append(f"non-angular branch `{unparse(plain)}` (expected {a} - {b})")
        if angular is not None:
            if not (isinstance(angular, ast.Call) and call_name(angular) in ("wrapAngleNegPiPi",) and len(angular.args) == 1):
                bad.append(f"angular branch `{unparse(angular)}` does not end in the (-pi, pi] wrap of the difference")
            else:
                d = angular.args[0]
                ok_d = isinstance(d, ast.BinOp) and isinstance(d.op, ast.Sub)
                if ok_d:
                    def core(x):
                        return x.args[0] if isinstance(x, ast.Call) and call_name(x) in ("wrapAngle2Pi",) and x.args else x
                    ok_d = unparse(core(d.left)) == a and unparse(core(d.right)) == b
                if not ok_d:
                    bad.append(f"wrapped expression `{unparse(d)}` is not (first - second)")
        if bad:
            r.violation(rs.qualname, "residual:" + ";".join(bad), "scalar residual: " + "; ".join(bad), rs.loc())
        else:
            r.ok(rs.qualname, "wrapAngleNegPiPi(a - b) if angular else a - b (path-wise)", rs.loc())

    r.guard(rs.qualname, f3)
    rv = p.func(f"{MATHS}.residuals")

    def f4():
        rets = _returns(rv)
        e = rets[-1].value
        a, b, ang = rv.params
        ok = isinstance(e, ast.Call) and call_name(e) == "array" and isinstance(e.args[0], ast.ListComp)
        if ok:
            lc = e.args[0]
            ok = isinstance(lc.elt, ast.Call) and call_name(lc.elt) == "residual" and unparse(lc.generators[0].iter) == f"zip({a}, {b}, {ang})" and [unparse(x) for x in lc.elt.args] == [unparse(x) for x in lc.generators[0].target.elts]
        if ok:
            r.ok(rv.qualname, "element-wise residual over zip(vec1, vec2, angular)", rv.loc())
        else:
            r.violation(rv.qualname, f"residuals:{unparse(e)[:80]}", "residuals is not the element-wise scalar residual over (vec1, vec2, angular) in order", rv.loc())

    r.guard(rv.qualname, f4)
    vr = p.func(f"{MATHS}.vecResiduals")
    vw = p.func(f"{MATHS}.vecWrapAngleNeg")

    def f5():
        a, b, ang = vr.params
        rets = _returns(vr)
        e = rets[0].value
        ok = isinstance(e, ast.Call) and call_name(e) == "where" and len(e.args) == 3 and unparse(e.args[0]) == ang and unparse(e.args[2]) == f"{a} - {b}"
        if ok:
            w = e.args[1]
            ok = isinstance(w, ast.Call) and call_name(w) == "vecWrapAngleNeg" and isinstance(w.args[0], ast.BinOp) and isinstance(w.args[0].op, ast.Sub)
            if ok:
                d = w.args[0]

                def core(x):
                    return x.args[0] if isinstance(x, ast.Call) and call_name(x) in ("vecWrapAngle2Pi", "wrapAngle2Pi") and x.args else x

                ok = unparse(core(d.left)) == a and unparse(core(d.right)) == b
        if ok:
            r.ok(vr.qualname, "where(angular, wrap(a - b), a - b)", vr.loc())
        else:
            r.violation(vr.qualname, f"vecResiduals:{unparse(e)[:90]}", "vector residual does not end in the modulo wrap of (first - second) on the angular branch / plain difference otherwise", vr.loc())
        rw = _returns(vw)
        prm = vw.params[0]
        want = canon(ast.parse(f"({prm} + const.PI) % const.TWOPI - const.PI", mode="eval").body)
        if len(rw) == 1 and canon(rw[0].value) == want:
            r.ok(vw.qualname, "(x + pi) mod 2pi - pi: a true modulo", vw.loc())
        else:
            r.violation(vw.qualname, f"vecWrapAngleNeg:{unparse(rw[0].value) if rw else None}", "vecWrapAngleNeg is not the true modulo (x + pi) % 2pi - pi: results depend on whole turns added to the operands", vw.loc())

    r.guard(vr.qualname, f5)
    am = p.func(f"{MATHS}.angularMean")

    def f6():
        defs = {}
        for n in walk_no_nested(am.node):
            if isinstance(n, ast.Assign) and isinstance(n.targets[0], ast.Name):
                defs.setdefault(n.targets[0].id, []).append(n.value)
        ang = am.params[0]
        bad = []
        s, c = defs.get("sin_angles", []), defs.get("cos_angles", [])
        if not (len(s) == 1 and len(c) == 1 and isinstance(s[0], ast.Call) and isinstance(c[0], ast.Call) and call_name(s[0]) == "sin" and call_name(c[0]) == "cos" and canon(s[0].args[0]) == canon(c[0].args[0])):
            bad.append("sin / cos are not taken of one common argument")
        else:
            want = canon(ast.parse(f"({ang} - low) * const.TWOPI / (high - low)", mode="eval").body)
            if canon(s[0].args[0]) != want:
                bad.append(f"scaled argument `{unparse(s[0].args[0])}`")
        # angles used nowhere else (except shape checks)
        other = [n for n in walk_no_nested(am.node) if isinstance(n, ast.Name) and n.id == ang and isinstance(n.ctx, ast.Load)]
        allowed = 0
        for n in other:
            allowed += 1
        sm, cm = defs.get("sin_mean", []), defs.get("cos_mean", [])
        pairs = list(zip(sm, cm))
        for a_, b_ in pairs:
            ta, tb = unparse(a_).replace("sin_", "X_"), unparse(b_).replace("cos_", "X_")
            if ta != tb:
                bad.append(f"sine and cosine sums are formed differently: `{unparse(a_)}` vs `{unparse(b_)}`")
        if len(sm) != len(cm) or not sm:
            bad.append("sine / cosine sums missing")
        res = defs.get("result_mean", [])
        if not (res and "arctan2(sin_mean, cos_mean)" in unparse(res[0]) and "wrapAngle2Pi" in unparse(res[0])):
            bad.append(f"mean angle `{unparse(res[0]) if res else None}` is not wrapAngle2Pi(arctan2(sin_mean, cos_mean))")
        rets = _returns(am)
        want_r = canon(ast.parse("result_mean * (high - low) / const.TWOPI + low", mode="eval").body)
        if not (rets and canon(rets[-1].value) == want_r):
            bad.append(f"rescaling `{unparse(rets[-1].value) if rets else None}`")
        # every value handed back is the circular mean: no other way out (a linear-mean fallback is exactly what the
        # helper exists to avoid; with unscented weights the resultant is tiny by construction, not degenerate)
        for rt in rets[:-1]:
            bad.append(f"an additional exit returns `{unparse(rt.value)[:60]}` instead of the rescaled circular mean")
        if bad:
            r.violation(am.qualname, "angularMean:" + ";".join(bad), "circular mean: " + "; ".join(bad), am.loc())
        else:
            r.ok(am.qualname, "arctan2(sum w sin, sum w cos) of one scaled argument, rescaled to [low, high)", am.loc())

    r.guard(am.qualname, f6)


def rule_r3(chk, p, t):
    r = chk.rule(
        "C16.R3",
        "flag / label order agreement",
        7,
        "Measurement derives labels and angular flags from the same sequence in order; measurements are computed "
        "and zipped with the labels in that order; Observation.measurement_states reads values in label order; "
        "VALID_ANGLE_MAP is total over the angular IsAngle members with their bounds; each MeasurementType.is_angular "
        "returns the member matching the range of its value",
    )
    ms = p.cls(f"{MEAS}.Measurement")
    init = ms.methods.get("__init__")

    def f1():
        asg = {}
        for n in walk_no_nested(init.node):
            if isinstance(n, ast.Assign) and isinstance(n.targets[0], ast.Attribute):
                asg[n.targets[0].attr] = n.value
        prm = init.params[1]
        lab, angs, mea = asg.get("_labels"), asg.get("_angular_values"), asg.get("_measurements")
        ok = lab is not None and isinstance(lab, ast.ListComp) and unparse(lab.generators[0].iter) == prm and unparse(lab.elt).endswith(".LABEL") and not lab.generators[0].ifs
        ok2 = angs is not None and isinstance(angs, ast.ListComp) and unparse(angs.generators[0].iter) in (prm, "self._measurements") and unparse(angs.elt).endswith(".is_angular") and not angs.generators[0].ifs
        ok3 = mea is not None and unparse(mea) == prm
        if ok and ok2 and ok3:
            r.ok(init.qualname, "labels, flags and measurement objects are one sequence in one order", init.loc())
        else:
            r.violation(init.qualname, f"measurement-init:{ok}:{ok2}:{ok3}", "labels and angular flags are no longer derived from the same measurement sequence in the same order", init.loc())
        cmf = ms.methods.get("calculateMeasurement")
        rets = _returns(cmf)
        st = None
        for n in walk_no_nested(cmf.node):
            if isinstance(n, ast.Assign) and isinstance(n.targets[0], ast.Name) and n.targets[0].id == "meas_state":
                st = n.value
        ok4 = rets and unparse(rets[-1].value) == "dict(zip(self.labels, meas_state))" and st is not None and "for meas in self._measurements" in unparse(st)
        lp = ms.methods.get("labels")
        from rsa.terms import property_body

        ok5 = lp is not None and unparse(property_body(lp)) == "self._labels"
        av = ms.methods.get("angular_values")
        ok6 = av is not None and unparse(property_body(av)) == "self._angular_values"
        if ok4 and ok5 and ok6:
            r.ok(cmf.qualname, "values computed over self._measurements and zipped with self.labels", cmf.loc())
        else:
            r.violation(cmf.qualname, f"zip-order:{bool(ok4)}:{ok5}:{ok6}", "measurement values are not computed in the order of, and zipped with, the labels", cmf.loc())

    r.guard(ms.qualname, f1)
    obs = p.cls("resonaate.data.observation.Observation")
    mst = p.lookup_method(obs, "measurement_states")

    def f2():
        rets = _returns(mst)
        first = rets[0].value
        ok = isinstance(first, ast.Call) and isinstance(first.args[0], ast.ListComp) and unparse(first.args[0].generators[0].iter) == "self.measurement.labels" and not first.args[0].generators[0].ifs
        if ok:
            r.ok(mst.qualname, "values read in label order", mst.loc())
        else:
            r.violation(mst.qualname, f"states-order:{unparse(first)[:80]}", "measurement_states does not read the values in the order of measurement.labels", mst.loc())

    r.guard(mst.qualname, f2)
    mod = p.module(MEAS)
    vam = mod.assigns.get("VALID_ANGLE_MAP")
    isa = p.cls(f"{MEAS}.IsAngle")

    def f3():
        require(isinstance(vam, ast.Dict), "VALID_ANGLE_MAP is not a dict literal", mod.tree)
        members = [m for m in p.enum_members(isa)]
        keys = {k.attr: unparse(v) for k, v in zip(vam.keys, vam.values) if isinstance(k, ast.Attribute)}
        angular = [m for m in members if m != "NOT_ANGLE"]
        exp = {"ANGLE_0_2PI": "(0.0, TWOPI)", "ANGLE_NEG_PI_PI": "(-PI, PI)"}
        bad = [f"{m}: {keys.get(m)}" for m in angular if keys.get(m) != exp.get(m)]
        if "NOT_ANGLE" in keys:
            bad.append("NOT_ANGLE listed as angular")
        if bad:
            r.violation("VALID_ANGLE_MAP", "angle-map:" + ";".join(bad), f"VALID_ANGLE_MAP is not total over the angular kinds with their bounds: {bad}", mod.relpath)
        else:
            r.ok("VALID_ANGLE_MAP", f"{angular} -> bounds", mod.relpath)
        vm = mod.assigns.get("VALID_ANGULAR_MEASUREMENTS")
        if vm is not None and unparse(vm) == "tuple(VALID_ANGLE_MAP.keys())":
            r.ok("VALID_ANGULAR_MEASUREMENTS", "keys of the angle map", mod.relpath)
        else:
            r.violation("VALID_ANGULAR_MEASUREMENTS", f"valid:{unparse(vm) if vm is not None else None}", "VALID_ANGULAR_MEASUREMENTS is not the key set of VALID_ANGLE_MAP", mod.relpath)

    r.guard("VALID_ANGLE_MAP", f3)
    exp_kind = {"Range": "NOT_ANGLE", "RangeRate": "NOT_ANGLE", "Azimuth": "ANGLE_0_2PI", "Elevation": "ANGLE_NEG_PI_PI"}
    exp_fn = {"Range": "getRange", "RangeRate": "getRangeRate", "Azimuth": "getAzimuth", "Elevation": "getElevation"}
    mt = p.cls(f"{MEAS}.MeasurementType")
    for sc in p.subclasses(mt):
        m = sc.methods.get("is_angular")
        cons = sc.qualname

        def f4(sc=sc, m=m, cons=cons):
            require(m is not None, "is_angular not defined", sc.node)
            rets = _returns(m)
            val = rets[0].value.attr if rets and isinstance(rets[0].value, ast.Attribute) else None
            if sc.name not in exp_kind:
                r.undecided(cons, "measurement type without a row in the kind table", sc.loc())
                return
            calc = sc.methods.get("calculate")
            crets = _returns(calc) if calc else []
            fn_ok = crets and isinstance(crets[-1].value, ast.Call) and call_name(crets[-1].value) == exp_fn[sc.name]
            sl = [c for c in find_calls(calc.node, "getSlantRangeVector")] if calc else []
            args_ok = sl and [unparse(a) for a in sl[0].args] == calc.params[1:4]
            if val == exp_kind[sc.name] and fn_ok and args_ok:
                r.ok(cons, f"{exp_fn[sc.name]} of the slant range (sensor, target, instant) -> {val}", sc.loc())
            else:
                r.violation(cons, f"kind:{val}:{bool(fn_ok)}:{bool(args_ok)}", f"{sc.name}: is_angular returns {val} (expected {exp_kind[sc.name]}), value from {exp_fn[sc.name]} ok={bool(fn_ok)}, slant range of (sensor, target, instant) ok={bool(args_ok)}", sc.loc())

        r.guard(cons, f4)
    # the azimuth helper wraps into the range its kind declares
    ga = p.func(f"{MEAS}.getAzimuth")
    rets = _returns(ga)
    if rets and isinstance(rets[-1].value, ast.Call) and call_name(rets[-1].value) == "wrapAngle2Pi":
        r.ok(ga.qualname, "azimuth returned through wrapAngle2Pi (kind ANGLE_0_2PI)", ga.loc())
    else:
        r.violation(ga.qualname, "azimuth-not-wrapped", "getAzimuth no longer wraps its result to [0, 2pi) although its kind is ANGLE_0_2PI", ga.loc())


def rule_r4(chk, p, t):
    r = chk.rule(
        "C16.R4",
        "order-equivariant stacking",
        6,
        "every stacked quantity in the unscented and particle filters is one pass over `observations` in list "
        "order (no sort, no set, no reversal)",
    )
    for q in (UKF, GPF):
        cls = p.cls(q)
        for m in cls.methods.values():
            if len(m.params) < 2 or m.params[1] != "observations":
                continue
            for n in walk_no_nested(m.node):
                it = None
                what = None
                if isinstance(n, (ast.ListComp, ast.GeneratorExp)):
                    it = n.generators[0].iter
                    what = unparse(n.elt)[:40]
                elif isinstance(n, ast.For):
                    it = n.iter
                    what = "loop"
                if it is None:
                    continue
                names = {x.id for x in ast.walk(it) if isinstance(x, ast.Name)}
                if "observations" not in names:
                    continue
                cons = f"{m.qualname}:{what}"
                plain = isinstance(it, ast.Name) or (isinstance(it, ast.Call) and call_name(it) in ("map", "enumerate", "zip") and not any(isinstance(x, ast.Call) and call_name(x) in ("sorted", "reversed", "set", "frozenset") for x in ast.walk(it)))
                if plain:
                    r.ok(cons, f"iterates `{unparse(it)[:50]}` in list order", m.loc(n))
                else:
                    r.violation(cons, f"iter:{unparse(it)[:60]}", f"`{what}` is stacked over `{unparse(it)[:70]}`: the rows of this quantity no longer correspond to the rows of the others", m.loc(n))



def _order_dependent_selection(fn, prm, value):
    """`value` is built from a local collection that a loop over `prm` fills one element at a time, keyed (one element
    per key: first / last / best-so-far wins, ties broken by position) or under a condition that reads what the loop has
    stored so far: which observations survive depends on the order of the list.  Returns a description or None."""
    names = {x.id for x in ast.walk(value) if isinstance(x, ast.Name)}
    for loop in walk_no_nested(fn):
        if not (isinstance(loop, ast.For) and isinstance(loop.iter, ast.Name) and loop.iter.id == prm and isinstance(loop.target, ast.Name)):
            continue
        el = loop.target.id
        mutated = set()
        for n in ast.walk(loop):
            if isinstance(n, ast.Assign):
                for tg in n.targets:
                    if isinstance(tg, ast.Subscript) and isinstance(tg.value, ast.Name):
                        mutated.add(tg.value.id)
            elif isinstance(n, ast.Call) and isinstance(n.func, ast.Attribute) and n.func.attr in ("append", "add", "setdefault", "update", "insert") and isinstance(n.func.value, ast.Name):
                mutated.add(n.func.value.id)
        aliases = {el}
        for n in ast.walk(loop):
            if isinstance(n, ast.Assign) and len(n.targets) == 1 and isinstance(n.targets[0], ast.Name) and any(isinstance(x, ast.Name) and x.id in mutated for x in ast.walk(n.value)):
                aliases.add(n.targets[0].id)  # e.g. current = selected.get(key)

        def conds_of(stmt):
            out, stack = [], [(loop, [])]
            while stack:
                node, cs = stack.pop()
                for fld in ("body", "orelse"):
                    for s in getattr(node, fld, []) or []:
                        c2 = cs + ([node.test] if isinstance(node, ast.If) else [])
                        if s is stmt:
                            return c2
                        if isinstance(s, (ast.If, ast.For, ast.While, ast.With, ast.Try)):
                            stack.append((s, c2))
            return out

        for n in ast.walk(loop):
            keyed = isinstance(n, ast.Assign) and len(n.targets) == 1 and isinstance(n.targets[0], ast.Subscript) and isinstance(n.targets[0].value, ast.Name) and n.targets[0].value.id in names and isinstance(n.value, ast.Name) and n.value.id == el
            appended = isinstance(n, ast.Expr) and isinstance(n.value, ast.Call) and isinstance(n.value.func, ast.Attribute) and n.value.func.attr in ("append", "add") and isinstance(n.value.func.value, ast.Name) and n.value.func.value.id in names and any(isinstance(a, ast.Name) and a.id == el for a in n.value.args)
            if keyed:
                return f"a collection that keeps ONE observation per `{unparse(n.targets[0].slice)[:40]}` while iterating over `{prm}` (line {n.lineno}): with two observations of equal key the survivor - and with it the posterior - depends on their order in the list"
            if appended:
                cs = conds_of(n)
                stateful = [c for c in cs if any(isinstance(x, ast.Name) and (x.id in mutated or (x.id in aliases and x.id != el)) for x in ast.walk(c))]
                if stateful:
                    return f"a list appended to under `{unparse(stateful[0])[:50]}`, a condition on what the loop has kept so far (line {n.lineno}): which observations survive depends on the order of `{prm}`"
    return None


def rule_r5(chk, p, t):
    r = chk.rule(
        "C16.R5",
        "one stacking order per update: the observation list is never re-ordered on the way",
        6,
        "the stacked quantities of one measurement update - measured vector, predicted vector, angular flags, noise "
        "blocks, gain columns - are built in several methods (update, forecast, calculateMeasurementMatrix, ...) from "
        "the observation list each of them is handed; they pair up row by row only if every method iterates that list "
        "in the order it was given.  No method on the path re-binds its observation-list parameter (sorted / reversed / "
        "filtered / shuffled copy), sorts it in place, or passes a re-ordered list on: a stable internal order in one "
        "method and the caller's order in another pairs measured rows with other sensors' predicted rows whenever the "
        "caller's order is not the internal one",
        "the numerical invariance itself",
    )
    REORDER = {"sorted", "reversed", "shuffle", "sort", "reverse", "permutation", "sample"}
    classes = []
    for q in (UKF, GPF, "resonaate.estimation.sequential_filter.SequentialFilter", "resonaate.estimation.kalman.kalman_filter.KalmanFilter", "resonaate.estimation.adaptive.adaptive_filter.AdaptiveFilter"):
        try:
            c = p.cls(q)
        except AnchorError:
            continue
        classes += [c] + [x for x in p.subclasses(c) if x not in classes]
    seen = set()
    for c in classes:
        for m in c.methods.values():
            if m.qualname in seen:
                continue
            seen.add(m.qualname)
            prm = next((q for q in m.params if q in ("observations", "obs_list", "successful_obs") or ("Observation]" in (unparse(m.param_annotation(q)) if m.param_annotation(q) is not None else ""))), None)
            if prm is None:
                continue

            def one(m=m, prm=prm):
                bad = []
                unsure = []
                for n in walk_no_nested(m.node):
                    if isinstance(n, ast.Assign) and any(isinstance(tg, ast.Name) and tg.id == prm for tg in n.targets):
                        v = n.value
                        copy_only = isinstance(v, ast.Call) and call_name(v) in ("list", "tuple") and len(v.args) == 1 and isinstance(v.args[0], ast.Name) and v.args[0].id == prm
                        reorders = any(isinstance(c_, ast.Call) and call_name(c_) in REORDER for c_ in ast.walk(v)) or any(isinstance(c_, ast.comprehension) and c_.ifs for c_ in ast.walk(v))
                        if reorders:
                            bad.append(f"`{prm}` is re-bound to `{unparse(v)[:60]}` (line {n.lineno})")
                        elif not copy_only:
                            sel = _order_dependent_selection(m.node, prm, v)
                            if sel:
                                bad.append(f"`{prm}` is re-bound to `{unparse(v)[:50]}`, {sel}")
                            else:
                                unsure.append(f"`{prm}` is re-bound to `{unparse(v)[:60]}` (line {n.lineno})")
                    if isinstance(n, ast.Call):
                        nm = call_name(n)
                        if nm in REORDER and any(isinstance(a, ast.Name) and a.id == prm for a in list(n.args) + ([n.func.value] if isinstance(n.func, ast.Attribute) else [])):
                            bad.append(f"`{unparse(n)[:60]}` re-orders the observation list")
                    if isinstance(n, ast.Subscript) and isinstance(n.value, ast.Name) and n.value.id == prm and isinstance(n.slice, ast.Slice) and n.slice.step is not None:
                        bad.append(f"`{unparse(n)}` re-orders the observation list")
                if bad:
                    r.violation(
                        m.qualname,
                        "observation-order:" + ";".join(sorted(set(b[:40] for b in bad))),
                        f"{m.cls.name}.{m.name}: " + "; ".join(sorted(set(bad))) + " - the stacks this method builds are in another order than those its caller / callees build from the list as given (measured rows, predicted rows and angular flags no longer pair up)",
                        m.loc(),
                    )
                elif unsure:
                    r.undecided(m.qualname, "; ".join(unsure), m.loc())
                else:
                    r.ok(m.qualname, f"`{prm}` is iterated and passed on as given", m.loc())

            r.guard(m.qualname, one)


_WRAPS = {"wrapAngle2Pi", "wrapAngleNegPiPi", "wrapAnglePi", "remainder", "mod"}
_SATURATING = {"min", "max", "clip", "minimum", "maximum", "fmin", "fmax", "safeClip", "abs", "fabs", "absolute"}


def rule_r6(chk, p, t):
    r = chk.rule(
        "C16.R6",
        "between ingestion and the filter an angle is only re-represented by period-preserving maps",
        2,
        "the update is invariant to adding a whole turn to a measured angle only if nothing on the way from the "
        "Observation record to the filter treats the angle as a plain number: Observation.__init__ stores each angular "
        "measurement either unchanged or through a wrap (wrapAngle2Pi / wrapAngleNegPiPi / a true modulo) - a map that "
        "sends x and x + 2 pi to the same value.  A saturating map (min / max / clip / abs) sends 355 degrees and -5 "
        "degrees to different values although they name the same direction; any other transformation is undecided.  "
        "Angular slots are those whose measurement type declares is_angular (R3)",
        "what the filter does with the stored value (R1-R4)",
    )
    obs = p.cls("resonaate.data.observation.Observation")
    init = obs.methods.get("__init__")
    require(init is not None, "Observation.__init__ not found", obs.node)
    # angular slots: Observation attributes named by measurement types that declare an angular kind
    angular = []
    for q, ci in p.classes.items():
        if not q.startswith("resonaate.physics.measurements."):
            continue
        lab = next((st.value for st in ci.node.body if isinstance(st, (ast.Assign, ast.AnnAssign)) and unparse(st.targets[0] if isinstance(st, ast.Assign) else st.target) == "LABEL" and st.value is not None), None)
        is_ang = ci.methods.get("is_angular")
        if lab is None or is_ang is None or not isinstance(lab, ast.Constant):
            continue
        rets = [n for n in walk_no_nested(is_ang.node) if isinstance(n, ast.Return) and n.value is not None]
        if rets and not (isinstance(rets[0].value, ast.Attribute) and rets[0].value.attr == "NOT_ANGLE"):
            angular.append(lab.value)
    require(len(angular) >= 2, f"angular measurement labels not found ({angular})", obs.node)
    for lab in sorted(angular):
        stores = [n for n in walk_no_nested(init.node) if isinstance(n, (ast.Assign, ast.AnnAssign)) and unparse(n.targets[0] if isinstance(n, ast.Assign) else n.target) == f"self.{lab}" and n.value is not None]
        cons = f"{obs.qualname}.{lab}"
        if len(stores) != 1:
            r.undecided(cons, f"{len(stores)} stores of self.{lab} in Observation.__init__", init.loc())
            continue
        v = inline_locals(init, stores[0].value)
        # `None if x is None else E` / `E if x is not None else None`
        while isinstance(v, ast.IfExp):
            v = v.orelse if (isinstance(v.body, ast.Constant) and v.body.value is None) else v.body
        while isinstance(v, ast.Call) and call_name(v) == "float" and len(v.args) == 1:
            v = v.args[0]
        names = {n.id for n in ast.walk(v) if isinstance(n, ast.Name)}
        calls = {call_name(c) for c in ast.walk(v) if isinstance(c, ast.Call)}
        if isinstance(v, ast.Name) and v.id == lab:
            r.ok(cons, "stored unchanged", init.loc(stores[0]))
        elif lab not in names:
            r.violation(cons, f"angle-source:{lab}:{unparse(v)[:50]}", f"self.{lab} is set from `{unparse(v)[:70]}`, not from the `{lab}` argument", init.loc(stores[0]))
        elif calls & _SATURATING:
            r.violation(cons, f"angle-saturated:{lab}:{sorted(calls & _SATURATING)}", f"self.{lab} is set from `{unparse(v)[:80]}`: {sorted(calls & _SATURATING)} saturate - an angle given on another turn (355 deg for -5 deg, or any value a whole turn away) is stored as a DIFFERENT direction, so the filter update is no longer invariant to the representation of the measured angle", init.loc(stores[0]))
        elif (isinstance(v, ast.Call) and call_name(v) in _WRAPS and v.args and isinstance(v.args[0], ast.Name) and v.args[0].id == lab) or (isinstance(v, ast.BinOp) and isinstance(v.op, ast.Mod) and isinstance(v.left, ast.Name) and v.left.id == lab):
            r.ok(cons, f"stored through the period-preserving `{unparse(v)[:40]}`", init.loc(stores[0]))
        else:
            r.undecided(cons, f"self.{lab} is set from `{unparse(v)[:80]}`: not recognised as a period-preserving map", init.loc(stores[0]))


def run(chk, p, t):
    chk.explanation = (
        "Static decision of structural necessary conditions of C16: (R1) measurement vectors never meet in a raw "
        "subtraction / linear mean in the filters; (R2) every angular residual ends in a true modulo wrap of "
        "(first - second), the wrap helpers reduce modulo 2pi with the documented closed end, the circular mean reads "
        "angles only through sin/cos with common weights; (R3) labels, flags and values share one order and each "
        "measurement type declares the angular kind matching its range; (R4) stacked quantities iterate the "
        "observation list in order. NOT decided: numerical invariance to turns and permutations."
    )
    chk.assumptions += ["numpy.remainder takes the sign of the divisor, numpy.fmod of the dividend; `%` on arrays is a true modulo"]
    for fn in (rule_r1, rule_r2, rule_r3, rule_r4, rule_r5, rule_r6):
        rid = "C16.R" + fn.__name__[-1]
        if not chk.wants(rid):
            continue
        try:
            fn(chk, p, t)
        except (Undecided, AnchorError) as e:
            rr = chk.rule(rid + ".x", fn.__name__, 0, "-")
            (rr.undecided if isinstance(e, Undecided) else rr.error)(fn.__name__, str(e))


_ = inline_locals
