"""C11 - ground facilities stay fixed at their configured geodetic location.

Decides: exact time-base provenance of the ground dynamics (R1, shares C05.R1), capture-instant
consistency in dynamicsFactory (R2), output confinement and unit-correct elapsed time of
Terrestrial.propagate (R3), degree->radian and slot discipline of the geodetic configuration (R4).
Does NOT decide the metre-level accuracy of the reduction or the velocity equality (numerics).
"""

from __future__ import annotations

import ast

from rsa.model import AnchorError, Undecided, call_name, unparse, walk_no_nested
from rsa.util import find_calls, require
from rules.C05 import jd2dt_rounding


def rule_r1(chk, p, t):
    r = chk.rule(
        "C11.R1",
        "exact time base of ground dynamics",
        2,
        "Terrestrial.datetime_start is the scenario start instant exactly: produced from the start Julian date by a "
        "conversion that rounds (C05.R1), or taken from the clock's start datetime",
    )
    init = p.func("Terrestrial.__init__")

    def one():
        asg = [n for n in walk_no_nested(init.node) if isinstance(n, ast.Assign) and isinstance(n.targets[0], ast.Attribute) and n.targets[0].attr == "datetime_start"]
        require(len(asg) == 1, "Terrestrial.__init__ does not assign datetime_start exactly once", init.node)
        v = asg[0].value
        if isinstance(v, ast.Call) and call_name(v) == "julianDateToDatetime" and len(v.args) == 1 and isinstance(v.args[0], ast.Name) and v.args[0].id == init.params[1]:
            r.ok(init.qualname + ":source", "datetime_start = julianDateToDatetime(jd_start)", init.loc(asg[0]))
            verdict, key, msg, node, fn = jd2dt_rounding(p)
            if verdict == "ok":
                r.ok(init.qualname + ":conversion", msg, fn.loc())
            else:
                r.violation(
                    init.qualname,
                    "time-base:" + key,
                    "the ground site's start datetime is recovered by a conversion that does not round: " + msg + " -> the site is displaced by up to a second of Earth rotation (~460 m at the equator) for start instants with non-zero seconds",
                    fn.loc(node),
                )
        elif isinstance(v, ast.Attribute) and v.attr == "datetime_start":
            r.ok(init.qualname + ":source", f"datetime_start = {unparse(v)}", init.loc(asg[0]))
            r.trivial(init.qualname + ":conversion", "no conversion involved")
        else:
            r.violation(init.qualname, f"time-base-source:{unparse(v)}", f"datetime_start is `{unparse(v)}`: not the scenario start instant", init.loc(asg[0]))

    r.guard(init.qualname, one)


def rule_r2(chk, p, t):
    r = chk.rule(
        "C11.R2",
        "capture instant",
        3,
        "in dynamicsFactory the configured state is converted to inertial and back to Earth-fixed at one and the same "
        "instant, the clock's start datetime, and the Julian date handed to Terrestrial is the clock's start date",
    )
    fac = p.func("resonaate.dynamics.dynamicsFactory")

    def one():
        import copy

        terr = p.cls("resonaate.dynamics.terrestrial.Terrestrial")
        ctor = [c for c in walk_no_nested(fac.node) if isinstance(c, ast.Call) and (call_name(c) == "Terrestrial" or (isinstance(c.func, ast.Attribute) and unparse(c.func.value) == "Terrestrial"))]
        require(len(ctor) == 1, "dynamicsFactory does not construct Terrestrial exactly once", fac.node)
        c = ctor[0]
        if isinstance(c.func, ast.Attribute):
            # an alternative constructor: inline `return cls(a, b)` with the call's arguments
            alt = terr.methods.get(c.func.attr)
            require(alt is not None and alt.kind == "classmethod", f"Terrestrial.{c.func.attr} is not a classmethod of Terrestrial", c)
            rets = [n for n in walk_no_nested(alt.node) if isinstance(n, ast.Return) and n.value is not None]
            require(len(rets) == 1 and isinstance(rets[0].value, ast.Call) and unparse(rets[0].value.func) in ("cls", "Terrestrial"), f"Terrestrial.{c.func.attr} does not return cls(...) once", alt.node)
            from rsa.terms import inline_locals

            inner = inline_locals(alt, rets[0].value)
            binding = dict(zip(alt.params[1:], c.args))
            binding.update({k.arg: k.value for k in c.keywords if k.arg})

            class Sub(ast.NodeTransformer):
                def visit_Name(self, n):
                    return copy.deepcopy(binding[n.id]) if n.id in binding else n

            c = Sub().visit(copy.deepcopy(inner))
        require(len(c.args) == 2, "Terrestrial is not constructed with (jd_start, x_ecef)", c)
        jd, x = c.args
        clockp = "clock"

        def instant(e):
            # the clock's start described either way is one instant (see the clock instance below)
            txt = unparse(e)
            return f"{clockp}.datetime_start" if txt == f"julianDateToDatetime({clockp}.julian_date_start)" else txt
        if unparse(jd) == f"{clockp}.julian_date_start":
            r.ok(fac.qualname + ":jd", "jd_start = clock.julian_date_start", fac.loc(c))
        else:
            r.violation(fac.qualname, f"jd:{unparse(jd)}", f"Terrestrial gets `{unparse(jd)}` as its start date, not clock.julian_date_start", fac.loc(c))
        if not (isinstance(x, ast.Call) and call_name(x) == "eci2ecef" and len(x.args) == 2):
            r.violation(fac.qualname, f"capture:{unparse(x)}", f"the Earth-fixed state is `{unparse(x)}`, expected eci2ecef(state.toECI(t0), t0)", fac.loc(c))
            return
        st, inst = x.args
        if isinstance(st, ast.Call) and call_name(st) == "toECI" and len(st.args) == 1 and instant(st.args[0]) == instant(inst):
            r.ok(fac.qualname + ":same-instant", f"toECI and eci2ecef both at {unparse(inst)}", fac.loc(c))
        else:
            r.violation(fac.qualname, f"two-instants:{unparse(st)}|{unparse(inst)}", f"the state is made inertial at `{unparse(st.args[0]) if isinstance(st, ast.Call) and st.args else '?'}` but made Earth-fixed at `{unparse(inst)}`", fac.loc(c))
        if instant(inst) == f"{clockp}.datetime_start":
            r.ok(fac.qualname + ":instant", "instant = clock.datetime_start", fac.loc(c))
        else:
            r.violation(fac.qualname, f"instant:{unparse(inst)}", f"the capture instant is `{unparse(inst)}`, not clock.datetime_start", fac.loc(c))

    r.guard(fac.qualname, one)

    # the clock's two start values describe one instant
    ci = p.func("ScenarioClock.__init__")

    def clock():
        a = {}
        for n in walk_no_nested(ci.node):
            if isinstance(n, ast.Assign) and isinstance(n.targets[0], ast.Attribute) and n.targets[0].attr in ("datetime_start", "julian_date_start"):
                a[n.targets[0].attr] = n.value
        require(len(a) == 2, "clock does not set both start values", ci.node)
        d, j = a["datetime_start"], a["julian_date_start"]
        if isinstance(d, ast.Name) and isinstance(j, ast.Call) and call_name(j) == "datetimeToJulianDate" and len(j.args) == 1 and isinstance(j.args[0], ast.Name) and j.args[0].id == d.id:
            r.ok(ci.qualname, "julian_date_start = datetimeToJulianDate(datetime_start)", ci.loc())
        else:
            r.violation(ci.qualname, f"start-pair:{unparse(d)}|{unparse(j)}", "the clock's start datetime and start Julian date are not the same instant", ci.loc())

    r.guard(ci.qualname, clock)


def rule_r3(chk, p, t):
    r = chk.rule(
        "C11.R3",
        "output confinement",
        3,
        "Terrestrial.propagate returns ecef2eci(captured Earth-fixed state, start datetime + elapsed seconds): it "
        "depends only on the captured state and the final time, with seconds passed as seconds",
    )
    fn = p.func("Terrestrial.propagate")

    def one():
        rets = [n for n in walk_no_nested(fn.node) if isinstance(n, ast.Return) and n.value is not None]
        require(len(rets) == 1, "Terrestrial.propagate has more than one return", fn.node)
        from rsa.terms import inline_locals

        e = inline_locals(fn, rets[0].value)
        if not (isinstance(e, ast.Call) and call_name(e) == "ecef2eci" and len(e.args) >= 2):
            r.violation(fn.qualname, f"return:{unparse(e)}", f"propagate returns `{unparse(e)}`, expected ecef2eci(self.x_ecef, instant)", fn.loc(rets[0]))
            return
        st, inst = e.args
        if unparse(st) == "self.x_ecef":
            r.ok(fn.qualname + ":state", "converts the captured self.x_ecef", fn.loc(rets[0]))
        else:
            r.violation(fn.qualname, f"state:{unparse(st)}", f"propagate converts `{unparse(st)}` instead of the captured Earth-fixed state", fn.loc(rets[0]))
        names = {n.id for n in ast.walk(e) if isinstance(n, ast.Name)}
        leak = names & (set(fn.params) - {"self", "final_time"})
        if leak:
            r.violation(fn.qualname, f"depends-on:{sorted(leak)}", f"the result depends on {sorted(leak)}: a ground site must not move with the incoming state or start time", fn.loc(rets[0]))
        else:
            r.ok(fn.qualname + ":confinement", "depends on self and final_time only", fn.loc(rets[0]))
        good = (
            isinstance(inst, ast.BinOp)
            and isinstance(inst.op, ast.Add)
            and unparse(inst.left) == "self.datetime_start"
            and isinstance(inst.right, ast.Call)
            and call_name(inst.right) == "timedelta"
            and not inst.right.args
            and len(inst.right.keywords) == 1
            and inst.right.keywords[0].arg == "seconds"
            and unparse(inst.right.keywords[0].value) == "final_time"
        )
        # nothing else the conversion is given may come from another epoch: the Earth orientation (precession, nutation,
        # polar motion, UT1-UTC, length of day) is that of the instant itself
        cls = fn.cls
        init = cls.methods.get("__init__")
        captured = {}
        if init is not None:
            for n in walk_no_nested(init.node):
                if isinstance(n, ast.Assign) and len(n.targets) == 1 and isinstance(n.targets[0], ast.Attribute) and unparse(n.targets[0].value) == "self":
                    captured[n.targets[0].attr] = n.value

        def self_reads(expr, meth, depth=0, seen=None):
            """self attributes the value of `expr` (evaluated in method `meth`) is computed from, through self-method calls."""
            seen = seen if seen is not None else set()
            out = set()
            for n in ast.walk(expr):
                if isinstance(n, ast.Attribute) and isinstance(n.value, ast.Name) and n.value.id == "self":
                    callee = cls.methods.get(n.attr) or p.lookup_method(cls, n.attr)
                    if callee is not None and callee.qualname not in seen and depth < 3:
                        seen.add(callee.qualname)
                        out |= self_reads(ast.Module(body=callee.node.body, type_ignores=[]), callee, depth + 1, seen)
                    elif callee is None:
                        out.add(n.attr)
            return out

        extras = list(e.args[2:]) + [k.value for k in e.keywords]
        for x in extras:
            if isinstance(x, ast.Call) and unparse(x.func).endswith("ReductionParams.build") and len(x.args) == 1 and unparse(x.args[0]) == unparse(inst):
                r.ok(fn.qualname + ":orientation", "the reduction handed over is built for the instant itself", fn.loc(rets[0]))
                continue
            reads = self_reads(x, fn) - {"x_ecef"}
            stale = sorted(a for a in reads if a in captured and a != "datetime_start")
            if stale:
                a = stale[0]
                r.violation(fn.qualname + ":orientation", f"orientation-carried:{a}", f"ecef2eci is additionally given `{unparse(x)[:60]}`, computed from `self.{a}` = `{unparse(captured[a])[:60]}` - evaluated once when the dynamics object was built: Earth-orientation quantities of the START epoch are reused at every later epoch (precession / nutation / UT1-UTC drift away with elapsed time, UT1-UTC jumps at a leap second), so the site slides off its configured location as the run goes on", fn.loc(rets[0]))
            else:
                raise Undecided(f"ecef2eci is additionally given `{unparse(x)[:80]}`", rets[0])
        if good:
            r.ok(fn.qualname + ":instant", "self.datetime_start + timedelta(seconds=final_time)", fn.loc(rets[0]))
        else:
            r.violation(fn.qualname, f"instant:{unparse(inst)}", f"the instant is `{unparse(inst)}`, expected self.datetime_start + timedelta(seconds=final_time)", fn.loc(rets[0]))

    r.guard(fn.qualname, one)


def rule_r4(chk, p, t):
    r = chk.rule(
        "C11.R4",
        "geodetic configuration slots",
        2,
        "the geodetic configuration reaches lla2ecef as (latitude*DEG2RAD, longitude*DEG2RAD, altitude) and is made "
        "inertial at the instant it is given",
    )
    fn = p.func("LLAStateConfig.toECI") if p.has_func("LLAStateConfig.toECI") else None
    if fn is None:
        cands = [f for f in p.all_functions() if f.name == "toECI" and any(call_name(c) == "lla2ecef" for c in walk_no_nested(f.node) if isinstance(c, ast.Call))]
        if len(cands) != 1:
            r.error("LLA.toECI", "cannot find the geodetic state configuration's toECI")
            return
        fn = cands[0]

    def one():
        from rsa.terms import inline_locals

        calls = find_calls(fn.node, "lla2ecef")
        require(len(calls) == 1, "expected one lla2ecef call", fn.node)
        arg = inline_locals(fn, calls[0].args[0])
        require(isinstance(arg, ast.Call) and arg.args and isinstance(arg.args[0], (ast.List, ast.Tuple)), "lla2ecef argument is not an array literal", calls[0])
        el = [unparse(x) for x in arg.args[0].elts]
        exp = [("latitude", True), ("longitude", True), ("altitude", False)]
        bad = []
        for (name, deg), txt in zip(exp, el):
            has = f"self.{name}" in txt
            scaled = "DEG2RAD" in txt
            if not has or scaled != deg or txt.count("DEG2RAD") > 1:
                bad.append(f"{name}:{txt}")
        if bad or len(el) != 3:
            r.violation(fn.qualname, f"lla-slots:{bad}", f"lla2ecef receives {el}: expected [latitude*DEG2RAD, longitude*DEG2RAD, altitude]", fn.loc(calls[0]))
        else:
            r.ok(fn.qualname + ":slots", f"lla2ecef({el})", fn.loc(calls[0]))
        outer = find_calls(fn.node, "ecef2eci")
        require(len(outer) == 1, "expected one ecef2eci call", fn.node)
        if len(outer[0].args) == 2 and isinstance(outer[0].args[1], ast.Name) and outer[0].args[1].id == fn.params[1]:
            r.ok(fn.qualname + ":instant", "made inertial at the instant passed in", fn.loc(outer[0]))
        else:
            r.violation(fn.qualname, f"instant:{unparse(outer[0])}", "the geodetic state is not made inertial at the instant passed to toECI", fn.loc(outer[0]))

    r.guard(fn.qualname, one)


def rule_r5(chk, p, t):
    # the start-date inversion of the ground dynamics goes through getCalendarDate: a wrong calendar date for
    # some start instants displaces the site for the whole run (shared instance of C05.R5)
    from rules.C05 import rule_r5 as shared

    shared(chk, p, t, rid="C11.R5")


def rule_r6(chk, p, t):
    # the ground site's Earth-fixed frame uses terrestrial time for precession / nutation: shared instance of C04.R7
    from rules import C04

    C04.rule_r7(chk, p, t, rid="C11.R6")


def rule_r7(chk, p, t):
    # the configured latitude / longitude / altitude become the captured Earth-fixed position through lla2ecef:
    # shared instance of C04.R8
    from rules import C04

    C04.rule_r8(chk, p, t, rid="C11.R7")


def rule_r8(chk, p, t):
    # a ground site's inertial state is its Earth-fixed position turned by the Earth-orientation chain: reduction
    # parameters and the sidereal rotation (shared instances of C04.R4 / C04.R5)
    from rules import C04

    C04.rule_r4(chk, p, t, rid="C11.R8")
    C04.rule_r5(chk, p, t, rid="C11.R9")
    # ... whose argument is (year, day of year): the calendar tables behind dayOfYear (shared instance of C04.R6)
    C04.rule_r6(chk, p, t, rid="C11.R10")
    # the ground dynamics recover their start datetime from the start Julian date: the conversions must not consult the
    # host's time zone (shared instance of C05.R10)
    from rules import C05

    C05.rule_r10(chk, p, t, rid="C11.R11")


def rule_r12(chk, p, t):
    r = chk.rule(
        "C11.R12",
        "the inertial state of a configured site is a function of its configured latitude, longitude and altitude",
        3,
        "LLAStateConfig is a mutable pydantic model: its fields can be assigned, and `model_copy(update=...)` / deepcopy / "
        "pickling carry private attributes along.  The site 'remains at its configured latitude, longitude and altitude' "
        "only if LLAStateConfig.toECI (and getAltitude) compute their value from the declared FIELDS on every call: every "
        "attribute of self they read - through self-method calls, depth 3 - is a declared public field.  A private or "
        "undeclared attribute that a method of the class fills from the fields is a cache with no invalidation: a re-sited "
        "or cloned configuration keeps the Earth-fixed position of the original site.  Other undeclared reads are undecided",
        "the values computed",
    )
    ci = p.cls("resonaate.scenario.config.state_config.LLAStateConfig")
    hier = [ci] + list(p.mro(ci))[1:]
    fields = set()
    for c in hier:
        for st in c.node.body:
            if isinstance(st, ast.AnnAssign) and isinstance(st.target, ast.Name) and not st.target.id.startswith("_"):
                fields.add(st.target.id)
    writers = {}
    for c in hier:
        for m in c.methods.values():
            for n in walk_no_nested(m.node):
                if isinstance(n, (ast.Assign, ast.AnnAssign, ast.AugAssign)):
                    for tg in n.targets if isinstance(n, ast.Assign) else [n.target]:
                        if isinstance(tg, ast.Attribute) and isinstance(tg.value, ast.Name) and tg.value.id == "self":
                            writers.setdefault(tg.attr, []).append((m, n))

    def reads(m, depth=0, seen=None):
        seen = seen if seen is not None else {m.qualname}
        out = {}
        for n in walk_no_nested(m.node):
            if isinstance(n, ast.Attribute) and isinstance(n.value, ast.Name) and n.value.id == "self" and isinstance(n.ctx, ast.Load):
                callee = next((c.methods[n.attr] for c in hier if n.attr in c.methods), None)
                if callee is not None:
                    if callee.qualname not in seen and depth < 3:
                        seen.add(callee.qualname)
                        out.update(reads(callee, depth + 1, seen))
                else:
                    out.setdefault(n.attr, (m, n))
        return out

    from rsa.terms import inline_locals as _il

    n_m = 0
    for mname in ("toECI", "getAltitude"):
        m = ci.methods.get(mname)
        if m is None:
            r.error(mname, f"LLAStateConfig.{mname} not found")
            continue
        n_m += 1
        bad = und = None
        for attr, (where, node) in sorted(reads(m).items()):
            if attr in fields or attr.startswith(("model_", "__")):
                continue
            ws = [(wm, wn) for wm, wn in writers.get(attr, []) if any(isinstance(x, ast.Attribute) and isinstance(x.value, ast.Name) and x.value.id == "self" and x.attr in fields for x in ast.walk(_il(wm, wn.value) if getattr(wn, "value", None) is not None else wn))]
            if ws:
                bad = bad or (attr, where, node, ws[0])
            else:
                und = und or (attr, where, node)
        cons = f"{ci.qualname}.{mname}"
        if bad:
            attr, where, node, (wm, wn) = bad
            r.violation(cons, f"site-cache:{mname}:{attr}", f"{mname} reads `self.{attr}` ({where.name}), which {wm.name} fills from the configured fields (`{unparse(wn)[:70]}`) and nothing invalidates: after `cfg.latitude = ...` or `cfg.model_copy(update=...)` the configuration still converts the ORIGINAL site - the facility built from it does not sit at its configured latitude / longitude / altitude", where.loc(node))
        elif und:
            attr, where, node = und
            r.undecided(cons, f"{mname} reads `self.{attr}`, which is not a declared field", where.loc(node))
        else:
            r.ok(cons, f"a function of the declared fields {sorted(f for f in fields if f in ('latitude', 'longitude', 'altitude'))} on every call", m.loc())
    if len({"latitude", "longitude", "altitude"} & fields) == 3:
        r.ok(ci.qualname + ":fields", "latitude, longitude, altitude are declared fields", ci.loc())
    else:
        r.error(ci.qualname + ":fields", f"declared fields {sorted(fields)}")


def run(chk, p, t):
    chk.explanation = (
        "Static decision of structural necessary conditions of C11: (R1) the ground dynamics' start datetime is the "
        "scenario start instant exactly (conversion must round - shared instance of C05.R1); (R2) the configured state "
        "is captured in the Earth-fixed frame at one instant, the clock's start; (R3) Terrestrial.propagate depends only "
        "on the captured Earth-fixed state and start + elapsed seconds; (R4) geodetic configuration slots and degree "
        "conversion; (R5) the calendar inversion used for the start date is the cited algorithm with every quantity "
        "re-derived after the year correction (shared instance of C05.R5). NOT decided: metre-level accuracy of the IAU-76 reduction, inertial velocity values."
    )
    chk.assumptions += ["timedelta(seconds=x) interprets x as seconds", "eci2ecef/ecef2eci are mutual inverses at equal instants (C04)"]
    for fn in (rule_r1, rule_r2, rule_r3, rule_r4, rule_r5, rule_r6, rule_r7, rule_r8, rule_r12):
        rid = "C11.R" + fn.__name__.split("_r")[-1]
        if not chk.wants(rid):
            continue
        try:
            fn(chk, p, t)
        except (Undecided, AnchorError) as e:
            rr = chk.rule(rid + ".x", fn.__name__, 0, "-")
            (rr.undecided if isinstance(e, Undecided) else rr.error)(fn.__name__, str(e))
