"""C14 - visibility predicates match exact geometry and respect its symmetries.

Decides: wrap discipline of azimuth differences in field-of-view tests (R1), azimuth / elevation
mask tests against the circular-interval specification on all weak orderings (R2), comparator
polarity and operand identity of the visibility helpers (R3), rotation invariance of the conic test
and width comparisons (R4).  Does NOT decide geometric exactness as values or the Sun-fraction range.
"""

from __future__ import annotations

import ast

from rsa import orderings as O
from rsa.cfg import cfg_of
from rsa.model import AnchorError, Undecided, call_name, unparse, walk_no_nested
from rsa.terms import canon, inline_locals, single_defs
from rsa.util import parents_map, require

WRAP_NEG_PI_PI = {"wrapAngleNegPiPi", "vecWrapAngleNeg"}
RESIDUAL_FUNCS = {"residual", "residuals", "vecResiduals"}
SU = "resonaate.physics.sensor_utils"


def angle_kind(e, defs, depth=4):
    """'az' / 'el' for expressions produced by getAzimuth / getElevation (through single-def locals)."""
    if depth <= 0:
        return None
    if isinstance(e, ast.Call):
        nm = call_name(e)
        if nm == "getAzimuth":
            return "az"
        if nm == "getElevation":
            return "el"
        if nm in ("wrapAngle2Pi",) and e.args:
            return angle_kind(e.args[0], defs, depth - 1) or "az"
        if nm in WRAP_NEG_PI_PI and e.args:
            # wrapping each operand separately does not wrap their difference
            return angle_kind(e.args[0], defs, depth - 1)
    if isinstance(e, ast.Name) and e.id in defs:
        return angle_kind(defs[e.id], defs, depth - 1)
    return None


def offset_kind(e, defs, depth=4):
    """Kind of an offset expression: angle_kind, or the common kind of the two operands of a difference."""
    k = angle_kind(e, defs, depth)
    if k or depth <= 0:
        return k
    if isinstance(e, ast.Name) and e.id in defs:
        return offset_kind(defs[e.id], defs, depth - 1)
    if isinstance(e, ast.BinOp) and isinstance(e.op, ast.Sub):
        a, b = offset_kind(e.left, defs, depth - 1), offset_kind(e.right, defs, depth - 1)
        return a if a == b else None
    return None


def _angle_defs(fn_node):
    """single_defs plus locals assigned once and afterwards only shifted by whole turns (`d -= TWOPI`): their
    angle kind is that of the one assignment."""
    defs = dict(single_defs(fn_node))
    plain, shifted, other = {}, set(), set()
    for n in walk_no_nested(fn_node):
        if isinstance(n, ast.Assign) and len(n.targets) == 1 and isinstance(n.targets[0], ast.Name):
            nm = n.targets[0].id
            if nm in plain:
                other.add(nm)
            plain[nm] = n.value
        elif isinstance(n, ast.AugAssign) and isinstance(n.target, ast.Name):
            if isinstance(n.op, (ast.Add, ast.Sub)) and unparse(n.value) in ("TWOPI", "const.TWOPI", "2 * PI", "2 * const.PI", "2 * pi", "2.0 * PI", "2.0 * const.PI"):
                shifted.add(n.target.id)
            else:
                other.add(n.target.id)
    for nm in shifted - other:
        if nm in plain and nm not in defs:
            defs[nm] = plain[nm]
    return defs


def rule_r1(chk, p, t, rid="C14.R1"):
    r = chk.rule(
        rid,
        "wrap discipline of azimuth differences",
        1,
        "a difference of two azimuths (each in [0, 2pi)) that is compared with a width passes through a wrap to "
        "(-pi, pi] before abs / comparison; elevation differences need no wrap",
    )
    fov = p.cls("resonaate.sensors.field_of_view.FieldOfView")
    n_sub = 0
    fns = [m for m in p.overriders(fov, "inFieldOfView")]
    fns += [f for f in p.all_functions() if f.module.name.startswith("resonaate.sensors") and f not in fns]
    for fn in fns:
        defs = single_defs(fn.node)
        pm = parents_map(fn.node)
        for n in walk_no_nested(fn.node):
            if not (isinstance(n, ast.BinOp) and isinstance(n.op, ast.Sub)):
                continue
            kl, kr = angle_kind(n.left, defs), angle_kind(n.right, defs)
            if kl != "az" or kr != "az":
                continue
            n_sub += 1
            cons = f"{fn.qualname}:{unparse(n)}"
            # climb to the statement: a wrap must enclose the difference
            cur = n
            wrapped = False
            while cur in pm and not isinstance(pm[cur], ast.stmt):
                par = pm[cur]
                if isinstance(par, ast.Call) and cur is not par.func:
                    nm = call_name(par)
                    if nm in WRAP_NEG_PI_PI or nm in RESIDUAL_FUNCS:
                        wrapped = True
                        break
                    if nm in ("abs", "fabs", "absolute"):
                        break
                if isinstance(par, ast.BinOp) and isinstance(par.op, ast.Mod):
                    # modular idiom (d + pi) % (2 pi) - pi
                    wrapped = True
                    break
                if isinstance(par, ast.Compare):
                    break
                cur = par
            manual = None
            if not wrapped and cur in pm and isinstance(pm[cur], ast.Assign) and cur is pm[cur].value and isinstance(pm[cur].targets[0], ast.Name):
                dname = pm[cur].targets[0].id
                manual = _manual_wrap(fn.node, dname)
                if manual is None:
                    # the raw difference is only a temporary when every use of it is the argument of a wrap
                    uses = [x for x in ast.walk(fn.node) if isinstance(x, ast.Name) and x.id == dname and isinstance(x.ctx, ast.Load)]
                    stores = [x for x in ast.walk(fn.node) if isinstance(x, ast.Name) and x.id == dname and isinstance(x.ctx, ast.Store)]
                    if uses and len(stores) == 1 and all(isinstance(pm.get(u), ast.Call) and u in pm[u].args and (call_name(pm[u]) in WRAP_NEG_PI_PI or call_name(pm[u]) in RESIDUAL_FUNCS) for u in uses):
                        wrapped = True
            if manual is not None and manual == {"upper", "lower"}:
                wrapped = True
            if wrapped:
                r.ok(cons, "azimuth difference wrapped to (-pi, pi] before use", fn.loc(n))
            elif manual:
                side = "below -pi" if manual == {"upper"} else "above +pi"
                r.violation(
                    cons,
                    f"one-sided-wrap:{sorted(manual)[0]}",
                    f"`{unparse(n)}` is wrapped by hand on one side only (differences {side} are left as they are): the test is wrong in half of the 0/360 degree seam and no longer symmetric in its two arguments",
                    fn.loc(n),
                )
            else:
                r.violation(
                    cons,
                    "raw-azimuth-difference",
                    f"`{unparse(n)}` subtracts two azimuths in [0, 2pi) without wrapping the difference to (-pi, pi]: wrong in a wedge at the 0/360 degree seam (e.g. 359 deg vs 1 deg gives 358 deg instead of 2 deg)",
                    fn.loc(n),
                )
    if n_sub == 0:
        r.error("package:azimuth-differences", "no azimuth difference found in the field-of-view code (1 confirmed by hand)")


def _manual_wrap(fn_node, name):
    """Sides of a hand-written wrap of local ``name``: {'upper'} for `if d > pi: d -= 2 pi`, {'lower'} for
    `if d < -pi: d += 2 pi`; None when there is no such statement."""
    PI_T = ("PI", "const.PI", "pi", "math.pi", "np.pi")
    TW_T = ("TWOPI", "const.TWOPI", "2 * PI", "2 * const.PI", "2 * pi", "2.0 * PI", "2.0 * const.PI")
    sides = set()
    for i in ast.walk(fn_node):
        if not isinstance(i, (ast.If, ast.While)):
            continue
        tst = i.test
        if not (isinstance(tst, ast.Compare) and len(tst.ops) == 1):
            continue
        l, op, rr = tst.left, tst.ops[0], tst.comparators[0]
        if isinstance(rr, ast.Name) and rr.id == name:
            l, rr = rr, l
            op = {ast.Gt: ast.Lt, ast.GtE: ast.LtE, ast.Lt: ast.Gt, ast.LtE: ast.GtE}.get(type(op), type(op))()
        if not (isinstance(l, ast.Name) and l.id == name):
            continue
        rt = unparse(rr)
        for st in i.body:
            if isinstance(st, ast.AugAssign) and isinstance(st.target, ast.Name) and st.target.id == name and unparse(st.value) in TW_T:
                if isinstance(op, (ast.Gt, ast.GtE)) and rt in PI_T and isinstance(st.op, ast.Sub):
                    sides.add("upper")
                if isinstance(op, (ast.Lt, ast.LtE)) and rt in tuple("-" + x for x in PI_T) and isinstance(st.op, ast.Add):
                    sides.add("lower")
    return sides or None


def _inline_seq_locals(fn, e):
    """Replace single-definition locals that merely name an attribute / element (`lo, hi = self.az_mask`)."""
    import copy

    defs = single_defs(fn.node)

    class T(ast.NodeTransformer):
        def visit_Name(self, n):
            d = defs.get(n.id)
            if isinstance(n.ctx, ast.Load) and isinstance(d, (ast.Subscript, ast.Attribute)) and all(isinstance(x, (ast.Subscript, ast.Attribute, ast.Name, ast.Constant, ast.Load)) for x in ast.walk(d)):
                return copy.deepcopy(d)
            return n

    return T().visit(copy.deepcopy(e))


def _accept_predicate(fn, cfg, targets, symf, relevant):
    """OR over paths to ``targets`` of the AND of the relevant atoms with their polarity.  Boolean locals assigned on
    the way (`in_mask = lo <= az <= hi` ... `if in_mask:`) are replaced by the expression they hold on that path."""
    import copy

    disj = []
    for tg in targets:
        for path in cfg.paths(targets=[tg], max_visits=1, limit=5000):
            env = {}

            class S(ast.NodeTransformer):
                def visit_Name(self, n):
                    return copy.deepcopy(env[n.id]) if isinstance(n.ctx, ast.Load) and n.id in env else n

            parts = []
            for nid, lab in path:
                node = cfg.nodes[nid]
                st = node.ast
                if node.kind == "stmt" and isinstance(st, ast.Assign) and len(st.targets) == 1 and isinstance(st.targets[0], ast.Name) and isinstance(st.value, (ast.Compare, ast.BoolOp, ast.UnaryOp, ast.Constant, ast.Name)):
                    if isinstance(st.value, ast.Constant) and not isinstance(st.value.value, bool):
                        env.pop(st.targets[0].id, None)
                    else:
                        env[st.targets[0].id] = S().visit(copy.deepcopy(st.value))
                elif node.kind == "stmt" and isinstance(st, (ast.Assign, ast.AugAssign)):
                    for tgt in st.targets if isinstance(st, ast.Assign) else [st.target]:
                        for x in ast.walk(tgt):
                            if isinstance(x, ast.Name):
                                env.pop(x.id, None)
                elif node.kind == "cond" and st is not None:
                    tst = _inline_seq_locals(fn, S().visit(copy.deepcopy(st)))
                    if not relevant(tst):
                        continue
                    a = O.from_ast(tst, symf)
                    parts.append(a if lab else O.Not(a))
            disj.append(O.And(*parts))
    return O.Or(*disj)


def rule_r2(chk, p, t):
    r = chk.rule(
        "C14.R2",
        "azimuth and elevation masks",
        2,
        "the accept condition of Sensor.isVisible equals the circular-interval specification 'going clockwise from "
        "m0, az is met no later than m1' on all 13 weak orderings of (az, m0, m1), and e0 <= el <= e1 for elevation",
    )
    fn = p.func("resonaate.sensors.sensor_base.Sensor.isVisible")

    def one():
        cfg = cfg_of(fn)
        defs = single_defs(fn.node)
        trues = []
        for n in cfg.nodes:
            if n.kind == "return" and isinstance(n.ast.value, ast.Tuple) and n.ast.value.elts and isinstance(n.ast.value.elts[0], ast.Constant) and n.ast.value.elts[0].value is True:
                trues.append(n.id)
        require(trues, "Sensor.isVisible never returns True", fn.node)

        def symf(e, depth=0):
            if isinstance(e, ast.Name) and e.id in defs and defs[e.id] is not None and depth < 4 and isinstance(defs[e.id], (ast.Subscript, ast.Attribute, ast.Name)):
                return symf(defs[e.id], depth + 1)
            k = angle_kind(e, defs)
            if k == "az":
                return "az"
            if k == "el":
                return "el"
            if isinstance(e, ast.Subscript) and isinstance(e.value, ast.Attribute) and isinstance(e.slice, ast.Constant):
                base = e.value.attr.lstrip("_")
                if base == "az_mask":
                    return f"m{e.slice.value}"
                if base == "el_mask":
                    return f"e{e.slice.value}"
            if isinstance(e, ast.Constant) and e.value in (0, 0.0):
                extras.add("lo")
                return "lo"
            if unparse(e) in ("TWOPI", "const.TWOPI", "2 * PI", "2 * const.PI", "2 * pi"):
                extras.add("hi")
                return "hi"
            raise Undecided(f"unknown operand in mask test: {unparse(e)}", e)

        extras = set()

        def mentions(names):
            def f(a):
                txt = unparse(a)
                return any(nm in txt for nm in names)

            return f

        az_rel = mentions(["az_mask", "azimuth"])
        el_rel = mentions(["el_mask", "elevation"])
        acc_az = _accept_predicate(fn, cfg, trues, symf, lambda a: az_rel(a) and not el_rel(a))
        acc_el = _accept_predicate(fn, cfg, trues, symf, lambda a: el_rel(a) and not az_rel(a))
        r.paths_enumerated += sum(len(cfg.path_conditions(tg)) for tg in trues)
        # azimuth: independent circular-interval specification
        bad = []
        n = 0
        assume = O.And(*([O.Cmp("<=", "lo", s) for s in ("az", "m0", "m1") if "lo" in extras] + [O.Cmp("<", s, "hi") for s in ("az",) if "hi" in extras] + [O.Cmp("<=", s, "hi") for s in ("m0", "m1") if "hi" in extras]))
        for env in O.all_orderings(["az", "m0", "m1"] + sorted(extras), assume):
            n += 1

            def key(x, env=env):
                return (0, env[x]) if env[x] >= env["m0"] else (1, env[x])

            spec = key("az") <= key("m1")
            code = acc_az.ev(env)
            if spec != code:
                bad.append((O.describe(env), code, spec))
        if bad:
            r.violation(
                fn.qualname + ":azimuth-mask",
                "az-mask:" + ";".join(b[0] for b in bad),
                f"the azimuth mask test admits/rejects the wrong azimuths on {len(bad)} of {n} orderings of (az, m0, m1), e.g. {bad[0][0]}: code={bad[0][1]}, circular interval [m0 -> m1]={bad[0][2]}",
                fn.loc(),
                dict(cases=bad, predicate=repr(acc_az)),
            )
        else:
            r.ok(fn.qualname + ":azimuth-mask", f"accept == circular interval on {n} orderings; accept = {acc_az!r}"[:300], fn.loc())
        bad = []
        n = 0
        for env in O.weak_orderings(["el", "e0", "e1"]):
            n += 1
            spec = env["e0"] <= env["el"] <= env["e1"]
            code = acc_el.ev(env)
            if spec != code:
                bad.append((O.describe(env), code, spec))
        if bad:
            r.violation(
                fn.qualname + ":elevation-mask",
                "el-mask:" + ";".join(b[0] for b in bad),
                f"the elevation mask test differs from e0 <= el <= e1 on {len(bad)} of {n} orderings, e.g. {bad[0][0]}: code={bad[0][1]}, spec={bad[0][2]}",
                fn.loc(),
                dict(cases=bad),
            )
        else:
            r.ok(fn.qualname + ":elevation-mask", f"accept == (e0 <= el <= e1) on {n} orderings", fn.loc())

    r.guard(fn.qualname, one)


def _single_return(fn):
    rets = [n for n in walk_no_nested(fn.node) if isinstance(n, ast.Return) and n.value is not None]
    return rets


# cosine of the documented angle and its threshold, per angle-threshold predicate
_ANGLE_PREDICATES = {
    "checkGroundSensorLightingConditions": ("dot(sun_eci_unit_vector, sensor_eci_position) / norm(sensor_eci_position)", "PI / 2 + buffer_angle"),
    "checkSpaceSensorLightingConditions": ("dot(sun_eci_unit_vector, boresight_eci_vector) / norm(boresight_eci_vector)", "cone_angle"),
    "checkGalacticExclusionZone": ("dot(GALACTIC_CENTER_ECI[:3], boresight_eci_vector) / (norm(GALACTIC_CENTER_ECI[:3]) * norm(boresight_eci_vector))", "cone_angle"),
}


def _sort_dots(e):
    """dot / vdot / inner are symmetric: order their two arguments by text."""
    import copy

    class S(ast.NodeTransformer):
        def visit_Call(self, n):
            self.generic_visit(n)
            if call_name(n) in ("dot", "vdot", "inner") and len(n.args) == 2 and not n.keywords:
                n.args = sorted(n.args, key=unparse)
            return n

    return S().visit(copy.deepcopy(e))


def _angle_threshold(fn, cmp_):
    """Read `angle OP threshold` off a comparison written on the angle (`arccos(X) >= c`) or on its cosine
    (`X <= cos(c)`, `P <= cos(c) * Q` with Q a product of norms).  Returns (form, cosine expr, threshold expr, operator on
    the ANGLE) or ("squared",) or None."""
    e = inline_locals(fn, cmp_)
    if not (isinstance(e, ast.Compare) and len(e.ops) == 1):
        return None
    flip = {ast.Gt: ast.Lt, ast.Lt: ast.Gt, ast.GtE: ast.LtE, ast.LtE: ast.GtE}
    l, r_, op = e.left, e.comparators[0], type(e.ops[0])
    if op not in flip:
        return None

    def as_angle(x):
        if isinstance(x, ast.Call) and call_name(x) in ("arccos", "acos", "safeArccos") and len(x.args) == 1:
            a = x.args[0]
            if isinstance(a, ast.Call) and call_name(a) in ("clip", "safeClip") and a.args:
                a = a.args[0]
            return a
        return None

    la, ra = as_angle(l), as_angle(r_)
    if la is not None and ra is None:
        return "angle", la, r_, op
    if ra is not None and la is None:
        return "angle", ra, l, flip[op]

    def cos_split(x):
        """x == cos(T) [* Q...] -> (T, [Q...])"""
        fac = []

        def mul(y):
            if isinstance(y, ast.BinOp) and isinstance(y.op, ast.Mult):
                mul(y.left)
                mul(y.right)
            else:
                fac.append(y)

        mul(x)
        cs = [f for f in fac if isinstance(f, ast.Call) and call_name(f) == "cos" and len(f.args) == 1]
        sq = [f for f in fac if isinstance(f, ast.BinOp) and isinstance(f.op, ast.Pow) and isinstance(f.left, ast.Call) and call_name(f.left) == "cos"]
        if sq:
            return "squared"
        if len(cs) != 1:
            return None
        rest = [f for f in fac if f is not cs[0]]
        if not all(isinstance(f, ast.Call) and call_name(f) in ("norm", "sqrt") for f in rest):
            return None
        return cs[0].args[0], rest

    for side, other, o in ((r_, l, op), (l, r_, flip[op])):
        sp = cos_split(side)
        if sp == "squared":
            return ("squared",)
        if sp is not None:
            thr, rest = sp
            cosine = other
            for q in rest:
                cosine = ast.BinOp(cosine, ast.Div(), q)
            # `cosine o cos(thr)`: the angle compares the other way round
            return "cosine", cosine, thr, flip[o]
    return None


def rule_r3(chk, p, t, rid="C14.R3"):
    r = chk.rule(
        rid,
        "helper polarity and operands",
        6,
        "final comparators of lineOfSight (outside [0,1] -> True; closest approach >= R^2, symmetric expression), Earth "
        "limb (limb > target means obscured), ground lighting (>= pi/2 + buffer), space lighting and galactic "
        "exclusion (>= cone) with their documented operands",
        "exactness of the segment test as values",
    )
    # ---- lineOfSight
    los = p.func(f"{SU}.lineOfSight")

    def los_check():
        a, b = los.params
        rets = _single_return(los)
        require(len(rets) == 2, "lineOfSight: expected an early `return True` and a final comparison", los.node)
        cfg = cfg_of(los)
        early = [x for x in rets if isinstance(x.value, ast.Constant) and x.value.value is True]
        final = [x for x in rets if isinstance(x.value, ast.Compare)]
        require(len(early) == 1 and len(final) == 1, "lineOfSight: unexpected return shapes", los.node)
        # early exit condition: tau < 0 or tau > 1
        node = cfg.node_of(early[0])
        conds = cfg.path_conditions(node.id)

        def symf(e):
            if isinstance(e, ast.Name) and e.id == "tau":
                return "tau"
            if isinstance(e, ast.Constant) and e.value in (0, 0.0):
                return "zero"
            if isinstance(e, ast.Constant) and e.value in (1, 1.0):
                return "one"
            raise Undecided(f"unknown operand {unparse(e)}", e)

        disj = []
        for conj in conds:
            disj.append(O.And(*[(O.from_ast(nn.ast, symf) if lab else O.Not(O.from_ast(nn.ast, symf))) for nn, lab in conj if nn.kind == "cond"]))
        pred = O.Or(*disj)
        bad = []
        for env in O.all_orderings(["tau", "zero", "one"], O.Cmp("<", "zero", "one")):
            spec = env["tau"] < env["zero"] or env["tau"] > env["one"]
            if pred.ev(env) != spec:
                bad.append(O.describe(env))
        if bad:
            r.violation(los.qualname + ":early-exit", "tau-range:" + ";".join(bad), f"lineOfSight's early `return True` is not `tau < 0 or tau > 1` on orderings {bad}", los.loc(early[0]))
        else:
            r.ok(los.qualname + ":early-exit", "visible when the closest approach lies outside the segment (tau < 0 or tau > 1)", los.loc(early[0]))
        # tau and closest approach (Vallado's parametric form) definition by definition
        from rsa import refdefs

        ref_src = f"""
def lineOfSight({a}, {b}):
    r1_dot_r2 = dot({a}, {b})
    r1sq = norm({a}) ** 2
    r2sq = norm({b}) ** 2
    tau = (r1sq - r1_dot_r2) / (r1sq + r2sq - 2 * r1_dot_r2)
    if tau < 0.0 or tau > 1.0:
        return True
    return (1 - tau) * r1sq + r1_dot_r2 * tau >= Earth.radius ** 2
"""
        res = refdefs.compare(los.node, ast.parse(ref_src).body[0], names=("tau", "<return>", "r1_dot_r2", "r1sq", "r2sq"))
        bad_ = [text for _nm, text, _ln in res["mismatch"]]
        if bad_:
            r.violation(los.qualname + ":closest-approach", "formula:" + ";".join(x[:50] for x in bad_), "lineOfSight's closest-approach test deviates from Vallado's parametric form: " + "; ".join(bad_), los.loc(final[0]))
        elif res["unsure"]:
            r.undecided(los.qualname + ":closest-approach", "; ".join(t_ for _n, t_, _l in res["unsure"])[:300], los.loc(final[0]))
        else:
            r.ok(los.qualname + ":closest-approach", "tau = (r1.r1 - r1.r2)/|r1 - r2|^2; (1 - tau) r1.r1 + tau r1.r2 >= R^2", los.loc(final[0]))

    r.guard(los.qualname, los_check)

    # ---- boolean helpers: final comparator and operands
    table = [
        ("checkSpaceSensorEarthLimbObscuration", ast.Gt, "limb_elevation", "target_elevation", "obscured iff the limb elevation exceeds the target elevation"),
        ("checkGroundSensorLightingConditions", ast.GtE, "satellite_sun_angle", "PI / 2 + buffer_angle", "dark iff the site-Sun angle >= pi/2 + buffer"),
        ("checkSpaceSensorLightingConditions", ast.GtE, "boresight_sun_angle", "cone_angle", "ok iff boresight-Sun angle >= cone"),
        ("checkGalacticExclusionZone", ast.GtE, "boresight_belt_angle", "cone_angle", "ok iff boresight-galactic-centre angle >= cone"),
    ]
    for name, op, lhs, rhs, why in table:
        fn = p.func(f"{SU}.{name}")

        def one(fn=fn, op=op, lhs=lhs, rhs=rhs, why=why):
            rets = _single_return(fn)
            require(len(rets) == 1 and isinstance(rets[0].value, ast.Compare) and len(rets[0].value.ops) == 1, f"{fn.name} does not end in a single comparison", fn.node)
            c = rets[0].value
            l, rr_, o = c.left, c.comparators[0], type(c.ops[0])
            flip = {ast.Gt: ast.Lt, ast.Lt: ast.Gt, ast.GtE: ast.LtE, ast.LtE: ast.GtE}
            want_r = canon(ast.parse(rhs, mode="eval").body)
            if unparse(l) == lhs and canon(rr_) == want_r and o is op:
                r.ok(fn.qualname, why, fn.loc(rets[0]))
            elif canon(l) == want_r and unparse(rr_) == lhs and o is flip[op]:
                r.ok(fn.qualname, why + " (sides swapped)", fn.loc(rets[0]))
            else:
                # the same predicate on cosines instead of angles?  (arccos is decreasing: angle >= c <=> cos(angle) <= cos c)
                sem = _angle_threshold(fn, c) if fn.name in _ANGLE_PREDICATES else None
                if sem is not None and sem[0] == "squared":
                    r.violation(fn.qualname, f"comparator:{unparse(c)}", f"{fn.name} returns `{unparse(c)[:100]}`: both sides are squared, so the sign of the cosine is lost - directions more than 90 degrees away from the axis are treated like their mirror images; documented: {why}", fn.loc(rets[0]))
                    return
                if sem is not None:
                    from rsa import ratfun as rf

                    form, cosine, thr, op2 = sem
                    want_cos, want_thr = _ANGLE_PREDICATES[fn.name]
                    try:
                        cos_ok = rf.same_value(_sort_dots(cosine), _sort_dots(rf.parse(want_cos)))
                        thr_ok = rf.same_value(thr, rf.parse(want_thr))
                    except Exception:  # noqa: BLE001 - not a rational expression
                        cos_ok = thr_ok = False
                    if cos_ok and thr_ok and op2 is op:
                        r.ok(fn.qualname, why + f" ({form} form)", fn.loc(rets[0]))
                        return
                    if form == "cosine" and not cos_ok:
                        r.undecided(fn.qualname, f"{fn.name} compares `{unparse(cosine)[:70]}` with the cosine of the threshold: not recognised as the cosine of the documented angle", fn.loc(rets[0]))
                        return
                r.violation(fn.qualname, f"comparator:{unparse(c)}", f"{fn.name} returns `{unparse(c)}`; documented: {why} (`{lhs} {'>=' if op is ast.GtE else '>'} {rhs}`)", fn.loc(rets[0]))

        r.guard(fn.qualname, one)

    # ---- angle definitions inside the helpers (operand identity)
    def angles():
        g = p.func(f"{SU}.checkGroundSensorLightingConditions")
        d = single_defs(g.node).get("satellite_sun_angle")
        want = canon(ast.parse("arccos(dot(sun_eci_unit_vector, sensor_eci_position) / norm(sensor_eci_position))", mode="eval").body)
        if d is not None and canon(d) == want:
            r.ok(g.qualname + ":angle", "angle between the Sun direction and the site position", g.loc())
        else:
            r.violation(g.qualname + ":angle", f"angle:{unparse(d) if d is not None else None}", "ground lighting angle is not arccos(sun_hat . r_site / |r_site|)", g.loc())
        limb = p.func(f"{SU}.checkSpaceSensorEarthLimbObscuration")
        dl = single_defs(limb.node)
        le = dl.get("limb_elevation")
        ok = le is not None and isinstance(le, ast.BinOp) and isinstance(le.op, ast.Sub) and isinstance(le.left, ast.Call) and call_name(le.left) == "getBodyLimbConeAngle" and canon(le.right) == canon(ast.parse("PI / 2", mode="eval").body)
        kws = {k.arg: unparse(k.value) for k in le.left.keywords} if ok else {}
        ok = ok and kws.get("body_limb") == "Earth.radius + Earth.atmosphere" and kws.get("observer_distance") == "norm(sensor_eci_state[:3])"
        te = dl.get("target_elevation")
        ok_t = te is not None and isinstance(te, ast.Call) and call_name(te) == "getElevation" and unparse(te.args[0]) == limb.params[1]
        if ok and ok_t:
            r.ok(limb.qualname + ":angles", "limb elevation = limb cone angle(R + atmosphere, |r_sensor|) - pi/2 vs target elevation", limb.loc())
        else:
            r.violation(limb.qualname + ":angles", f"limb:{unparse(le) if le is not None else None}:{unparse(te) if te is not None else None}", "Earth-limb test does not compare the tangent-cone elevation (limb cone angle - pi/2) with the target's elevation", limb.loc())
        bl = p.func(f"{SU}.getBodyLimbConeAngle")
        rets = _single_return(bl)
        if len(rets) == 1 and canon(rets[0].value) == canon(ast.parse("arcsin(body_limb / observer_distance)", mode="eval").body):
            r.ok(bl.qualname, "arcsin(limb radius / observer distance)", bl.loc())
        else:
            r.violation(bl.qualname, f"cone:{unparse(rets[0].value) if rets else None}", "limb cone angle is not arcsin(body_limb / observer_distance)", bl.loc())

    r.guard("helper-angles", angles)


def rule_r4(chk, p, t, rid="C14.R4"):
    r = chk.rule(
        rid,
        "field-of-view tests",
        3,
        "the conic test is subtendedAngle(target, boresight) <= cone/2 (a function of the angular offset only); the "
        "rectangular test compares |wrapped azimuth offset| and |elevation offset| with half the respective widths; "
        "slew distance uses the same rotation-invariant primitive",
    )
    conic = p.func("resonaate.sensors.field_of_view.ConicFoV.inFieldOfView")

    def c1():
        rets = _single_return(conic)
        require(len(rets) == 1, "ConicFoV.inFieldOfView: single return expected", conic.node)
        e = inline_locals(conic, rets[0].value)
        a, b = conic.params[1], conic.params[2]
        ok = isinstance(e, ast.Compare) and len(e.ops) == 1 and isinstance(e.ops[0], ast.LtE) and isinstance(e.left, ast.Call) and call_name(e.left) == "subtendedAngle"
        if ok:
            args = {unparse(x) for x in e.left.args[:2]}
            safe = any(k.arg == "safe" and getattr(k.value, "value", None) is True for k in e.left.keywords)
            ok = args == {f"{a}[:3]", f"{b}[:3]"} and safe and canon(e.comparators[0]) == canon(ast.parse("self.cone_angle / 2", mode="eval").body)
        if ok:
            r.ok(conic.qualname, "subtendedAngle(target[:3], boresight[:3], safe=True) <= cone_angle / 2", conic.loc())
        else:
            r.violation(conic.qualname, f"conic:{unparse(e)}", f"conic field-of-view test is `{unparse(e)}`, expected subtendedAngle(target, boresight, safe=True) <= cone_angle / 2", conic.loc())

    r.guard(conic.qualname, c1)
    rect = p.func("resonaate.sensors.field_of_view.RectangularFoV.inFieldOfView")

    def c2():
        rets = _single_return(rect)
        require(len(rets) == 1, "RectangularFoV.inFieldOfView: single return expected", rect.node)
        e = rets[0].value
        require(isinstance(e, ast.BoolOp) and isinstance(e.op, ast.And) and len(e.values) == 2, "rectangular test is not a conjunction of two comparisons", rets[0])
        defs = _angle_defs(rect.node)
        bad = []
        seen = set()
        for cmpn in e.values:
            if not (isinstance(cmpn, ast.Compare) and len(cmpn.ops) == 1 and isinstance(cmpn.ops[0], ast.LtE)):
                bad.append(f"`{unparse(cmpn)}` is not `offset <= width / 2`")
                continue
            lhs = inline_locals(rect, cmpn.left)
            width = unparse(cmpn.comparators[0])
            if not (isinstance(lhs, ast.Call) and call_name(lhs) in ("abs", "fabs", "absolute")):
                bad.append(f"`{unparse(cmpn.left)}` is not an absolute offset")
                continue
            # which kind of offset?
            kinds = set()
            for n in ast.walk(lhs):
                k = offset_kind(n, defs) if isinstance(n, (ast.Call, ast.Name)) else None
                if k:
                    kinds.add(k)
            if kinds == {"az"}:
                seen.add("az")
                if width != "self.azimuth_angle / 2":
                    bad.append(f"azimuth offset compared with `{width}`")
            elif kinds == {"el"}:
                seen.add("el")
                if width != "self.elevation_angle / 2":
                    bad.append(f"elevation offset compared with `{width}`")
            else:
                bad.append(f"offset `{unparse(lhs)}` mixes {sorted(kinds)}")
            # pointing vs background of the same kind
            subs = [n for n in ast.walk(lhs) if isinstance(n, ast.BinOp) and isinstance(n.op, ast.Sub)]
            if subs:
                txt = unparse(inline_locals(rect, subs[0]))
                if not (rect.params[1] in txt and rect.params[2] in txt):
                    bad.append(f"offset `{txt}` is not pointing minus target")
        if seen != {"az", "el"}:
            bad.append(f"tests cover {sorted(seen)}, expected azimuth and elevation")
        if bad:
            r.violation(rect.qualname, "rect:" + ";".join(bad), "rectangular field-of-view test: " + "; ".join(bad), rect.loc())
        else:
            r.ok(rect.qualname, "|az offset| <= azimuth_angle/2 and |el offset| <= elevation_angle/2", rect.loc())

    r.guard(rect.qualname, c2)
    db = p.func("resonaate.sensors.sensor_base.Sensor.deltaBoresight")

    def c3():
        rets = _single_return(db)
        e = rets[0].value
        ok = isinstance(e, ast.Call) and call_name(e) == "subtendedAngle" and {unparse(x) for x in e.args[:2]} == {db.params[1], "self.boresight"}
        if ok:
            r.ok(db.qualname, "slew distance = subtendedAngle(target direction, boresight)", db.loc())
        else:
            r.violation(db.qualname, f"delta:{unparse(e)}", f"slew distance is `{unparse(e)}`, expected subtendedAngle(position, self.boresight)", db.loc())

    r.guard(db.qualname, c3)
    sa = p.func("resonaate.physics.maths.subtendedAngle")

    def c4():
        rets = _single_return(sa)
        a, b = sa.params[0], sa.params[1]
        wants = set()
        for fname in ("dot", "vdot", "inner"):
            for x, y in ((a, b), (b, a)):
                wants.add(canon(ast.parse(f"{fname}({x}, {y}) / (norm({a}) * norm({b}))", mode="eval").body))
        found = False
        for n in walk_no_nested(sa.node):
            if isinstance(n, (ast.Assign, ast.Return)) and n.value is not None:
                for x in ast.walk(n.value):
                    if isinstance(x, ast.BinOp) and isinstance(x.op, ast.Div):
                        e2 = inline_locals(sa, x)
                        if canon(e2) in wants:
                            found = True
        if found and rets:
            r.ok(sa.qualname, "arccos of the normalised dot product (rotation invariant, symmetric)", sa.loc())
        else:
            r.violation(sa.qualname, "subtended-angle-shape", "subtendedAngle is no longer a function of the normalised dot product dot(a, b) / (|a| |b|) only", sa.loc())

    r.guard(sa.qualname, c4)


def rule_r7(chk, p, t):
    from rules.shared_memo import memo_rule

    memo_rule(chk, p, t, "C14.R7", modules=("resonaate.physics.sensor_utils", "resonaate.physics.maths", "resonaate.physics.measurements"), floor=30, what="the visibility helper modules (physics.sensor_utils, physics.maths, physics.measurements)")


def rule_r8(chk, p, t):
    """The visibility predicates are only as good as their use: every sensor class applies each of them, with the
    documented sense, before it reports a target visible (shared instances of C02.R2 - R4)."""
    from rules import C02

    C02.rule_isvisible(chk, p, t, rids=("C14.R8", "C14.R9", "C14.R10"))


def run(chk, p, t):
    chk.explanation = (
        "Static decision of structural necessary conditions of C14: (R1) azimuth differences are wrapped before use; "
        "(R2) the azimuth mask accept condition equals the circular-interval specification, and the elevation mask "
        "equals e0 <= el <= e1, on every weak ordering of their symbols (exhaustive finite case split); (R3) polarity "
        "and operands of lineOfSight and the lighting / limb / exclusion helpers; (R4) conic and rectangular "
        "field-of-view tests are functions of the angular offsets with the documented widths. NOT decided: geometric "
        "exactness as values, symmetry of lineOfSight as numbers, the Sun-fraction range."
    )
    chk.assumptions += ["getAzimuth returns an angle in [0, 2pi) (wrapAngle2Pi), getElevation in [-pi/2, pi/2]", "mask limits lie in [0, 2pi] (enforced by the az_mask setter)"]
    for fn in (rule_r1, rule_r2, rule_r3, rule_r4, rule_r5, rule_r6, rule_r7, rule_r8, rule_r11, rule_r12, rule_r13):
        rid = "C14.R" + fn.__name__.split("_r")[-1]
        if not chk.wants(rid):
            continue
        try:
            fn(chk, p, t)
        except (Undecided, AnchorError) as e:
            rr = chk.rule(rid + ".x", fn.__name__, 0, "-")
            (rr.undecided if isinstance(e, Undecided) else rr.error)(fn.__name__, str(e))


def rule_r11(chk, p, t, rid="C14.R11"):
    r = chk.rule(
        rid,
        "the arccos domain guard absorbs the rounding of a normalised dot product",
        1,
        "the conic field-of-view test is subtendedAngle(target, boresight, safe=True) <= half-angle, and the cosine it "
        "takes the arccos of, vdot(a, b) / (norm(a) * norm(b)), passes through seven roundings: for a target on the "
        "boresight it exceeds 1 by up to 2 units in the last place (1.0000000000000004 occurs for about 0.2 % of "
        "directions).  safeArccos must clip such values instead of raising, or a target exactly on the boresight is "
        "rejected for some directions and accepted for the rotated ones (reflexivity, rotation invariance).  The "
        "interval of |arg| > 1 on which safeArccos clips is read off its path conditions (comparisons of |arg| against "
        "constants, `fpe_equals` inlined, numpy's finfo constants folded) and must contain 1 + 2 ulp; the conic test "
        "must call the guarded form",
        "a worst-case rounding bound (the classical 10 u bound is not attained); the value of the angle",
    )
    from fractions import Fraction

    from rsa.cfg import cfg_of
    from rsa.terms import const_value

    MATHS = "resonaate.physics.maths"
    fn = p.func(f"{MATHS}.safeArccos")
    EPS = Fraction(1, 2**52)
    SPECIAL = {"finfo(float).eps": EPS, "finfo(float64).eps": EPS, "finfo(float).resolution": Fraction(1, 10**15), "finfo(float64).resolution": Fraction(1, 10**15), "spacing(1.0)": EPS, "spacing(1)": EPS}

    def fold(e, table):
        txt = unparse(e)
        if txt in SPECIAL:
            return SPECIAL[txt]
        if isinstance(e, ast.BinOp):
            a, b = fold(e.left, table), fold(e.right, table)
            if a is None or b is None:
                return None
            try:
                return {ast.Add: lambda: a + b, ast.Sub: lambda: a - b, ast.Mult: lambda: a * b, ast.Div: lambda: a / b}[type(e.op)]()
            except (KeyError, ZeroDivisionError):
                return None
        return const_value(e, table)

    mod = p.module(MATHS)
    table = {}
    for k, v in mod.assigns.items():
        val = fold(v, table)
        if val is not None:
            table[k] = val

    def one():
        arg = fn.params[0]
        cfg = cfg_of(fn)
        clips = [n for n in cfg.nodes if n.kind == "return" and n.ast.value is not None and any(isinstance(c, ast.Call) and call_name(c) in ("clip", "sign", "copysign", "minimum", "maximum", "min", "max") for c in ast.walk(n.ast.value))]
        require(len(clips) >= 1, "safeArccos has no clipping return", fn.node)
        # locals (walrus included) as expressions of the parameter
        defs = {}
        for n in walk_no_nested(fn.node):
            if isinstance(n, ast.NamedExpr) and isinstance(n.target, ast.Name):
                defs[n.target.id] = n.value
            elif isinstance(n, ast.Assign) and len(n.targets) == 1 and isinstance(n.targets[0], ast.Name):
                defs[n.targets[0].id] = n.value

        import copy

        def norm_(e, depth=0):
            """expression -> ('F', a, b) meaning a * |arg| + b, ('absF1', c) meaning |(|arg| - 1)| * c..., or a constant"""
            if isinstance(e, ast.NamedExpr):
                return norm_(e.value, depth)
            if isinstance(e, ast.Name) and e.id in defs and depth < 6:
                return norm_(defs[e.id], depth + 1)
            c = fold(e, table)
            if c is not None:
                return ("F", Fraction(0), c)
            if isinstance(e, ast.Call) and call_name(e) in ("fabs", "abs", "absolute") and len(e.args) == 1:
                inner = e.args[0]
                if isinstance(inner, ast.Name) and inner.id == arg:
                    return ("F", Fraction(1), Fraction(0))
                v = norm_(inner, depth)
                if v and v[0] == "F" and v[1] != 0:
                    return ("absF", v[1], v[2])  # |a F + b|
                return None
            if isinstance(e, ast.BinOp) and isinstance(e.op, (ast.Add, ast.Sub)):
                a, b = norm_(e.left, depth), norm_(e.right, depth)
                if a and b and a[0] == "F" and b[0] == "F":
                    sgn = 1 if isinstance(e.op, ast.Add) else -1
                    return ("F", a[1] + sgn * b[1], a[2] + sgn * b[2])
                return None
            if isinstance(e, ast.UnaryOp) and isinstance(e.op, ast.USub):
                a = norm_(e.operand, depth)
                return ("F", -a[1], -a[2]) if a and a[0] == "F" else None
            return None

        def bound(test, lab):
            """Constraint on F = |arg| (for F > 1) as (kind, value, strict): kind 'ub' F < v / F <= v, 'lb'."""
            if isinstance(test, ast.Call) and call_name(test) == "fpe_equals" and len(test.args) == 2:
                fe = p.func(f"{MATHS}.fpe_equals")
                rets = [n for n in walk_no_nested(fe.node) if isinstance(n, ast.Return) and n.value is not None]
                require(len(rets) == 1, "fpe_equals: single return expected", fe.node)
                sub = {fe.params[0]: test.args[0], fe.params[1]: test.args[1]}

                class S(ast.NodeTransformer):
                    def visit_Name(self, n):
                        return copy.deepcopy(sub[n.id]) if n.id in sub else n

                return bound(S().visit(copy.deepcopy(rets[0].value)), lab)
            if isinstance(test, ast.UnaryOp) and isinstance(test.op, ast.Not):
                return bound(test.operand, not lab)
            if not (isinstance(test, ast.Compare) and len(test.ops) == 1):
                return None
            L, R = norm_(test.left), norm_(test.comparators[0])
            if L is None or R is None:
                return None
            op = type(test.ops[0])
            if R[0] != "F":
                L, R = R, L
                op = {ast.Lt: ast.Gt, ast.LtE: ast.GtE, ast.Gt: ast.Lt, ast.GtE: ast.LtE}.get(op, op)
            if R[0] != "F" or R[1] != 0:
                if L[0] == "F" and R[0] == "F":
                    L, R = ("F", L[1] - R[1], L[2] - R[2]), ("F", Fraction(0), Fraction(0))
                else:
                    return None
            c = R[2]
            if not lab:
                op = {ast.Lt: ast.GtE, ast.LtE: ast.Gt, ast.Gt: ast.LtE, ast.GtE: ast.Lt}.get(op)
            if op is None:
                return None
            if L[0] == "absF":
                a, b = L[1], L[2]
                # |a F + b| op c with F > 1: for a > 0 and a + b >= 0 the inside is positive
                if a > 0 and a + b >= 0:
                    L = ("F", a, b)
                else:
                    return None
            a, b = L[1], L[2]
            if a == 0:
                return None
            v = (c - b) / a
            if a < 0:
                op = {ast.Lt: ast.Gt, ast.LtE: ast.GtE, ast.Gt: ast.Lt, ast.GtE: ast.LtE}[op]
            return {ast.Lt: ("ub", v, True), ast.LtE: ("ub", v, False), ast.Gt: ("lb", v, True), ast.GtE: ("lb", v, False)}[op]

        need = 1 + 2 * EPS
        verdicts = []
        for node in clips:
            for conds in cfg.path_conditions(node.id):
                ub = None
                unknown = []
                for cn, lab in conds:
                    if cn.kind != "cond":
                        continue
                    b = bound(cn.ast, lab)
                    if b is None:
                        unknown.append(unparse(cn.ast))
                    elif b[0] == "ub" and (ub is None or (b[1], not b[2]) < (ub[0], not ub[1])):
                        ub = (b[1], b[2])
                verdicts.append((ub, unknown, node))
        require(verdicts, "no path reaches the clipping return", fn.node)
        # the clipping region is the union over the paths; one path that covers 1 + 2 ulp suffices
        def covers(ub):
            return ub is None or need < ub[0] or (need == ub[0] and not ub[1])

        good = [v for v in verdicts if not v[1] and covers(v[0])]
        if good:
            ub = good[0][0]
            r.ok(fn.qualname, "clips |arg| in (1, " + (f"1 + {float(ub[0] - 1):.3g}" + (")" if ub[1] else "]") if ub else "inf)") + " - contains 1 + 2 ulp", fn.loc(good[0][2].ast))
        elif any(v[1] for v in verdicts):
            u = next(v[1] for v in verdicts if v[1])
            r.undecided(fn.qualname, f"condition(s) {u} on the way to the clipping return are not comparisons of |{arg}| with constants", fn.loc())
        else:
            ub = max((v[0] for v in verdicts), key=lambda x: x[0])
            r.violation(
                fn.qualname,
                f"arccos-guard:{float(ub[0] - 1):.3g}",
                f"safeArccos clips only |{arg}| {'<' if ub[1] else '<='} 1 + {float(ub[0] - 1):.3g} ({float((ub[0] - 1) / EPS):.2f} ulp): the cosine of the angle between a "
                "direction and itself, vdot(a, a) / (norm(a) * norm(a)), reaches 1 + 2 ulp = 1.0000000000000004, so a target exactly on the "
                "boresight raises for some directions (the conic field of view is not reflexive)",
                fn.loc(),
            )

    r.guard(fn.qualname, one)


def rule_r12(chk, p, t):
    # azimuth masks and the rectangular field of view are functions of getAzimuth / getElevation of the slant-range vector:
    # the angle recoveries must be the exact inverses of the spherical model, quadrant by quadrant (an azimuth taken from the
    # velocity inside a finite cap around the zenith makes membership depend on the rates) - shared instance of C04.R10
    from rules import C04

    C04.rule_r10(chk, p, t, rid="C14.R12", parts=("measurement",))


def rule_r13(chk, p, t):
    from rsa import ratfun as rf

    r = chk.rule(
        "C14.R13",
        "the configured field-of-view shape and size reach the object that decides membership",
        5,
        "membership 'equals the stated test for the sensor's configured shape and size' only if the factory builds that "
        "shape with those sizes: FieldOfView.fromConfig hands each constructor parameter the configuration field OF THE SAME "
        "NAME times DEG2RAD (compared as rational functions after inlining locals; positional and keyword binding resolved), "
        "under the test of the matching shape label; each constructor stores the parameter in the attribute of its name "
        "(`self._x = x` / `self.x = x`) and the read-only property returns it",
        "the membership tests themselves (R4)",
    )
    fov = p.cls("resonaate.sensors.field_of_view.FieldOfView")
    fc = fov.methods.get("fromConfig")
    require(fc is not None, "FieldOfView.fromConfig not found", fov.node)
    cfgp = fc.params[1]
    subs = {c.name: c for c in p.subclasses(fov)}
    built = 0
    for c in [x for x in walk_no_nested(fc.node) if isinstance(x, ast.Call) and call_name(x) in subs]:
        ci = subs[call_name(c)]
        init = ci.methods.get("__init__")
        pars = init.params[1:]
        bind = {pars[i]: a for i, a in enumerate(c.args) if i < len(pars)}
        bind.update({k.arg: k.value for k in c.keywords if k.arg})
        built += 1
        for par in pars:
            cons = f"{fc.qualname}:{ci.name}.{par}"
            if par not in bind:
                r.violation(cons, f"fov-size-missing:{ci.name}.{par}", f"fromConfig builds {ci.name} without `{par}`", fc.loc(c))
                continue
            v = inline_locals(fc, bind[par])
            want = rf.parse(f"{cfgp}.{par} * DEG2RAD")
            try:
                same = rf.same_value(v, want)
            except Exception:  # noqa: BLE001
                same = False
            if same:
                r.ok(cons, f"{cfgp}.{par} * DEG2RAD", fc.loc(c))
                continue
            fields = sorted({n.attr for n in ast.walk(v) if isinstance(n, ast.Attribute) and isinstance(n.value, ast.Name) and n.value.id == cfgp})
            if fields and par not in fields:
                r.violation(cons, f"fov-size-source:{ci.name}.{par}<-{','.join(fields)}", f"{ci.name}.{par} is built from `{unparse(v)[:60]}` - the configured `{fields[0]}`, not `{par}`: every {ci.name} made from a configuration ignores its configured {par.replace('_', ' ')}, so membership is decided for another shape than the configured one whenever the two differ", fc.loc(c))
            elif fields == [par]:
                r.violation(cons, f"fov-size-unit:{ci.name}.{par}:{unparse(v)[:40]}", f"{ci.name}.{par} is `{unparse(v)[:60]}`, expected {cfgp}.{par} * DEG2RAD (degrees to radians, the full span)", fc.loc(c))
            else:
                r.undecided(cons, f"{ci.name}.{par} is `{unparse(v)[:70]}`", fc.loc(c))
        # constructor stores
        for par in pars:
            stores = [n for n in walk_no_nested(init.node) if isinstance(n, (ast.Assign, ast.AnnAssign)) and unparse(n.targets[0] if isinstance(n, ast.Assign) else n.target) in (f"self._{par}", f"self.{par}")]
            cons = f"{ci.qualname}.__init__:{par}"
            if len(stores) == 1 and isinstance(stores[0].value, ast.Name) and stores[0].value.id == par:
                prop = ci.methods.get(par)
                rets = [n for n in walk_no_nested(prop.node) if isinstance(n, ast.Return) and n.value is not None] if prop is not None else []
                if prop is None or (len(rets) == 1 and unparse(rets[0].value) == unparse(stores[0].targets[0] if isinstance(stores[0], ast.Assign) else stores[0].target)):
                    r.ok(cons, "stored and read back under its own name", init.loc(stores[0]))
                else:
                    r.violation(cons, f"fov-property:{ci.name}.{par}", f"the property {ci.name}.{par} returns `{unparse(rets[0].value) if rets else None}`", prop.loc())
            elif len(stores) == 1:
                v = stores[0].value
                other = [q for q in pars if q != par and any(isinstance(n, ast.Name) and n.id == q for n in ast.walk(v))]
                if other and not any(isinstance(n, ast.Name) and n.id == par for n in ast.walk(v)):
                    r.violation(cons, f"fov-store:{ci.name}.{par}<-{other[0]}", f"{ci.name}.__init__ stores `{unparse(v)[:50]}` as {par}", init.loc(stores[0]))
                else:
                    r.undecided(cons, f"{par} stored as `{unparse(v)[:60]}`", init.loc(stores[0]))
            else:
                r.undecided(cons, f"{len(stores)} stores of {par}", init.loc())
    if built < 2:
        r.error("constructors", f"fromConfig builds {built} field-of-view shapes (2 confirmed by hand)")


def rule_r6(chk, p, t, rid="C14.R6"):
    r = chk.rule(
        rid,
        "mask limits keep their configured order",
        4,
        "the azimuth mask is an ordered pair: [a0, a1] with a0 > a1 is the arc through North, [a1, a0] its complement. "
        "From the configuration to the stored limits only order-preserving steps are applied (array(), a scalar "
        "DEG2RAD factor, reshape): no sort / flip / min / max. The same for the elevation mask, whose test is written "
        "for (low, high)",
        "that the configured numbers are sensible",
    )
    sens = p.cls("resonaate.sensors.sensor_base.Sensor")
    init = sens.methods.get("__init__")
    ORDER_KEEPING = {"array", "asarray", "asfarray", "reshape", "copy", "float64", "radians", "deg2rad"}

    def order_kept(e, src_ok, sort_ok=False):
        """True iff e is src (as accepted by src_ok) through order-preserving wrappers / scalar factors."""
        if src_ok(e):
            return True
        if isinstance(e, ast.Call):
            nm = call_name(e)
            if sort_ok and nm in ("sort", "sorted") and e.args and not e.keywords:
                # an elevation mask is an interval (low, high): ascending order is what its test assumes
                return order_kept(e.args[0], src_ok, sort_ok)
            if nm in ORDER_KEEPING:
                if isinstance(e.func, ast.Attribute) and nm in ("reshape", "copy"):
                    return order_kept(e.func.value, src_ok, sort_ok)
                return bool(e.args) and order_kept(e.args[0], src_ok, sort_ok)
            return False
        if isinstance(e, ast.BinOp) and isinstance(e.op, (ast.Mult, ast.Div)):
            l_scalar = unparse(e.left) in ("const.DEG2RAD", "DEG2RAD", "const.RAD2DEG") or isinstance(e.left, ast.Constant)
            r_scalar = unparse(e.right) in ("const.DEG2RAD", "DEG2RAD", "const.RAD2DEG") or isinstance(e.right, ast.Constant)
            if l_scalar and isinstance(e.op, ast.Mult):
                return order_kept(e.right, src_ok, sort_ok)
            if r_scalar:
                return order_kept(e.left, src_ok, sort_ok)
        return False

    for fld in ("az_mask", "el_mask"):
        # constructor
        asg = [n for n in walk_no_nested(init.node) if isinstance(n, ast.Assign) and unparse(n.targets[0]) == f"self.{fld}"]
        cons = f"{init.qualname}:{fld}"
        if len(asg) != 1:
            r.violation(cons, f"mask-ctor:{len(asg)}", f"Sensor.__init__ does not assign self.{fld} exactly once", init.loc())
        else:
            e = inline_locals(init, asg[0].value)
            if order_kept(e, lambda x, fld=fld: isinstance(x, ast.Name) and x.id == fld, sort_ok=(fld == "el_mask")):
                r.ok(cons, f"self.{fld} = {unparse(asg[0].value)} (order kept)", init.loc(asg[0]))
            else:
                r.violation(cons, f"mask-reordered:{unparse(asg[0].value)[:60]}", f"`self.{fld} = {unparse(asg[0].value)[:80]}` does not keep the configured order of the two limits (only array / reshape / a DEG2RAD factor do)" + (": an azimuth mask through North, e.g. [300, 60] deg, becomes its complement [60, 300]" if fld == "az_mask" else ""), init.loc(asg[0]))
        # setter
        st = p.lookup_setter(sens, fld) if hasattr(p, "lookup_setter") else None
        if st is not None:
            prm = st.params[1]
            stores = [n for n in walk_no_nested(st.node) if isinstance(n, ast.Assign) and unparse(n.targets[0]) == f"self._{fld}"]
            cons = f"{st.qualname}:setter"
            if stores and all(order_kept(n.value, lambda x, prm=prm: isinstance(x, ast.Name) and x.id == prm, sort_ok=(fld == "el_mask")) for n in stores):
                r.ok(cons, f"self._{fld} = {unparse(stores[0].value)} (order kept)", st.loc(stores[0]))
            else:
                r.violation(cons, f"mask-setter-reordered:{fld}", f"the {fld} setter does not store the given pair in the given order", st.loc())
    # configuration -> constructor
    n_kw = 0
    for fi in p.all_functions():
        if not fi.module.name.startswith("resonaate.sensors"):
            continue
        for c in ast.walk(fi.node):
            if not isinstance(c, ast.Call):
                continue
            for k in c.keywords:
                if k.arg in ("az_mask", "el_mask"):
                    want = {"az_mask": "azimuth_range", "el_mask": "elevation_range"}[k.arg]
                    if isinstance(k.value, ast.Name) and k.value.id == k.arg:
                        continue
                    n_kw += 1
                    cons = f"{fi.qualname}:{k.arg}"
                    v = inline_locals(fi, k.value)
                    if order_kept(v, lambda x, want=want: isinstance(x, ast.Attribute) and x.attr == want, sort_ok=(k.arg == "el_mask")):
                        r.ok(cons, f"{k.arg} = {unparse(k.value)} (order kept)", fi.loc(k.value))
                    else:
                        r.violation(cons, f"mask-config:{k.arg}:{unparse(k.value)[:50]}", f"`{k.arg}={unparse(k.value)[:70]}`: the sensor's {k.arg} must be the configuration's `{want}` pair in its configured order", fi.loc(k.value))
    if n_kw < 2:
        r.error("mask-config-sites", f"{n_kw} configuration-to-mask keyword sites found (4 confirmed by hand)")


def rule_r5(chk, p, t, rid="C14.R5"):
    r = chk.rule(
        rid,
        "visible-Sun fraction case structure",
        2,
        "the visible fraction is 1 on the sunward side, 0 when the apparent separation is below |b - a| (umbra), the "
        "documented circle-overlap formula when it is below a + b, and 1 otherwise, with the apparent radii a, b and "
        "separation c of Montenbruck 3.85-3.87",
        "the value of the partial-occultation area",
    )
    fn = p.func(f"{SU}.calculateSunVizFraction")

    def one():
        from rsa import refdefs

        tgt, sun = fn.params
        ref_src = f"""
def calculateSunVizFraction({tgt}, {sun}):
    sat_sun_vector = {sun} - {tgt}
    a = arcsin(Sun.radius / norm(sat_sun_vector))
    b = arcsin(Earth.radius / norm({tgt}))
    c = arccos(dot(-{tgt}, sat_sun_vector) / (norm({tgt}) * norm(sat_sun_vector)))
    if norm({sun}) >= norm(sat_sun_vector):
        return 1.0
    if c < abs(b - a):
        return 0.0
    if c < abs(a + b):
        x = (c ** 2 + a ** 2 - b ** 2) / (2 * c)
        y = sqrt(a ** 2 - x ** 2)
        A = a ** 2 * arccos(x / a) + b ** 2 * arccos((c - x) / b) - c * y
        return 1.0 - A / (PI * a ** 2)
    return 1.0
"""
        # the case conditions are part of the cited definition (sunward side, umbra, partial overlap): a case guarded by
        # other operands than the documented ones is a deviation here, not a respelling
        res = refdefs.compare(fn.node, ast.parse(ref_src).body[0], strict_guards=True)
        bad = [text for _nm, text, _ln in res["mismatch"]]
        if bad:
            r.violation(fn.qualname, "sun-fraction:" + ";".join(b_[:60] for b_ in bad), "calculateSunVizFraction: " + "; ".join(bad), fn.loc())
        elif res["unsure"]:
            r.undecided(fn.qualname, "; ".join(t_ for _n, t_, _l in res["unsure"])[:300], fn.loc())
        else:
            r.ok(fn.qualname, "sunward 1 / umbra 0 / partial overlap formula / no occultation 1", fn.loc(), obligations=11)

    r.guard(fn.qualname, one)
    fl = p.func(f"{SU}.calculateIncidentSolarFlux")
    rets = _single_return(fl)
    e = inline_locals(fl, rets[0].value) if rets else None
    a, b, c = fl.params
    if e is not None and canon(e) == canon(ast.parse(f"SOLAR_FLUX * {a} * calculateSunVizFraction({b}, {c})", mode="eval").body):
        r.ok(fl.qualname, "solar flux x cross-section x visible Sun fraction(target, Sun)", fl.loc())
    else:
        r.violation(fl.qualname, f"flux:{unparse(e) if e is not None else None}", "the incident solar flux is not SOLAR_FLUX * area * calculateSunVizFraction(target, Sun)", fl.loc())
