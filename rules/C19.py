"""C19 - imported ephemerides / observations are used faithfully; the importer stays read-only.

Decides: importer override exhaustiveness + who-may-call + no committing session on run paths (R1),
missing-record guard implied by "some registrant unserved" (R2), per-registrant keyed import (R3),
imported observations reach the update - dataflow and attribute resolution on remote handles (R4).
Does NOT decide the contents of arbitrary importer files.
"""

from __future__ import annotations

import ast
import itertools

from rsa import remote
from rsa.cfg import cfg_of
from rsa.model import AnchorError, ClassInfo, FunctionInfo, Undecided, call_name, dotted_name, unparse, walk_no_nested
from rsa.terms import single_defs
from rsa.util import find_calls, require

SESSION_WRITES = {"add", "add_all", "delete", "bulk_save_objects", "bulk_insert_mappings", "bulk_update_mappings", "merge", "execute", "commit", "flush"}
RUN_PATH_PREFIXES = (
    "resonaate.scenario.scenario",
    "resonaate.dynamics.",
    "resonaate.tasking.",
    "resonaate.agents.",
    "resonaate.parallel.",
    "resonaate.estimation.",
    "resonaate.sensors.",
)


def _writes_session(fn):
    for n in walk_no_nested(fn.node):
        if isinstance(n, ast.Call) and call_name(n) == "_getSessionScope":
            return True
        if isinstance(n, ast.Call) and isinstance(n.func, ast.Attribute) and n.func.attr in SESSION_WRITES and "session" in unparse(n.func.value).lower():
            return True
        if isinstance(n, ast.Call) and isinstance(n.func, ast.Attribute) and n.func.attr == "drop":
            return True
    return False


def _only_raises(fn):
    body = [s for s in fn.node.body if not (isinstance(s, ast.Expr) and isinstance(s.value, ast.Constant))]
    return len(body) >= 1 and all(isinstance(s, ast.Raise) for s in body)


def rule_r1(chk, p, t):
    r = chk.rule(
        "C19.R1",
        "importer is read-only",
        6,
        "ImporterDatabase overrides every public mutating method of DataInterface with a body that only raises; its "
        "private writers are not called from any run-path module; run paths touch the importer only through getData, "
        "which never commits",
    )
    di = p.cls("resonaate.data.data_interface.DataInterface")
    imp = p.cls("resonaate.data.importer_database.ImporterDatabase")
    # closure: a method mutates if it (or a self-method it calls) writes a session
    def mutates(m, cls, seen=None):
        seen = seen or set()
        if m.qualname in seen:
            return False
        seen.add(m.qualname)
        if _writes_session(m):
            return True
        for c in walk_no_nested(m.node):
            if isinstance(c, ast.Call) and isinstance(c.func, ast.Attribute) and isinstance(c.func.value, ast.Name) and c.func.value.id == "self":
                mm = p.lookup_method(cls, c.func.attr)
                if mm is not None and mm.cls is not None and mm.name != "_getSessionScope" and mutates(mm, cls, seen):
                    return True
        return False

    public_mut = [m for name, m in di.methods.items() if not name.startswith("_") and m.kind == "method" and mutates(m, di)]
    names = sorted(m.name for m in public_mut)
    if len(public_mut) < 3:
        r.error(di.qualname, f"only {names} recognised as public mutating methods (insertData, deleteData, bulkSave, resetData confirmed by hand)")
    for m in public_mut:
        cons = f"{imp.qualname}.{m.name}"
        if m.name == "resetData":
            # used by the constructor with an empty tuple (create_all(checkfirst=True)); must not be called on run paths
            continue
        ov = imp.methods.get(m.name)
        if ov is None:
            r.violation(cons, "override-missing", f"ImporterDatabase does not override the mutating method DataInterface.{m.name}: a run can modify the importer database through it", imp.loc())
        elif not _only_raises(ov):
            r.violation(cons, "override-does-not-raise", f"ImporterDatabase.{m.name} no longer only raises: the importer database can be modified", ov.loc())
        else:
            r.ok(cons, "override only raises", ov.loc())
    # private writers of the importer
    writers = [m for name, m in imp.methods.items() if m.kind == "method" and name not in ("insertData", "deleteData", "bulkSave", "__init__") and mutates(m, imp)]
    writer_names = {m.name for m in writers} | {"resetData"}
    n_sites = 0
    for fi in p.all_functions(include_nested=True):
        if not fi.module.name.startswith(RUN_PATH_PREFIXES) and fi.module.name != "resonaate.scenario.scenario":
            continue
        for c in walk_no_nested(fi.node):
            if isinstance(c, ast.Call) and isinstance(c.func, ast.Attribute) and c.func.attr in writer_names:
                recv = unparse(c.func.value)
                # only calls whose receiver can be an importer database matter
                rt = t.expr_type(c.func.value, fi)
                is_imp = (rt is not None and rt.cls is not None and p.is_subclass(rt.cls, imp)) or "importer" in recv.lower()
                if is_imp:
                    n_sites += 1
                    r.violation(f"{fi.qualname}:{c.func.attr}", f"run-path-writer:{c.func.attr}", f"run-path code calls the importer's writer `{unparse(c)[:80]}`", fi.loc(c))
    r.ok("run-paths:private-writers", f"writers {sorted(writer_names)} are not called on an importer database from run-path modules", "")
    # every use of an importer database attribute on run paths is getData (or a truthiness test)
    uses = 0
    for fi in p.all_functions(include_nested=True):
        if not fi.module.name.startswith(RUN_PATH_PREFIXES):
            continue
        for n in walk_no_nested(fi.node):
            if isinstance(n, ast.Attribute) and isinstance(n.value, ast.Attribute) and n.value.attr in ("_importer_db", "importer_db") and isinstance(n.ctx, ast.Load):
                uses += 1
                if n.attr != "getData":
                    r.violation(f"{fi.qualname}:{n.attr}", f"importer-method:{n.attr}", f"run-path code uses `{unparse(n)}` on the importer database; only getData is read-only", fi.loc(n))
    if uses >= 2:
        r.ok("run-paths:getData-only", f"{uses} uses of the importer database on run paths, all getData", "")
    else:
        r.error("run-paths:getData-only", f"only {uses} importer uses found on run paths (2 confirmed by hand)")
    gd = di.methods.get("getData")

    def getdata():
        require(gd is not None, "DataInterface.getData not found", di.node)
        bad = []
        for c in walk_no_nested(gd.node):
            if isinstance(c, ast.Call) and isinstance(c.func, ast.Attribute) and c.func.attr in SESSION_WRITES:
                bad.append(unparse(c))
            if isinstance(c, ast.Call) and call_name(c) == "_getSessionScope":
                bad.append("opens the committing session scope")
        if imp.methods.get("getData") is not None:
            bad.append("ImporterDatabase overrides getData")
        if bad:
            r.violation(gd.qualname, "getData-writes:" + ";".join(bad), f"getData is no longer read-only: {bad}", gd.loc())
        else:
            r.ok(gd.qualname, "plain session, no commit / add / delete", gd.loc())

    r.guard("getData", getdata)


def rule_r2(chk, p, t):
    r = chk.rule(
        "C19.R2",
        "missing-record guard",
        2,
        "the condition under which MissingEphemerisError is raised is implied by 'some registered id has no retrieved "
        "record' for every value of the other atoms (a count comparison is not)",
    )
    fn = p.func("EphemerisImporter.importEphemerides")

    def one():
        cfg = cfg_of(fn)
        raises = [n for n in cfg.nodes if n.kind == "stmt" and isinstance(n.ast, ast.Raise) and "MissingEphemerisError" in unparse(n.ast)]
        require(len(raises) == 1, "importEphemerides does not raise MissingEphemerisError exactly once", fn.node)
        defs = single_defs(fn.node)

        def set_source(e, depth=5):
            """'registered' / 'retrieved' for set expressions derived from the registrants / the query result."""
            if depth <= 0:
                return None
            if isinstance(e, ast.Name) and e.id in defs:
                return set_source(defs[e.id], depth - 1)
            txt = unparse(e)
            if "_registrants" in txt and "current_ephemerides" not in txt:
                return "registered"
            if isinstance(e, (ast.SetComp, ast.ListComp, ast.GeneratorExp)) or (isinstance(e, ast.Call) and call_name(e) in ("set", "frozenset", "list")):
                if "agent_id" in txt:
                    # iterating the query result
                    for n in ast.walk(e):
                        if isinstance(n, ast.comprehension):
                            src = n.iter
                            s = defs.get(src.id) if isinstance(src, ast.Name) else None
                            if s is not None and isinstance(s, ast.Call) and call_name(s) == "getData":
                                return "retrieved"
            return None

        def is_M(test, depth=4):
            """Is the atom the truthiness of (registered - retrieved) / a failed subset test?"""
            if depth <= 0:
                return None
            if isinstance(test, ast.NamedExpr):
                return is_M(test.value, depth - 1)
            if isinstance(test, ast.Name) and test.id in defs:
                return is_M(defs[test.id], depth - 1)
            if isinstance(test, ast.BinOp) and isinstance(test.op, ast.Sub):
                l, rr = set_source(test.left), set_source(test.right)
                if l == "registered" and rr == "retrieved":
                    return True
                if l == "retrieved" and rr == "registered":
                    return "reversed"
            if isinstance(test, ast.Call) and isinstance(test.func, ast.Attribute) and test.func.attr == "difference" and test.args:
                l, rr = set_source(test.func.value), set_source(test.args[0])
                if l == "registered" and rr == "retrieved":
                    return True
                if l == "retrieved" and rr == "registered":
                    return "reversed"
            if isinstance(test, ast.Call) and call_name(test) == "len" and test.args:
                return is_M(test.args[0], depth - 1)
            if isinstance(test, ast.Compare) and len(test.ops) == 1 and isinstance(test.ops[0], (ast.Gt, ast.NotEq)) and isinstance(test.comparators[0], ast.Constant) and test.comparators[0].value == 0:
                return is_M(test.left, depth - 1)
            return None

        conjs = cfg.path_conditions(raises[0].id)
        atoms = {}
        for conj in conjs:
            for node, lab in conj:
                if node.kind == "cond":
                    atoms[node.id] = node
        m_atoms = {}
        for i, n in atoms.items():
            v = is_M(n.ast)
            if v == "reversed":
                r.violation(fn.qualname, "guard-direction-reversed", f"the guard tests `{unparse(n.ast)}`: records without a registrant, not registrants without a record", fn.loc(n.ast))
                return
            if v:
                m_atoms[i] = n
        others = [i for i in atoms if i not in m_atoms]
        if not conjs:
            r.violation(fn.qualname, "raise-unreachable", "MissingEphemerisError can never be raised", fn.loc())
            return
        # C(M=True, others=*) must hold for every assignment of the others
        bad = None
        for vals in itertools.product([False, True], repeat=len(others)):
            env = dict(zip(others, vals))
            env.update({i: True for i in m_atoms})
            sat = any(all(env[node.id] == lab for node, lab in conj if node.kind == "cond") for conj in conjs)
            if not sat:
                bad = {unparse(atoms[i].ast): v for i, v in zip(others, vals)}
                break
        if not m_atoms:
            r.violation(
                fn.qualname,
                "guard-not-implied-by-missing-id",
                f"MissingEphemerisError is raised under `{' / '.join(sorted(unparse(a.ast) for a in atoms.values()))}`, which does not test whether a registered id lacks a record: an importer database with extra agents hides a missing record (the agent silently keeps a stale state)",
                fn.loc(raises[0].ast),
            )
        elif bad is not None:
            r.violation(fn.qualname, f"guard-weakened:{sorted(bad.items())}", f"a registered id without a record does not always raise: with {bad} the guard is skipped", fn.loc(raises[0].ast))
        else:
            r.ok(fn.qualname, f"raise is implied by the truthiness of registered - retrieved ({[unparse(a.ast) for a in m_atoms.values()]})", fn.loc(raises[0].ast))
        # the raise precedes the import loop (no partially imported step continues)
        imps = find_calls(fn.node, "importState")
        if imps and all(c.lineno > raises[0].ast.lineno for c in imps):
            r.ok(fn.qualname + ":order", "completeness is checked before any state is imported", fn.loc())
        else:
            r.violation(fn.qualname + ":order", "check-after-import", "states are imported before the completeness check", fn.loc())

    r.guard(fn.qualname, one)

    def query():
        defs = single_defs(fn.node)
        q = defs.get("query")
        require(q is not None, "no query local", fn.node)
        txt = unparse(q)
        ok = "TruthEphemeris" in txt and ".join(Epoch)" in txt and "Epoch.timestampISO == datetime_epoch.isoformat(timespec='microseconds')" in txt
        gd = [c for c in find_calls(fn.node, "getData")]
        ok = ok and len(gd) == 1 and unparse(gd[0].args[0]) == "query" and unparse(gd[0].func.value) == "self._importer_db"
        if ok:
            r.ok(fn.qualname + ":query", "truth ephemerides of exactly the step's timestamp, from the importer database", fn.loc())
        else:
            r.violation(fn.qualname + ":query", f"query:{txt[:100]}", "the per-epoch query is not `TruthEphemeris join Epoch where timestampISO == the step's timestamp` on the importer database", fn.loc())

    r.guard(fn.qualname + ":query", query)


def rule_r3(chk, p, t):
    r = chk.rule(
        "C19.R3",
        "keyed import",
        4,
        "importState is called on the registrant of the record's own agent id and that key is removed; both agent "
        "classes' importState take state and time from the record; registration is keyed by the agent's id and "
        "happens every step for every imported agent",
    )
    fn = p.func("EphemerisImporter.importEphemerides")

    def one():
        imps = find_calls(fn.node, "importState")
        require(len(imps) == 1, "importState is not called exactly once", fn.node)
        c = imps[0]
        recv = c.func.value
        arg = c.args[0] if c.args else None
        ok = isinstance(recv, ast.Subscript) and unparse(recv.value) == "self._registrants" and isinstance(recv.slice, ast.Attribute) and recv.slice.attr == "agent_id" and isinstance(arg, ast.Name) and isinstance(recv.slice.value, ast.Name) and recv.slice.value.id == arg.id
        if ok:
            r.ok(fn.qualname + ":importState", "registrants[record.agent_id].importState(record)", fn.loc(c))
        else:
            r.violation(fn.qualname + ":importState", f"keyed-import:{unparse(c)}", f"`{unparse(c)}`: a record must be imported into the registrant of its own agent_id", fn.loc(c))
        dels = [n for n in walk_no_nested(fn.node) if isinstance(n, ast.Delete) and "_registrants" in unparse(n)]
        pops = [x for x in find_calls(fn.node, "pop") if "_registrants" in unparse(x)]
        if (len(dels) == 1 and unparse(dels[0].targets[0]) == unparse(recv)) or (len(pops) == 1):
            r.ok(fn.qualname + ":unregister", "the served registrant is removed", fn.loc())
        else:
            r.violation(fn.qualname + ":unregister", "registrant-not-removed", "a served registrant is not removed: the next step's completeness check counts stale registrations", fn.loc())

    r.guard(fn.qualname, one)
    for q in ("TargetAgent.importState", "SensingAgent.importState"):
        m = p.func(q)

        def two(m=m):
            rec = m.params[1]
            asg = {}
            for n in walk_no_nested(m.node):
                if isinstance(n, ast.Assign) and isinstance(n.targets[0], ast.Attribute):
                    asg[n.targets[0].attr] = unparse(n.value)
            st = asg.get("eci_state") or asg.get("_truth_state")
            tm = asg.get("_time") or asg.get("time")
            ok_s = st is not None and f"{rec}.eci" in st
            ok_t = tm is not None and f"JulianDate({rec}.julian_date).convertToScenarioTime(self.julian_date_start)" in tm
            if ok_s and ok_t:
                r.ok(m.qualname, "state <- record.eci, time <- record.julian_date relative to the start", m.loc())
            else:
                r.violation(m.qualname, f"importState:{st}:{tm}", f"importState sets state `{st}` and time `{tm}`; expected the record's eci and its Julian date converted with the agent's start date", m.loc())

        r.guard(m.qualname, two)
    reg = p.func("EphemerisImporter.registerAgent")

    def three():
        asg = [n for n in walk_no_nested(reg.node) if isinstance(n, ast.Assign) and isinstance(n.targets[0], ast.Subscript) and "_registrants" in unparse(n.targets[0])]
        require(len(asg) == 1, "registerAgent does not store the agent once", reg.node)
        a = asg[0]
        prm = reg.params[1]
        if unparse(a.targets[0].slice) == f"{prm}.simulation_id" and unparse(a.value) == prm:
            r.ok(reg.qualname, "registrants[agent.simulation_id] = agent", reg.loc(a))
        else:
            r.violation(reg.qualname, f"register:{unparse(a)}", f"`{unparse(a)}`: registration must be keyed by the agent's own id", reg.loc(a))
        # stepForward registers every non-realtime agent and imports at the step's epoch
        step = p.func("Scenario.stepForward")
        regs = find_calls(step.node, "registerAgent")
        imps = find_calls(step.node, "importEphemerides")
        ok = len(regs) == 2 and len(imps) == 1 and unparse(imps[0].args[0]) == "self.clock.datetime_epoch" and all(c.lineno < imps[0].lineno for c in regs)
        tic = find_calls(step.node, "ticToc")
        ok = ok and tic and tic[0].lineno < imps[0].lineno
        from rsa.util import parents_map

        pm = parents_map(step.node)
        for c in regs + [x for x in find_calls(step.node, "PropagateRegistration")]:
            loops = []
            cur = c
            while cur in pm:
                cur = pm[cur]
                if isinstance(cur, ast.For):
                    loops.append(cur)
            if not loops or not isinstance(loops[0].target, ast.Name):
                continue
            lp = loops[0]
            var = lp.target.id
            cons = f"{step.qualname}:dispatch:{unparse(lp.iter)}:{call_name(c)}"
            arg = unparse(c.args[0]) if c.args else None
            # the tests that decide whether this call is reached within one iteration (nested ifs, guard clauses with
            # `continue` alike): condition atoms of the loop body that dominate the call
            cfg_s = cfg_of(step)
            nd_s = cfg_s.node_of(c)
            tests = []
            if nd_s is not None:
                for cid, _lab in cfg_s.control_conditions(nd_s.id):
                    cn = cfg_s.nodes[cid]
                    if cn.kind == "cond" and any(x is cn.ast for x in ast.walk(lp)):
                        tests.append(cn.ast)
            foreign = sorted({n.id for tst in tests for n in ast.walk(tst) if isinstance(n, ast.Name) and n.id != var and n.id not in ("self",) and any(isinstance(o, ast.For) and o is not lp and isinstance(o.target, ast.Name) and o.target.id == n.id for o in ast.walk(step.node))})
            rt = [tst for tst in tests if any(isinstance(n, ast.Attribute) and n.attr == "realtime" for n in ast.walk(tst))]
            own = rt and all(isinstance(n.value, ast.Name) and n.value.id == var for tst in rt for n in ast.walk(tst) if isinstance(n, ast.Attribute) and n.attr == "realtime")
            if arg != var or foreign or not own:
                r.violation(cons, f"dispatch:{arg}:{foreign}:{bool(own)}", f"in the loop over `{unparse(lp.iter)}` the agent `{var}` is dispatched as `{unparse(c)[:60]}` under a test of {foreign or 'another object'}: whether an agent is propagated or imported must depend on that agent's own `realtime` flag (a leaked variable of an earlier loop decides for all of them)", step.loc(c))
            else:
                r.ok(cons, f"`{var}` dispatched on its own realtime flag", step.loc(c))
        if ok:
            r.ok(step.qualname + ":import", "targets and sensors registered, then imported at the new epoch", step.loc(imps[0]))
        else:
            r.violation(step.qualname + ":import", "import-epoch", "stepForward does not register both agent kinds and import at the post-tick epoch `self.clock.datetime_epoch`", step.loc())

    r.guard(reg.qualname, three)




def _built_list(fn, listname, par):
    """`listname` built by appending elements of `par` inside one loop over it: whole when the append is unconditional,
    a subset when it is guarded; None when the shape is another one."""
    cfg = cfg_of(fn)
    apps = [c for c in find_calls(fn.node, "append") if unparse(c.func.value) == listname]
    loops = [l for l in walk_no_nested(fn.node) if isinstance(l, ast.For) and unparse(l.iter) == par and isinstance(l.target, ast.Name)]
    if not (apps and len(loops) == 1 and all(len(c.args) == 1 and isinstance(c.args[0], ast.Name) and c.args[0].id == loops[0].target.id for c in apps)):
        return None
    tst = None
    for c in apps:
        node = cfg.node_of(c)
        conds = [cid for cid, lab in cfg.control_conditions(node.id) if cfg.nodes[cid].kind == "cond"]
        if conds:
            tst = unparse(cfg.nodes[conds[0]].ast)
    if tst is not None:
        return "subset", f"{fn.name} keeps an element only when `{tst[:60]}`"
    return "whole", "element-wise copy"


def _selection(p, fi, e, name, depth=0):
    """Classify expression `e` (locals of `fi` inlined) as the whole sequence `name`, a subset of it, or unknown."""
    if isinstance(e, ast.Name) and e.id == name:
        return "whole", "the list itself"
    if isinstance(e, ast.Name):
        b = _built_list(fi, e.id, name)
        if b is not None:
            return b
    if isinstance(e, ast.Call) and call_name(e) in ("list", "tuple", "sorted") and e.args and not isinstance(e.args[0], ast.GeneratorExp):
        return _selection(p, fi, e.args[0], name, depth)
    if isinstance(e, ast.Call) and call_name(e) == "filter":
        return "subset", "filter(...)"
    if isinstance(e, (ast.ListComp, ast.GeneratorExp)) or (isinstance(e, ast.Call) and call_name(e) in ("list", "tuple") and e.args and isinstance(e.args[0], ast.GeneratorExp)):
        comp = e if isinstance(e, (ast.ListComp, ast.GeneratorExp)) else e.args[0]
        g = comp.generators
        if len(g) == 1 and unparse(g[0].iter) == name:
            if g[0].ifs:
                return "subset", f"a comprehension that keeps only elements with `{unparse(g[0].ifs[0])[:50]}`"
            if isinstance(comp.elt, ast.Name) and isinstance(g[0].target, ast.Name) and comp.elt.id == g[0].target.id:
                return "whole", "element-wise copy"
        return "unknown", "comprehension"
    if isinstance(e, ast.Call) and depth < 2:
        idx = [i for i, a in enumerate(e.args) if isinstance(a, ast.Name) and a.id == name]
        cn = call_name(e)
        cands = [f for f in fi.module.functions.values() if f.name == cn] if isinstance(e.func, ast.Name) else []
        if len(idx) == 1 and len(cands) == 1:
            callee = cands[0]
            par = callee.params[idx[0]]
            from rsa.terms import inline_locals

            rets = [n for n in walk_no_nested(callee.node) if isinstance(n, ast.Return) and n.value is not None]
            kinds = []
            for rt in rets:
                v = rt.value
                if isinstance(v, ast.Name) and v.id != par:
                    b = _built_list(callee, v.id, par)
                    if b is not None:
                        kinds.append(b)
                        continue
                    kinds.append(_selection(p, callee, inline_locals(callee, v), par, depth + 1))
                else:
                    kinds.append(_selection(p, callee, inline_locals(callee, v), par, depth + 1))
            if kinds and all(k[0] == "whole" for k in kinds):
                return "whole", f"{callee.name} returns its argument"
            sub = [k for k in kinds if k[0] == "subset"]
            if sub:
                return sub[0]
        return "unknown", f"call of {cn}"
    return "unknown", "unrecognised expression"


def update_hop(r, p):
    """From the engine's per-target observation list to the filter: the update registration keeps the list it is
    given, hands exactly that list to the job, and the job passes it to the filter's update - no step selects a
    subset (a filter on the observation's own epoch float drops imported observations whose stored Julian date
    differs in the last bit from the run's own)."""
    from rsa.terms import inline_locals

    UPD = "resonaate.parallel.estimate_update"
    reg = p.cls(f"{UPD}.EstUpdateRegistration")
    sub = p.cls(f"{UPD}.EstUpdateSubmission")
    job = p.func(f"{UPD}.asyncUpdateEstimate")
    init, gen = reg.methods.get("__init__"), reg.methods.get("generateSubmission")
    require(init is not None and gen is not None, "EstUpdateRegistration.__init__ / generateSubmission not found", reg.node)
    obs_param = next((q for q in init.params if "obs" in q), None)
    bad = []
    stores = []
    for n in walk_no_nested(init.node):
        if isinstance(n, ast.Assign) and len(n.targets) == 1 and isinstance(n.targets[0], ast.Attribute) and unparse(n.targets[0].value) == "self":
            built = isinstance(n.value, ast.Name) and _built_list(init, n.value.id, obs_param) is not None
            v = n.value if built else inline_locals(init, n.value)
            if built or any(isinstance(x, ast.Name) and x.id == obs_param for x in ast.walk(v)):
                stores.append((n, v))
    require(len(stores) == 1, "the registration does not store its observations argument in one attribute", init.node)
    attr = stores[0][0].targets[0].attr
    kind, why = _selection(p, init, stores[0][1], obs_param)
    if kind == "subset":
        bad.append(f"the registration stores `{unparse(stores[0][1])[:70]}`: {why} - a subset of the observations the engine routed to this target; the others are written to the database but never reach the filter, and which ones survive depends on the order the list was filled in (the completion order of the task-execution jobs)")
    elif kind != "whole":
        raise Undecided(f"observations stored as `{unparse(stores[0][1])[:80]}` ({why})", stores[0][0])
    fields = list(sub.class_annots)
    obs_field = next((f for f in fields if "obs" in f), None)
    require(obs_field is not None, "EstUpdateSubmission has no observation field", sub.node)
    ctor = [c for c in walk_no_nested(gen.node) if isinstance(c, ast.Call) and call_name(c) == sub.name]
    require(len(ctor) == 1, "generateSubmission does not build one EstUpdateSubmission", gen.node)
    c = ctor[0]
    val = next((k.value for k in c.keywords if k.arg == obs_field), None)
    if val is None and fields.index(obs_field) < len(c.args):
        val = c.args[fields.index(obs_field)]
    require(val is not None, f"{sub.name}.{obs_field} is not passed", c)
    e = inline_locals(gen, val)
    if unparse(e) == f"self.{attr}":
        pass
    elif any(isinstance(x, ast.comprehension) and x.ifs for x in ast.walk(e)) or any(isinstance(x, ast.Call) and call_name(x) == "filter" for x in ast.walk(e)):
        bad.append(f"generateSubmission submits `{unparse(e)[:90]}`: a subset of the observations the engine routed to this target - the others are written to the database but never reach the filter")
    else:
        raise Undecided(f"observations submitted as `{unparse(e)[:80]}`", c)
    ups = [x for x in walk_no_nested(job.node) if isinstance(x, ast.Call) and isinstance(x.func, ast.Attribute) and x.func.attr in ("update", "_update")]
    require(len(ups) >= 1, "the update job does not call the filter's update", job.node)
    for u in ups:
        a0 = inline_locals(job, u.args[0]) if u.args else None
        if a0 is None or unparse(a0) != f"{job.params[0]}.{obs_field}":
            bad.append(f"the update job passes `{unparse(a0) if a0 is not None else None}` to {u.func.attr}(), not the submitted observations")
    if bad:
        r.violation(reg.qualname, "update-hop:" + ";".join(b[:50] for b in bad), "; ".join(bad), gen.loc(c))
    else:
        r.ok(reg.qualname, f"self.{attr} -> {sub.name}.{obs_field} -> filter update, whole list at every hop", gen.loc(c), obligations=2 + len(ups))



def rule_r4(chk, p, t):
    r = chk.rule(
        "C19.R4",
        "imported observation path",
        5,
        "imported observations are queried by the step's timestamp, reach saveObservations (hence the target's "
        "update), and every attribute read on a remote-handle value resolves in the class the handle was put with",
    )
    eng = p.cls("resonaate.tasking.engine.centralized_engine.CentralizedTaskingEngine")
    lio = eng.methods.get("loadImportedObservations")
    assess = eng.methods.get("assess")

    def one():
        require(lio is not None and assess is not None, "engine methods not found", eng.node)
        defs = single_defs(lio.node)
        q = defs.get("query")
        txt = unparse(q) if q is not None else ""
        prm = lio.params[1]
        if "Query(Observation)" in txt and ".join(Epoch)" in txt and f"Epoch.timestampISO == {prm}.isoformat(timespec='microseconds')" in txt:
            r.ok(lio.qualname + ":query", "observations of exactly the step's timestamp", lio.loc())
        else:
            r.violation(lio.qualname + ":query", f"query:{txt[:100]}", "imported observations are not selected by `Epoch.timestampISO == <step timestamp>`", lio.loc())
        # result reaches saveObservations in assess, with the step's epoch
        calls = [c for c in find_calls(assess.node, "saveObservations") if c.args and isinstance(c.args[0], ast.Call) and call_name(c.args[0]) == "loadImportedObservations"]
        if len(calls) == 1 and unparse(calls[0].args[0].args[0]) == assess.params[2]:
            r.ok(assess.qualname + ":imported", "saveObservations(loadImportedObservations(datetime_epoch))", assess.loc(calls[0]))
        else:
            r.violation(assess.qualname + ":imported", "imported-not-saved", "assess does not pass loadImportedObservations(<the step's epoch>) to saveObservations", assess.loc())
        # every imported observation is returned (with metadata)
        rets = [n for n in walk_no_nested(lio.node) if isinstance(n, ast.Return)]
        require(len(rets) == 1, "single return expected", lio.node)
        rv = rets[0].value
        ok = isinstance(rv, ast.ListComp) and isinstance(rv.elt, ast.Call) and call_name(rv.elt) == "_attachObsMetadata" and not rv.generators[0].ifs and unparse(rv.generators[0].iter) == "imported_observations"
        if ok:
            r.ok(lio.qualname + ":return", "every kept observation gets its measurement metadata and is returned", lio.loc(rets[0]))
        else:
            r.violation(lio.qualname + ":return", f"return:{unparse(rv)[:80]}", "not every imported observation is returned with metadata", lio.loc(rets[0]))

    r.guard("imported-observations", one)

    def dedup():
        require(lio is not None, "loadImportedObservations not found", eng.node)
        cfg = cfg_of(lio)
        apps = [c for c in find_calls(lio.node, "append") if unparse(c.func.value) == "imported_observations"]
        require(len(apps) >= 1, "no append to imported_observations", lio.node)
        defs = single_defs(lio.node)

        def key_attrs(e, depth=0):
            out = set()
            if isinstance(e, ast.Name) and e.id in defs and depth < 4:
                return key_attrs(defs[e.id], depth + 1)
            for n in ast.walk(e):
                if isinstance(n, ast.Attribute) and isinstance(n.ctx, ast.Load):
                    out.add(n.attr)
                if isinstance(n, ast.Name) and n is not e and n.id in defs and depth < 4:
                    out |= key_attrs(defs[n.id], depth + 1)
                if isinstance(n, ast.Call) and depth < 4:
                    for tg in t.callees(n, lio):
                        if isinstance(tg, FunctionInfo):
                            for rt in walk_no_nested(tg.node):
                                if isinstance(rt, ast.Return) and rt.value is not None:
                                    out |= {x.attr for x in ast.walk(rt.value) if isinstance(x, ast.Attribute)}
                                    sub = single_defs(tg.node)
                                    for x in ast.walk(rt.value):
                                        if isinstance(x, ast.Name) and x.id in sub:
                                            out |= {y.attr for y in ast.walk(sub[x.id]) if isinstance(y, ast.Attribute)}
            return out

        for a in apps:
            node = cfg.node_of(a)
            conds = [(cfg.nodes[cid], lab) for cid, lab in cfg.control_conditions(node.id) if cfg.nodes[cid].kind == "cond"]
            cons = lio.qualname + ":dedup"
            if not conds:
                r.ok(cons, "every imported observation is kept", lio.loc(a))
                continue
            bad = []
            for cn, lab in conds:
                tst = cn.ast
                if isinstance(tst, ast.Compare) and len(tst.ops) == 1 and ((isinstance(tst.ops[0], ast.NotIn) and lab is True) or (isinstance(tst.ops[0], ast.In) and lab is False)):
                    attrs = key_attrs(tst.left)
                    if "target_id" not in attrs:
                        bad.append(f"the duplicate key `{unparse(tst.left)[:60]}` (fields {sorted(attrs)[:6]}) does not contain the observation's target_id: two targets observed by one sensor at one epoch collapse into one, and the second target's filter never gets its observation")
                    elif not (attrs & {"sensor_id", "pos_x_km", "sensor_eci"}):
                        bad.append(f"the duplicate key `{unparse(tst.left)[:60]}` does not identify the sensor: two sensors observing one target collapse into one")
                else:
                    bad.append(f"an imported observation is kept only under `{unparse(tst)[:60]}`")
            if bad:
                r.violation(cons, "dedup:" + ";".join(b[:40] for b in bad), "; ".join(bad), lio.loc(a))
            else:
                r.ok(cons, "only exact duplicates (same sensor position and same target) are dropped", lio.loc(a))

    r.guard("imported-observations-dedup", dedup)

    def path_chain():
        """The importer path given to the scenario reaches every tasking engine unchanged and unconditionally, the
        engine opens the importer whenever it has a path, and loads from it whenever it has an importer."""
        from rsa.terms import inline_locals

        def bound(call, callee, name):
            params = [a.arg for a in callee.node.args.posonlyargs + callee.node.args.args]
            if callee.kind in ("method", "classmethod") or (params and params[0] in ("self", "cls")):
                params = params[1:]
            for k in call.keywords:
                if k.arg == name:
                    return k.value
            if name in params and params.index(name) < len(call.args):
                return call.args[params.index(name)]
            return None

        hops = []
        sb = p.cls("resonaate.scenario.scenario_builder.ScenarioBuilder")
        init, ite = sb.methods.get("__init__"), sb.methods.get("_initTaskingEngines")
        require(init is not None and ite is not None, "ScenarioBuilder.__init__ / _initTaskingEngines not found", sb.node)
        c1 = find_calls(init.node, "_initTaskingEngines")
        require(len(c1) == 1, "_initTaskingEngines is not called once", init.node)
        hops.append((init, c1[0], ite))
        ctor = [c for c in walk_no_nested(ite.node) if isinstance(c, ast.Call) and call_name(c) == "CentralizedTaskingEngine"]
        require(len(ctor) == 1, "the tasking engine is not constructed once", ite.node)
        einit = eng.methods.get("__init__")
        hops.append((ite, ctor[0], einit))
        base = p.cls("resonaate.tasking.engine.engine_base.TaskingEngine")
        binit = base.methods.get("__init__")
        sup = [c for c in walk_no_nested(einit.node) if isinstance(c, ast.Call) and call_name(c) == "__init__"]
        require(len(sup) == 1, "the engine does not call super().__init__ once", einit.node)
        hops.append((einit, sup[0], binit))
        bad = []
        for caller, call, callee in hops:
            v = bound(call, callee, "importer_db_path")
            if v is None:
                bad.append(f"{caller.qualname} does not pass importer_db_path on to {callee.qualname}")
                continue
            e = inline_locals(caller, v)
            if not (isinstance(e, ast.Name) and e.id == "importer_db_path" and "importer_db_path" in caller.all_params):
                bad.append(f"{caller.qualname} passes `{unparse(e)[:70]}` as importer_db_path (expected its own importer_db_path, unconditionally): engines built without the path never load the stored observations")
            cfg = cfg_of(caller)
            conds = [unparse(cfg.nodes[cid].ast) for cid, lab in cfg.control_conditions(cfg.node_of(call).id) if cfg.nodes[cid].kind == "cond"]
            if any("realtime" in c or "importer" in c for c in conds):
                bad.append(f"{caller.qualname} builds {callee.cls.name if callee.cls else callee.name} under {conds}")
        # the engine opens the importer iff it has a path, and loads iff it has an importer
        opens = [n for n in walk_no_nested(binit.node) if isinstance(n, ast.Assign) and unparse(n.targets[0]) == "self._importer_db" and isinstance(n.value, ast.Call) and call_name(n.value) == "ImporterDatabase"]
        if len(opens) != 1:
            bad.append("the engine does not open the importer database exactly once")
        else:
            cfgb = cfg_of(binit)
            conds = [(unparse(cfgb.nodes[cid].ast), lab) for cid, lab in cfgb.control_conditions(cfgb.node_of(opens[0]).id) if cfgb.nodes[cid].kind == "cond"]
            extra = [c for c in conds if c != ("importer_db_path", True) and not (c[0].startswith("isinstance(") and c[1] is True)]
            if ("importer_db_path", True) not in conds or extra:
                bad.append(f"the importer database is opened under {conds}, expected exactly `if importer_db_path`")
            v = bound(opens[0].value, p.cls("resonaate.data.importer_database.ImporterDatabase").methods.get("__init__"), "db_path") if p.cls("resonaate.data.importer_database.ImporterDatabase").methods.get("__init__") else None
            if v is not None and unparse(v) != "importer_db_path":
                bad.append(f"the importer database is opened on `{unparse(v)}`")
        loads = [c for c in find_calls(assess.node, "loadImportedObservations")]
        if loads:
            cfga = cfg_of(assess)
            conds = [(unparse(cfga.nodes[cid].ast), lab) for cid, lab in cfga.control_conditions(cfga.node_of(loads[0]).id) if cfga.nodes[cid].kind == "cond"]
            if conds not in ([("self._importer_db", True)], [("self._importer_db is not None", True)]):
                bad.append(f"imported observations are loaded under {conds}, expected exactly `if self._importer_db`")
        cons = "importer-path-chain"
        if bad:
            r.violation(cons, "importer-path:" + ";".join(b[:50] for b in bad), "; ".join(bad), ite.loc(ctor[0]))
        else:
            r.ok(cons, "scenario importer path -> ScenarioBuilder -> engine constructor -> ImporterDatabase -> loadImportedObservations, each hop unconditional", ite.loc(ctor[0]), obligations=len(hops) + 2)

    r.guard("importer-path-chain", path_chain)

    r.guard("update-hop", lambda: update_hop(r, p))

    # remote-handle typing
    def handles():
        stores = remote.install(p, t)
        require(len(stores) >= 3, f"expected three typed handle stores, found {sorted(stores)}", eng.node)
        for k, v in sorted(stores.items()):
            r.ok(f"store:{k}", f"handles of {v.name}", "")
        n_checked = 0
        mods = [m for m in p.modules if m.startswith(("resonaate.tasking.engine", "resonaate.parallel."))]
        for fi in p.all_functions(include_nested=True):
            if fi.module.name not in mods:
                continue
            typed = {}
            for n in walk_no_nested(fi.node):
                if isinstance(n, (ast.Assign, ast.AnnAssign)) and n.value is not None and isinstance(n.value, ast.Call) and dotted_name(n.value.func) == "ray.get":
                    tg = n.targets[0] if isinstance(n, ast.Assign) else n.target
                    ty = t.expr_type(n.value.args[0], fi) if n.value.args else None
                    if isinstance(tg, ast.Name) and ty is not None:
                        typed[tg.id] = ty
            # loop variables over typed lists
            for n in walk_no_nested(fi.node):
                if isinstance(n, ast.For):
                    it = n.iter
                    if isinstance(it, ast.Call) and call_name(it) == "enumerate" and it.args:
                        src, tgt = it.args[0], (n.target.elts[1] if isinstance(n.target, ast.Tuple) and len(n.target.elts) == 2 else None)
                    else:
                        src, tgt = it, n.target
                    if isinstance(src, ast.Name) and src.id in typed and typed[src.id].kind == "list" and isinstance(tgt, ast.Name) and typed[src.id].elem is not None:
                        typed[tgt.id] = typed[src.id].elem
            for name, ty in typed.items():
                if ty.kind != "obj" or ty.cls is None:
                    continue
                for n in walk_no_nested(fi.node):
                    if isinstance(n, ast.Attribute) and isinstance(n.ctx, ast.Load):
                        # maximal chains rooted at the typed local
                        chain = []
                        cur = n
                        while isinstance(cur, ast.Attribute):
                            chain.append(cur.attr)
                            cur = cur.value
                        if not (isinstance(cur, ast.Name) and cur.id == name):
                            continue
                        chain.reverse()
                        cls = ty.cls
                        for i, a in enumerate(chain):
                            n_checked += 1
                            if a not in p.instance_attrs(cls):
                                r.violation(
                                    f"{fi.qualname}:{name}.{'.'.join(chain[: i + 1])}",
                                    f"missing-attribute:{cls.name}.{a}",
                                    f"`{unparse(n)}`: `{name}` is the {ty.cls.name} obtained from its ray handle, and {cls.name} has no attribute `{a}` - this line raises AttributeError for every input",
                                    fi.loc(n),
                                )
                                break
                            nt = t.attr_type(cls, a)
                            if nt is None or nt.cls is None or nt.kind != "obj":
                                break
                            cls = nt.cls
        if n_checked >= 15:
            r.ok("remote-handle-attributes", f"{n_checked} attribute steps on ray.get values resolve in the class of their handle", "")
        else:
            r.error("remote-handle-attributes", f"only {n_checked} attribute steps on remote values were typed (>= 15 confirmed by hand)")
        # attribute access on values whose callee is annotated to return a builtin container
        for fi in eng.methods.values():
            defs = single_defs(fi.node)
            for name, v in defs.items():
                if isinstance(v, ast.Call):
                    for tg in t.callees(v, fi):
                        if isinstance(tg, FunctionInfo) and tg.node.returns is not None and unparse(tg.node.returns) in ("dict", "list", "tuple", "set"):
                            kind = unparse(tg.node.returns)
                            ok_attrs = set(dir({"dict": dict, "list": list, "tuple": tuple, "set": set}[kind]))
                            for n in walk_no_nested(fi.node):
                                if isinstance(n, ast.Attribute) and isinstance(n.value, ast.Name) and n.value.id == name and n.attr not in ok_attrs:
                                    r.violation(f"{fi.qualname}:{name}.{n.attr}", f"missing-attribute:{kind}.{n.attr}", f"`{unparse(n)}`: `{name}` is the {kind} returned by {tg.name}(); a {kind} has no attribute `{n.attr}`", fi.loc(n))

    r.guard("remote-handles", handles)
    am = eng.methods.get("_attachObsMetadata")

    def meta():
        require(am is not None, "_attachObsMetadata not found", eng.node)
        gets = [c for c in walk_no_nested(am.node) if isinstance(c, ast.Call) and dotted_name(c.func) == "ray.get"]
        require(len(gets) == 1, "one ray.get expected", am.node)
        arg = gets[0].args[0]
        ob = am.params[1]
        if unparse(arg) == f"self._sensor_store[{ob}.sensor_id]":
            r.ok(am.qualname + ":sensor", "metadata from the sensor of the observation's own sensor_id", am.loc())
        else:
            r.violation(am.qualname + ":sensor", f"sensor:{unparse(arg)}", f"metadata is taken from `{unparse(arg)}`, not the observation's own sensor", am.loc())
        asg = [n for n in walk_no_nested(am.node) if isinstance(n, ast.Assign) and isinstance(n.targets[0], ast.Attribute) and n.targets[0].attr == "measurement"]
        if len(asg) == 1 and unparse(asg[0].targets[0].value) == ob and unparse(asg[0].value).endswith(".measurement"):
            r.ok(am.qualname + ":assign", "observation.measurement <- the sensor's measurement", am.loc())
        else:
            r.violation(am.qualname + ":assign", "measurement-not-attached", "the observation's measurement is not set from the sensor's measurement", am.loc())

    r.guard("attach-metadata", meta)


def rule_r5(chk, p, t):
    r = chk.rule(
        "C19.R5",
        "a failed read of the database is never reported as an empty result",
        1,
        "both importer paths (ephemerides, observations) read through DataInterface.getData; `nothing stored for this "
        "epoch` and `the read failed` must stay distinguishable: in getData (and every override) no path leads from an "
        "exception handler to a normal return without either re-raising or passing a read statement that completed "
        "afterwards - a retry loop that falls through after its last failed attempt returns the initial empty value, the "
        "engine saves no imported observations for the epoch and the filters silently take the propagate-only branch",
        "which exceptions the driver raises",
    )
    from rsa.cfg import cfg_of

    di = p.cls("resonaate.data.data_interface.DataInterface")
    n = 0
    for ci in [di] + list(p.subclasses(di)):
        m = ci.methods.get("getData")
        if m is None:
            continue
        n += 1

        def one(m=m, ci=ci):
            cfg = cfg_of(m)
            READS = {"all", "first", "one", "one_or_none", "scalar", "scalars", "execute", "fetchall", "fetchone"}
            reads = [nd.id for nd in cfg.nodes if nd.ast is not None and nd.kind in ("stmt", "return", "cond") and any(isinstance(c, ast.Call) and isinstance(c.func, ast.Attribute) and c.func.attr in READS for c in ast.walk(nd.ast))]
            require(reads, f"{ci.name}.getData performs no read", m.node)
            rets = [nd for nd in cfg.nodes if nd.kind == "return"]
            require(rets, f"{ci.name}.getData has no return", m.node)
            handlers = [h for tr in ast.walk(m.node) if isinstance(tr, ast.Try) for h in tr.handlers]
            bad = []
            for h in handlers:
                first = next((nd for nd in cfg.nodes if nd.ast is not None and h.body and (nd.ast is h.body[0] or any(x is nd.ast for x in ast.walk(h.body[0])))), None)
                if first is None:
                    continue
                reach = cfg.reachable(first.id, blocked_nodes=reads)
                leak = [rt for rt in rets if rt.id in reach]
                if leak:
                    bad.append((h, leak[0]))
            if bad:
                h, rt = bad[0]
                r.violation(
                    m.qualname,
                    f"failed-read-returns:{unparse(h.type) if h.type is not None else 'bare'}",
                    f"{ci.name}.getData: after `except {unparse(h.type) if h.type is not None else ''}` (line {h.lineno}) a path reaches `return` (line {rt.lineno}) without re-raising and without a completed read: "
                    "a read that failed is reported as `no rows` - imported observations and ephemerides of that epoch silently disappear",
                    m.loc(h),
                )
            else:
                r.ok(m.qualname, f"{len(handlers)} handler(s): each re-raises or leads to a completed read before any return", m.loc())

        r.guard(m.qualname, one)
    if n == 0:
        r.error("getData", "DataInterface.getData not found")


def rule_r6(chk, p, t):
    from rules.shared_engine import rule_engine_provenance

    rule_engine_provenance(chk, p, t, "C19.R6", "'the truth state after a step equals the stored record for that agent and epoch' in the database the run was pointed at.")


def run(chk, p, t):
    chk.explanation = (
        "Static decision of structural necessary conditions of C19: (R1) every public mutating method of the data "
        "interface (computed from the session-writing closure) is overridden by a raise in the importer, private "
        "writers are unreachable from run-path modules, run paths use only the non-committing getData; (R2) the "
        "propositional condition of the MissingEphemerisError raise is implied by 'registered - retrieved non-empty'; "
        "(R3) records are imported into the registrant of their own id; (R4) imported observations flow to "
        "saveObservations and every attribute read on a ray.get value resolves in the class its handle was put with "
        "(remote-handle typing). NOT decided: contents of arbitrary importer files."
    )
    chk.assumptions += [
        "the importer file already has the full schema, so create_all(checkfirst=True) at construction is a no-op",
        "ray.get returns an object of the class that was ray.put (typing by provenance of the handle)",
    ]
    for fn in (rule_r1, rule_r2, rule_r3, rule_r4, rule_r5, rule_r6):
        rid = "C19.R" + fn.__name__[-1]
        if not chk.wants(rid):
            continue
        try:
            fn(chk, p, t)
        except (Undecided, AnchorError) as e:
            rr = chk.rule(rid + ".x", fn.__name__, 0, "-")
            (rr.undecided if isinstance(e, Undecided) else rr.error)(fn.__name__, str(e))


_ = ClassInfo
